//! C24 — `State::apply` of every P2P-stack mini-protocol equals the specification (DESIGN §C24).
use crate::spec::{self, Spec};
use pallas_network2::protocol as proto;
use pallas_network2::protocol::{blockfetch as bf, chainsync as cs, handshake as hs, keepalive as ka, leiosfetch as lf, leiosnotify as ln, peersharing as ps, txsubmission as tx};
use proptest::prelude::*;
use pvkit::{pv_ensure, pv_fail, Fail, Obs, Session};
use serde::{Deserialize, Serialize};
use std::collections::HashMap;
use std::fmt::Debug;

/// One protocol state machine under test, with representative states/messages and the
/// specification's expected successor *including the data it must carry*.
trait Machine {
    type S: Clone + PartialEq + Debug;
    type M: Clone + Debug;
    fn spec() -> &'static Spec;
    fn class(s: &Self::S) -> &'static str;
    fn variant(m: &Self::M) -> &'static str;
    fn apply(s: &Self::S, m: &Self::M) -> Result<Self::S, String>;
    /// representative states of a class (index = data variation)
    fn reps(class: &str) -> Vec<Self::S>;
    /// message pool (every variant, two payload variations where a payload exists)
    fn msgs() -> Vec<Self::M>;
    /// expected successor according to the specification
    fn expected(s: &Self::S, m: &Self::M, to: &str) -> Self::S;
}

fn p(i: u8) -> proto::Point {
    if i == 0 { proto::Point::Origin } else { proto::Point::Specific(i as u64, vec![i; 32]) }
}

// ---- handshake ----
struct Hs;
fn hs_table(n: u64) -> hs::VersionTable<u64> {
    let mut values = HashMap::new();
    values.insert(13 + n, 764824073 + n);
    values.insert(11, 2);
    hs::VersionTable { values }
}
impl Machine for Hs {
    type S = hs::State<u64>;
    type M = hs::Message<u64>;
    fn spec() -> &'static Spec { &spec::HANDSHAKE }
    fn class(s: &Self::S) -> &'static str {
        match s { hs::State::Propose => "Propose", hs::State::Confirm(_) => "Confirm", hs::State::Done(_) => "Done" }
    }
    fn variant(m: &Self::M) -> &'static str {
        match m { hs::Message::Propose(_) => "Propose", hs::Message::Accept(..) => "Accept", hs::Message::Refuse(_) => "Refuse", hs::Message::QueryReply(_) => "QueryReply" }
    }
    fn apply(s: &Self::S, m: &Self::M) -> Result<Self::S, String> { s.apply(m).map_err(|e| e.to_string()) }
    fn reps(class: &str) -> Vec<Self::S> {
        match class {
            "Propose" => vec![hs::State::Propose],
            "Confirm" => vec![hs::State::Confirm(hs_table(0)), hs::State::Confirm(hs_table(1))],
            _ => vec![hs::State::Done(hs::DoneState::Accepted(13, 1)), hs::State::Done(hs::DoneState::Rejected(hs::RefuseReason::VersionMismatch(vec![1]))), hs::State::Done(hs::DoneState::QueryReply(hs_table(0)))],
        }
    }
    fn msgs() -> Vec<Self::M> {
        vec![
            hs::Message::Propose(hs_table(0)), hs::Message::Propose(hs_table(2)),
            hs::Message::Accept(13, 764824073), hs::Message::Accept(14, 2),
            hs::Message::Refuse(hs::RefuseReason::VersionMismatch(vec![13, 14])), hs::Message::Refuse(hs::RefuseReason::Refused(13, "no".into())),
            hs::Message::Refuse(hs::RefuseReason::HandshakeDecodeError(13, "bad".into())),
            hs::Message::QueryReply(hs_table(0)), hs::Message::QueryReply(hs_table(3)),
        ]
    }
    fn expected(_s: &Self::S, m: &Self::M, _to: &str) -> Self::S {
        match m {
            hs::Message::Propose(t) => hs::State::Confirm(t.clone()),
            hs::Message::Accept(n, d) => hs::State::Done(hs::DoneState::Accepted(*n, *d)),
            hs::Message::Refuse(r) => hs::State::Done(hs::DoneState::Rejected(r.clone())),
            hs::Message::QueryReply(t) => hs::State::Done(hs::DoneState::QueryReply(t.clone())),
        }
    }
}

// ---- chainsync ----
struct Cs;
fn tip(i: u8) -> cs::Tip { cs::Tip(p(i), 100 + i as u64) }
impl Machine for Cs {
    type S = cs::State<u32>;
    type M = cs::Message<u32>;
    fn spec() -> &'static Spec { &spec::CHAINSYNC }
    fn class(s: &Self::S) -> &'static str {
        match s { cs::State::Idle(_) => "Idle", cs::State::CanAwait => "CanAwait", cs::State::MustReply => "MustReply", cs::State::Intersect(_) => "Intersect", cs::State::Done => "Done" }
    }
    fn variant(m: &Self::M) -> &'static str {
        match m {
            cs::Message::RequestNext => "RequestNext", cs::Message::AwaitReply => "AwaitReply", cs::Message::RollForward(..) => "RollForward",
            cs::Message::RollBackward(..) => "RollBackward", cs::Message::FindIntersect(_) => "FindIntersect", cs::Message::IntersectFound(..) => "IntersectFound",
            cs::Message::IntersectNotFound(_) => "IntersectNotFound", cs::Message::Done => "Done",
        }
    }
    fn apply(s: &Self::S, m: &Self::M) -> Result<Self::S, String> { s.apply(m).map_err(|e| e.to_string()) }
    fn reps(class: &str) -> Vec<Self::S> {
        match class {
            "Idle" => vec![
                cs::State::Idle(cs::Data::New), cs::State::Idle(cs::Data::Drained), cs::State::Idle(cs::Data::Content(9, tip(1))),
                cs::State::Idle(cs::Data::Intersection(p(1), tip(2))), cs::State::Idle(cs::Data::NoIntersection(tip(1))), cs::State::Idle(cs::Data::Rollback(p(2), tip(3))),
            ],
            "CanAwait" => vec![cs::State::CanAwait],
            "MustReply" => vec![cs::State::MustReply],
            "Intersect" => vec![cs::State::Intersect(vec![p(1), p(2)]), cs::State::Intersect(vec![])],
            _ => vec![cs::State::Done],
        }
    }
    fn msgs() -> Vec<Self::M> {
        vec![
            cs::Message::RequestNext, cs::Message::AwaitReply, cs::Message::RollForward(1, tip(1)), cs::Message::RollForward(77, tip(4)),
            cs::Message::RollBackward(p(1), tip(1)), cs::Message::RollBackward(p(0), tip(3)), cs::Message::FindIntersect(vec![p(1)]), cs::Message::FindIntersect(vec![p(2), p(0)]),
            cs::Message::IntersectFound(p(1), tip(2)), cs::Message::IntersectFound(p(0), tip(5)), cs::Message::IntersectNotFound(tip(1)), cs::Message::IntersectNotFound(tip(6)), cs::Message::Done,
        ]
    }
    fn expected(_s: &Self::S, m: &Self::M, to: &str) -> Self::S {
        match m {
            cs::Message::RequestNext => cs::State::CanAwait,
            cs::Message::AwaitReply => cs::State::MustReply,
            cs::Message::RollForward(c, t) => cs::State::Idle(cs::Data::Content(*c, t.clone())),
            cs::Message::RollBackward(pt, t) => cs::State::Idle(cs::Data::Rollback(pt.clone(), t.clone())),
            cs::Message::FindIntersect(v) => cs::State::Intersect(v.clone()),
            cs::Message::IntersectFound(pt, t) => cs::State::Idle(cs::Data::Intersection(pt.clone(), t.clone())),
            cs::Message::IntersectNotFound(t) => cs::State::Idle(cs::Data::NoIntersection(t.clone())),
            cs::Message::Done => { let _ = to; cs::State::Done }
        }
    }
}

// ---- blockfetch ----
struct Bf;
impl Machine for Bf {
    type S = bf::State;
    type M = bf::Message;
    fn spec() -> &'static Spec { &spec::BLOCKFETCH }
    fn class(s: &Self::S) -> &'static str {
        match s { bf::State::Idle => "Idle", bf::State::Busy(_) => "Busy", bf::State::Streaming(_) => "Streaming", bf::State::Done => "Done" }
    }
    fn variant(m: &Self::M) -> &'static str {
        match m { bf::Message::RequestRange(_) => "RequestRange", bf::Message::ClientDone => "ClientDone", bf::Message::StartBatch => "StartBatch", bf::Message::NoBlocks => "NoBlocks", bf::Message::Block(_) => "Block", bf::Message::BatchDone => "BatchDone" }
    }
    fn apply(s: &Self::S, m: &Self::M) -> Result<Self::S, String> { s.apply(m).map_err(|e| e.to_string()) }
    fn reps(class: &str) -> Vec<Self::S> {
        match class {
            "Idle" => vec![bf::State::Idle],
            "Busy" => vec![bf::State::Busy((p(1), p(2))), bf::State::Busy((p(0), p(0)))],
            "Streaming" => vec![bf::State::Streaming(None), bf::State::Streaming(Some(vec![1, 2, 3]))],
            _ => vec![bf::State::Done],
        }
    }
    fn msgs() -> Vec<Self::M> {
        vec![bf::Message::RequestRange((p(1), p(3))), bf::Message::RequestRange((p(2), p(2))), bf::Message::ClientDone, bf::Message::StartBatch, bf::Message::NoBlocks,
            bf::Message::Block(vec![9, 9]), bf::Message::Block(vec![]), bf::Message::BatchDone]
    }
    fn expected(_s: &Self::S, m: &Self::M, _to: &str) -> Self::S {
        match m {
            bf::Message::RequestRange(r) => bf::State::Busy(r.clone()),
            bf::Message::ClientDone => bf::State::Done,
            bf::Message::StartBatch => bf::State::Streaming(None),
            bf::Message::NoBlocks => bf::State::Idle,
            bf::Message::Block(b) => bf::State::Streaming(Some(b.clone())),
            bf::Message::BatchDone => bf::State::Idle,
        }
    }
}

// ---- txsubmission ----
struct Tx;
impl Machine for Tx {
    type S = tx::State;
    type M = tx::Message;
    fn spec() -> &'static Spec { &spec::TXSUBMISSION }
    fn class(s: &Self::S) -> &'static str {
        match s { tx::State::Init => "Init", tx::State::Idle => "Idle", tx::State::TxIdsNonBlocking => "TxIdsNonBlocking", tx::State::TxIdsBlocking => "TxIdsBlocking", tx::State::Txs(_) => "Txs", tx::State::Done => "Done" }
    }
    fn variant(m: &Self::M) -> &'static str {
        match m {
            tx::Message::Init => "Init", tx::Message::RequestTxIds(true, ..) => "RequestTxIdsBlocking", tx::Message::RequestTxIds(false, ..) => "RequestTxIdsNonBlocking",
            tx::Message::ReplyTxIds(_) => "ReplyTxIds", tx::Message::RequestTxs(_) => "RequestTxs", tx::Message::ReplyTxs(_) => "ReplyTxs", tx::Message::Done => "Done",
        }
    }
    fn apply(s: &Self::S, m: &Self::M) -> Result<Self::S, String> { s.apply(m).map_err(|e| e.to_string()) }
    fn reps(class: &str) -> Vec<Self::S> {
        match class {
            "Init" => vec![tx::State::Init],
            "Idle" => vec![tx::State::Idle],
            "TxIdsBlocking" => vec![tx::State::TxIdsBlocking],
            "TxIdsNonBlocking" => vec![tx::State::TxIdsNonBlocking],
            "Txs" => vec![tx::State::Txs(vec![]), tx::State::Txs(vec![tx::EraTxBody(6, vec![1])])],
            _ => vec![tx::State::Done],
        }
    }
    fn msgs() -> Vec<Self::M> {
        vec![
            tx::Message::Init, tx::Message::RequestTxIds(true, 0, 3), tx::Message::RequestTxIds(false, 1, 2), tx::Message::ReplyTxIds(vec![]),
            tx::Message::ReplyTxIds(vec![tx::TxIdAndSize(tx::EraTxId(6, vec![7; 32]), 200)]), tx::Message::RequestTxs(vec![tx::EraTxId(6, vec![7; 32])]),
            tx::Message::ReplyTxs(vec![tx::EraTxBody(6, vec![0x80])]), tx::Message::ReplyTxs(vec![]), tx::Message::Done,
        ]
    }
    fn expected(_s: &Self::S, _m: &Self::M, to: &str) -> Self::S {
        // the specification's states carry no data here; `Txs` is entered with nothing received yet
        match to {
            "Idle" => tx::State::Idle,
            "TxIdsBlocking" => tx::State::TxIdsBlocking,
            "TxIdsNonBlocking" => tx::State::TxIdsNonBlocking,
            "Txs" => tx::State::Txs(vec![]),
            "Done" => tx::State::Done,
            _ => tx::State::Init,
        }
    }
}

// ---- keepalive ----
struct Ka;
impl Machine for Ka {
    type S = ka::State;
    type M = ka::Message;
    fn spec() -> &'static Spec { &spec::KEEPALIVE }
    fn class(s: &Self::S) -> &'static str {
        match s { ka::State::Client(_) => "Client", ka::State::Server(_) => "Server", ka::State::Done => "Done" }
    }
    fn variant(m: &Self::M) -> &'static str {
        match m { ka::Message::KeepAlive(_) => "KeepAlive", ka::Message::ResponseKeepAlive(_) => "ResponseKeepAlive", ka::Message::Done => "Done" }
    }
    fn apply(s: &Self::S, m: &Self::M) -> Result<Self::S, String> { s.apply(m).map_err(|e| e.to_string()) }
    fn reps(class: &str) -> Vec<Self::S> {
        match class {
            "Client" => vec![ka::State::Client(ka::ClientState::Empty), ka::State::Client(ka::ClientState::Response(5))],
            "Server" => vec![ka::State::Server(5), ka::State::Server(65535)],
            _ => vec![ka::State::Done],
        }
    }
    fn msgs() -> Vec<Self::M> {
        vec![ka::Message::KeepAlive(5), ka::Message::KeepAlive(0), ka::Message::ResponseKeepAlive(5), ka::Message::ResponseKeepAlive(6), ka::Message::Done]
    }
    fn expected(_s: &Self::S, m: &Self::M, _to: &str) -> Self::S {
        match m {
            ka::Message::KeepAlive(c) => ka::State::Server(*c),
            ka::Message::ResponseKeepAlive(c) => ka::State::Client(ka::ClientState::Response(*c)),
            ka::Message::Done => ka::State::Done,
        }
    }
}

// ---- peersharing ----
struct Ps;
fn addrs(n: u8) -> Vec<ps::PeerAddress> {
    (0..n).map(|i| ps::PeerAddress::V4(std::net::Ipv4Addr::new(10, 0, 0, i + 1), 3000 + i as u16)).collect()
}
impl Machine for Ps {
    type S = ps::State;
    type M = ps::Message;
    fn spec() -> &'static Spec { &spec::PEERSHARING }
    fn class(s: &Self::S) -> &'static str {
        match s { ps::State::Idle(_) => "Idle", ps::State::Busy(_) => "Busy", ps::State::Done => "Done" }
    }
    fn variant(m: &Self::M) -> &'static str {
        match m { ps::Message::ShareRequest(_) => "ShareRequest", ps::Message::SharePeers(_) => "SharePeers", ps::Message::Done => "Done" }
    }
    fn apply(s: &Self::S, m: &Self::M) -> Result<Self::S, String> { s.apply(m).map_err(|e| e.to_string()) }
    fn reps(class: &str) -> Vec<Self::S> {
        match class {
            "Idle" => vec![ps::State::Idle(ps::IdleState::Empty), ps::State::Idle(ps::IdleState::Response(addrs(2)))],
            "Busy" => vec![ps::State::Busy(3), ps::State::Busy(0)],
            _ => vec![ps::State::Done],
        }
    }
    fn msgs() -> Vec<Self::M> {
        vec![ps::Message::ShareRequest(3), ps::Message::ShareRequest(255), ps::Message::SharePeers(addrs(2)), ps::Message::SharePeers(vec![]), ps::Message::Done]
    }
    fn expected(_s: &Self::S, m: &Self::M, _to: &str) -> Self::S {
        match m {
            ps::Message::ShareRequest(n) => ps::State::Busy(*n),
            ps::Message::SharePeers(v) => ps::State::Idle(ps::IdleState::Response(v.clone())),
            ps::Message::Done => ps::State::Done,
        }
    }
}

// ---- leios notify ----
struct Ln;
fn ac(n: u64) -> proto::AnyCbor { proto::AnyCbor::from_encode(n) }
impl Machine for Ln {
    type S = ln::State;
    type M = ln::Message;
    fn spec() -> &'static Spec { &spec::LEIOSNOTIFY }
    fn class(s: &Self::S) -> &'static str {
        match s { ln::State::Idle(_) => "Idle", ln::State::Busy => "Busy", ln::State::Done => "Done" }
    }
    fn variant(m: &Self::M) -> &'static str {
        match m { ln::Message::RequestNext => "RequestNext", ln::Message::BlockAnnouncement(_) => "BlockAnnouncement", ln::Message::BlockOffer(..) => "BlockOffer", ln::Message::BlockTxsOffer(_) => "BlockTxsOffer", ln::Message::Votes(_) => "Votes", ln::Message::Done => "Done" }
    }
    fn apply(s: &Self::S, m: &Self::M) -> Result<Self::S, String> { s.apply(m).map_err(|e| e.to_string()) }
    fn reps(class: &str) -> Vec<Self::S> {
        match class {
            "Idle" => vec![ln::State::Idle(None), ln::State::Idle(Some(ln::Notification::BlockOffer(p(1), 10)))],
            "Busy" => vec![ln::State::Busy],
            _ => vec![ln::State::Done],
        }
    }
    fn msgs() -> Vec<Self::M> {
        vec![ln::Message::RequestNext, ln::Message::BlockAnnouncement(ac(1)), ln::Message::BlockAnnouncement(ac(500)), ln::Message::BlockOffer(p(1), 10), ln::Message::BlockOffer(p(2), 0),
            ln::Message::BlockTxsOffer(p(1)), ln::Message::BlockTxsOffer(p(3)), ln::Message::Votes(vec![ac(1), ac(2)]), ln::Message::Votes(vec![]), ln::Message::Done]
    }
    fn expected(_s: &Self::S, m: &Self::M, _to: &str) -> Self::S {
        match m {
            ln::Message::RequestNext => ln::State::Busy,
            ln::Message::BlockAnnouncement(a) => ln::State::Idle(Some(ln::Notification::BlockAnnouncement(a.clone()))),
            ln::Message::BlockOffer(a, b) => ln::State::Idle(Some(ln::Notification::BlockOffer(a.clone(), *b))),
            ln::Message::BlockTxsOffer(a) => ln::State::Idle(Some(ln::Notification::BlockTxsOffer(a.clone()))),
            ln::Message::Votes(v) => ln::State::Idle(Some(ln::Notification::Votes(v.clone()))),
            ln::Message::Done => ln::State::Done,
        }
    }
}

// ---- leios fetch ----
struct Lf;
impl Machine for Lf {
    type S = lf::State;
    type M = lf::Message;
    fn spec() -> &'static Spec { &spec::LEIOSFETCH }
    fn class(s: &Self::S) -> &'static str {
        match s { lf::State::Idle(_) => "Idle", lf::State::AwaitingBlock(_) => "AwaitingBlock", lf::State::AwaitingBlockTxs(..) => "AwaitingBlockTxs", lf::State::Done => "Done" }
    }
    fn variant(m: &Self::M) -> &'static str {
        match m { lf::Message::BlockRequest(_) => "BlockRequest", lf::Message::Block(_) => "Block", lf::Message::BlockTxsRequest(..) => "BlockTxsRequest", lf::Message::BlockTxs { .. } => "BlockTxs", lf::Message::Done => "Done" }
    }
    fn apply(s: &Self::S, m: &Self::M) -> Result<Self::S, String> { s.apply(m).map_err(|e| e.to_string()) }
    fn reps(class: &str) -> Vec<Self::S> {
        match class {
            "Idle" => vec![lf::State::Idle(None), lf::State::Idle(Some((p(1), lf::Response::Block(ac(1)))))],
            "AwaitingBlock" => vec![lf::State::AwaitingBlock(p(1)), lf::State::AwaitingBlock(p(2))],
            "AwaitingBlockTxs" => vec![lf::State::AwaitingBlockTxs(p(1), lf::Bitmaps::all(3)), lf::State::AwaitingBlockTxs(p(3), lf::Bitmaps::all(70))],
            _ => vec![lf::State::Done],
        }
    }
    fn msgs() -> Vec<Self::M> {
        vec![lf::Message::BlockRequest(p(1)), lf::Message::BlockRequest(p(4)), lf::Message::Block(ac(1)), lf::Message::Block(ac(9999)),
            lf::Message::BlockTxsRequest(p(1), lf::Bitmaps::all(3)), lf::Message::BlockTxsRequest(p(2), lf::Bitmaps::from_indices([0usize, 65])),
            lf::Message::BlockTxs { point: p(1), bitmaps: lf::Bitmaps::all(3), txs: vec![ac(1), ac(2)] }, lf::Message::BlockTxs { point: p(9), bitmaps: lf::Bitmaps::all(0), txs: vec![] }, lf::Message::Done]
    }
    fn expected(s: &Self::S, m: &Self::M, _to: &str) -> Self::S {
        // responses are paired with the EB of the *request* held in the state (module documentation)
        match (s, m) {
            (_, lf::Message::BlockRequest(e)) => lf::State::AwaitingBlock(e.clone()),
            (_, lf::Message::BlockTxsRequest(e, b)) => lf::State::AwaitingBlockTxs(e.clone(), b.clone()),
            (lf::State::AwaitingBlock(e), lf::Message::Block(b)) => lf::State::Idle(Some((e.clone(), lf::Response::Block(b.clone())))),
            (lf::State::AwaitingBlockTxs(e, _), lf::Message::BlockTxs { txs, .. }) => lf::State::Idle(Some((e.clone(), lf::Response::BlockTxs { txs: txs.clone() }))),
            (_, lf::Message::Done) => lf::State::Done,
            _ => unreachable!("spec has no such edge"),
        }
    }
}

#[derive(Debug, Clone, Serialize, Deserialize)]
pub struct Case {
    proto: String,
    /// class of the start state and which representative of it
    start: String,
    rep: u8,
    /// indices into the protocol's message pool
    msgs: Vec<u8>,
}

/// Walk `case.msgs` from the start state. At every step the result of `apply` is compared with the
/// specification for the message taken *and* for every other message of the pool (pair table).
fn walk<Mc: Machine>(case: &Case, obs: &mut Obs, s: &Session) -> Result<(), Fail> {
    let spec = Mc::spec();
    let reps = Mc::reps(&case.start);
    let mut st = reps[case.rep as usize % reps.len()].clone();
    let pool = Mc::msgs();
    let mut steps = 0;
    for (i, mi) in case.msgs.iter().enumerate() {
        let class = Mc::class(&st);
        // pair table at this state
        let mut chosen_next: Option<Mc::S> = None;
        for (j, m) in pool.iter().enumerate() {
            let v = Mc::variant(m);
            let want = spec.next(class, v);
            let got = Mc::apply(&st, m);
            let taken = j == (*mi as usize % pool.len());
            obs.class(format!("{}:{}:{}:{}", spec.name, class, v, if want.is_some() { "permitted" } else { "forbidden" }));
            let verdict: Result<Option<Mc::S>, Fail> = match (want, got) {
                (None, Err(_)) => Ok(None),
                (None, Ok(n)) => Err(Fail { sig: format!("c24:{}:{}:{}:accepted-but-forbidden", spec.name, class, v),
                    msg: format!("step {i}: {class} --{v}--> is not in the specification but apply returned {n:?}") }),
                (Some(to), Err(e)) => Err(Fail { sig: format!("c24:{}:{}:{}:rejected-but-permitted", spec.name, class, v),
                    msg: format!("step {i}: specification permits {class} --{v}--> {to} but apply failed: {e}") }),
                (Some(to), Ok(n)) => {
                    let exp = Mc::expected(&st, m, to);
                    if Mc::class(&n) != to {
                        Err(Fail { sig: format!("c24:{}:{}:{}:wrong-next-state", spec.name, class, v),
                            msg: format!("step {i}: {class} --{v}--> should reach {to} but apply returned {n:?}") })
                    } else if n != exp {
                        Err(Fail { sig: format!("c24:{}:{}:{}:wrong-data", spec.name, class, v),
                            msg: format!("step {i}: {class} --{m:?}--> should be {exp:?} but apply returned {n:?}") })
                    } else {
                        Ok(Some(n))
                    }
                }
            };
            match verdict {
                Ok(n) => {
                    if taken { chosen_next = n; }
                }
                Err(f) => {
                    if s.is_known(&f.sig).is_some() {
                        // known deviation: record it through the runner (counts + KNOWN-FINDING line) but keep walking
                        // along the specification, substituting the state the specification prescribes
                        obs.class(format!("known:{}", f.sig));
                        crate::KNOWN_SEEN.lock().unwrap().insert(f.sig.clone());
                        if taken {
                            chosen_next = want.map(|to| Mc::expected(&st, m, to));
                        }
                    } else {
                        return Err(f);
                    }
                }
            }
        }
        match chosen_next {
            Some(n) => {
                st = n;
                steps += 1;
            }
            None => break, // forbidden message taken: state unchanged by construction (apply is pure), sequence ends
        }
    }
    // the start state of the walk must itself be classified as announced
    obs.nontrivial_if(steps >= 1 || !case.msgs.is_empty());
    Ok(())
}

fn dispatch(case: &Case, obs: &mut Obs, s: &Session) -> Result<(), Fail> {
    match case.proto.as_str() {
        "handshake" => walk::<Hs>(case, obs, s),
        "chainsync" => walk::<Cs>(case, obs, s),
        "blockfetch" => walk::<Bf>(case, obs, s),
        "txsubmission" => walk::<Tx>(case, obs, s),
        "keepalive" => walk::<Ka>(case, obs, s),
        "peersharing" => walk::<Ps>(case, obs, s),
        "leiosnotify" => walk::<Ln>(case, obs, s),
        "leiosfetch" => walk::<Lf>(case, obs, s),
        other => pv_fail!("harness:unknown-protocol", "{other}"),
    }
}

fn pool_len(proto: &str) -> usize {
    match proto {
        "handshake" => Hs::msgs().len(), "chainsync" => Cs::msgs().len(), "blockfetch" => Bf::msgs().len(), "txsubmission" => Tx::msgs().len(),
        "keepalive" => Ka::msgs().len(), "peersharing" => Ps::msgs().len(), "leiosnotify" => Ln::msgs().len(), _ => Lf::msgs().len(),
    }
}

fn pool_variants(proto: &str) -> Vec<&'static str> {
    match proto {
        "handshake" => Hs::msgs().iter().map(Hs::variant).collect(), "chainsync" => Cs::msgs().iter().map(Cs::variant).collect(),
        "blockfetch" => Bf::msgs().iter().map(Bf::variant).collect(), "txsubmission" => Tx::msgs().iter().map(Tx::variant).collect(),
        "keepalive" => Ka::msgs().iter().map(Ka::variant).collect(), "peersharing" => Ps::msgs().iter().map(Ps::variant).collect(),
        "leiosnotify" => Ln::msgs().iter().map(Ln::variant).collect(), _ => Lf::msgs().iter().map(Lf::variant).collect(),
    }
}

fn reps_len(proto: &str, class: &str) -> usize {
    match proto {
        "handshake" => Hs::reps(class).len(), "chainsync" => Cs::reps(class).len(), "blockfetch" => Bf::reps(class).len(), "txsubmission" => Tx::reps(class).len(),
        "keepalive" => Ka::reps(class).len(), "peersharing" => Ps::reps(class).len(), "leiosnotify" => Ln::reps(class).len(), _ => Lf::reps(class).len(),
    }
}

/// All message-index sequences of length <= max that follow specification edges from `initial`
/// (plus, at the end of each, one extra arbitrary message so forbidden messages are also *taken*).
fn spec_sequences(sp: &Spec, max: usize) -> Vec<Vec<u8>> {
    let variants = pool_variants(sp.name);
    let mut out: Vec<Vec<u8>> = vec![vec![]];
    let mut frontier: Vec<(Vec<u8>, &'static str)> = vec![(vec![], sp.initial)];
    for _ in 0..max {
        let mut next = vec![];
        for (seq, st) in &frontier {
            for (j, v) in variants.iter().enumerate() {
                let mut s2 = seq.clone();
                s2.push(j as u8);
                out.push(s2.clone());
                if let Some(to) = sp.next(st, v) {
                    next.push((s2, to));
                }
            }
        }
        frontier = next;
        if frontier.is_empty() {
            break;
        }
    }
    out
}

pub fn run(s: &Session) {
    s.set_rule("for each of the 8 protocol machines: (1) pair table — every state class (each representative \
        data variation) x every message of the pool (every variant, two payloads) — exhaustive; (2) every message \
        sequence of length <= 8 that follows specification edges from the initial state (the last message arbitrary), with \
        the full pair table re-checked at every visited state; (3) random walks to length 40 from random start states. \
        Oracle: apply is Ok exactly on specification edges and returns exactly the state the specification prescribes, \
        including the carried data. Non-trivial = at least one message applied; distinct = distinct (protocol, start, sequence)");
    s.assume("specification tables in harness/crates/pv-net2/src/spec.rs transcribed from the Ouroboros network specification (Leios: protocol module docs)");
    let mut table = vec![];
    let mut seqs = vec![];
    let max_len = s.pick(6, 8);
    for sp in spec::ALL {
        for (class, _) in sp.states {
            for rep in 0..reps_len(sp.name, class) {
                for j in 0..pool_len(sp.name) {
                    table.push(Case { proto: sp.name.into(), start: class.to_string(), rep: rep as u8, msgs: vec![j as u8] });
                }
            }
        }
        for q in spec_sequences(sp, max_len) {
            seqs.push(Case { proto: sp.name.into(), start: sp.initial.into(), rep: 0, msgs: q });
        }
    }
    s.note("pair_table_size", serde_json::json!(table.len()));
    s.note("spec_sequences", serde_json::json!(seqs.len()));
    s.foreach("pair-table", table, true, |c, o| dispatch(c, o, s));
    s.foreach("spec-sequences", seqs, true, |c, o| dispatch(c, o, s));
    s.forall(
        "random-walks",
        s.pick(40_000, 1_000_000),
        || {
            (0usize..spec::ALL.len(), any::<u16>(), any::<u8>(), prop::collection::vec(any::<u8>(), 1..40)).prop_map(|(pi, st, rep, msgs)| {
                let sp = spec::ALL[pi];
                let class = sp.states[pvkit::pick_idx(st, sp.states.len())].0;
                Case { proto: sp.name.into(), start: class.into(), rep, msgs }
            })
        },
        |c, o| dispatch(c, o, s),
    );
    crate::flush_known(s);
}
