//! C27 — peer promotion keeps peer sets consistent and banned peers away (DESIGN §C27).
use crate::explore::{bfs, execute, Mode, SeqCase};
use crate::sim::{Cfg, Op, World};
use proptest::prelude::*;
use pvkit::Session;

fn alphabet(peers: u8) -> Vec<Op> {
    let mut a = vec![Op::Housekeeping];
    for i in 0..peers {
        a.extend([
            Op::Include(i), Op::Ban(i), Op::Demote(i), Op::DemoteDirect(i), Op::BanDirect(i), Op::Connected(i), Op::ConnectFailed(i), Op::Disconnected(i), Op::Error(i),
            Op::DeliverSent(i), Op::Reply(i, 0, 0), Op::Reply(i, 0, 1), Op::RecvViolating(i),
        ]);
    }
    a
}

fn op_strategy(peers: u8) -> impl Strategy<Value = Op> {
    let p = 0..peers;
    prop_oneof![
        4 => Just(Op::Housekeeping),
        1 => Just(Op::IdleEvent),
        3 => p.clone().prop_map(Op::Include),
        1 => p.clone().prop_map(Op::Ban),
        1 => p.clone().prop_map(Op::Demote),
        1 => p.clone().prop_map(Op::DemoteDirect),
        1 => p.clone().prop_map(Op::BanDirect),
        3 => p.clone().prop_map(Op::Connected),
        1 => p.clone().prop_map(Op::ConnectFailed),
        2 => p.clone().prop_map(Op::Disconnected),
        1 => p.clone().prop_map(Op::Error),
        3 => p.clone().prop_map(Op::DeliverSent),
        3 => (p.clone(), any::<u8>(), 0u8..4).prop_map(|(a, b, c)| Op::Reply(a, b, c)),
        1 => p.clone().prop_map(Op::RecvViolating),
    ]
}

fn interesting(w: &World) -> bool {
    // a peer was banned or reached the hot set: the paths on which the invariants have something to say
    !w.banned_history.is_empty() || !w.b.promotion.hot_peers.is_empty()
}

pub fn run(s: &Session) {
    s.set_rule("op sequences over InitiatorBehavior with the harness as interface (events are applied only when a real \
        connection could deliver them; inapplicable ops are skipped and counted). (1) breadth-first, fingerprint-de-duplicated \
        exhaustive exploration of all sequences up to the depth bound over 3 peers with limits (max_peers 2, warm 1, hot 1, \
        max_error_count 0) and over 2 peers with (3,2,1,1); (2) random sequences of length 200 over 20 peers with limits \
        (12,6,3,1) and over 6 peers with (4,2,1,0). After every op: the four sets pairwise disjoint, within limits, and no \
        Connect for a peer banned before that op. Non-trivial = a peer was banned or became hot on the path; distinct = distinct \
        abstract state fingerprint (exhaustive part) / distinct sequence (random part)");
    s.assume("HashMap iteration order inside the behaviour (peer visiting order) is not controlled; invariants must hold for every order");
    let mode = Mode { check_wire: false, check_sets: true };
    let cfg_a = Cfg { peers: 3, max_peers: 2, max_warm: 1, max_hot: 1, max_error_count: 0, version: 13, accept_peer_sharing: 1 };
    let (st, tr) = bfs(s, "exhaustive-3peers", &cfg_a, &[], &alphabet(3), s.pick(7, 9), &mode, &interesting);
    s.note("exhaustive_3peers_states", serde_json::json!(st));
    s.note("exhaustive_3peers_transitions", serde_json::json!(tr));
    let cfg_b = Cfg { peers: 2, max_peers: 3, max_warm: 2, max_hot: 1, max_error_count: 1, version: 13, accept_peer_sharing: 1 };
    let (st, tr) = bfs(s, "exhaustive-2peers", &cfg_b, &[], &alphabet(2), s.pick(9, 11), &mode, &interesting);
    s.note("exhaustive_2peers_states", serde_json::json!(st));
    s.note("exhaustive_2peers_transitions", serde_json::json!(tr));
    for (name, cfg) in [
        ("random-20peers", Cfg { peers: 20, max_peers: 12, max_warm: 6, max_hot: 3, max_error_count: 1, version: 13, accept_peer_sharing: 1 }),
        ("random-6peers", Cfg { peers: 6, max_peers: 4, max_warm: 2, max_hot: 1, max_error_count: 0, version: 13, accept_peer_sharing: 1 }),
    ] {
        let c2 = cfg.clone();
        s.forall(
            name,
            s.pick(8_000, 200_000),
            move || {
                let c = c2.clone();
                prop::collection::vec(op_strategy(c.peers), 1..200).prop_map(move |ops| SeqCase { cfg: c.clone(), ops, idx: 0 })
            },
            |c, obs| {
                let w = execute(c, &mode, s, obs)?;
                obs.class(if w.banned_history.is_empty() { "no-ban" } else { "ban" });
                obs.class(if w.b.promotion.hot_peers.is_empty() { "no-hot" } else { "hot" });
                obs.nontrivial_if(interesting(&w));
                Ok(())
            },
        );
    }
    crate::flush_known(s);
}
