//! C28 — the P2P initiator never violates a protocol it speaks (DESIGN §C28).
use crate::explore::{bfs, execute, Mode, SeqCase};
use crate::sim::{Cfg, Op, World};
use proptest::prelude::*;
use pvkit::Session;

fn alphabet() -> Vec<Op> {
    let mut a = vec![
        Op::Housekeeping, Op::StartSync, Op::ContinueSync(0), Op::RequestBlocks, Op::FetchEb(0), Op::FetchEbTxs(0), Op::DeliverSent(0),
        Op::Error(0), Op::Disconnected(0), Op::Connected(0), Op::Include(0), Op::Demote(0),
    ];
    for sel in 0..3u8 {
        for choice in 0..4u8 {
            a.push(Op::Reply(0, sel, choice));
        }
    }
    a
}

fn op_strategy(peers: u8) -> impl Strategy<Value = Op> {
    let p = 0..peers;
    prop_oneof![
        6 => Just(Op::Housekeeping),
        1 => Just(Op::IdleEvent),
        2 => p.clone().prop_map(Op::Include),
        1 => Just(Op::StartSync),
        3 => p.clone().prop_map(Op::ContinueSync),
        2 => Just(Op::RequestBlocks),
        1 => p.clone().prop_map(Op::FetchEb),
        1 => p.clone().prop_map(Op::FetchEbTxs),
        3 => p.clone().prop_map(Op::Connected),
        1 => p.clone().prop_map(Op::ConnectFailed),
        1 => p.clone().prop_map(Op::Disconnected),
        1 => p.clone().prop_map(Op::Error),
        8 => p.clone().prop_map(Op::DeliverSent),
        8 => (p.clone(), any::<u8>(), any::<u8>()).prop_map(|(a, b, c)| Op::Reply(a, b, c)),
        1 => p.clone().prop_map(Op::Demote),
    ]
}

/// the canonical prefix that brings peer 0 to "connected, handshake accepted"
fn prefix() -> Vec<Op> {
    vec![Op::Include(0), Op::Housekeeping, Op::Connected(0), Op::DeliverSent(0), Op::Reply(0, 0, 0)]
}

fn interesting(w: &World) -> bool {
    // the initiator put at least two messages on the wire and the responder answered at least once
    w.sends >= 2 && w.replies >= 1
}

pub fn run(s: &Session) {
    s.set_rule("schedules over InitiatorBehavior with the harness as interface: commands (Housekeeping repeated, StartSync, \
        ContinueSync, RequestBlocks, FetchEb*, Include, Demote) interleaved with interface events; Sent confirmations are \
        delivered FIFO per peer at arbitrary later steps; a specification-conformant simulated responder answers (any reply \
        the specification allows) only on protocols where it holds agency and after the initiator's message was confirmed. \
        Every emitted Send is judged against the per-(peer, protocol) specification state at emission time. (1) exhaustive, \
        fingerprint-de-duplicated BFS of all schedules up to the depth bound after the canonical handshake prefix, 1 peer, \
        protocol versions 13, 14 and 15 (Leios); (2) random schedules of up to 300 steps over 3 peers. Non-trivial = >= 2 \
        initiator messages on the wire and >= 1 responder reply; distinct = distinct state fingerprint / distinct schedule");
    s.assume("wire order of messages to one peer equals emission order (the TCP interface serialises writes per peer)");
    let mode = Mode { check_wire: true, check_sets: false };
    // 14 is the last version without the Leios mini-protocols: nothing of leios-notify / leios-fetch may be emitted there
    for (name, version) in [("exhaustive-v13", 13u64), ("exhaustive-v14", 14), ("exhaustive-v15-leios", 15)] {
        let cfg = Cfg { peers: 1, max_peers: 2, max_warm: 1, max_hot: 1, max_error_count: 1, version, accept_peer_sharing: 1 };
        let (st, tr) = bfs(s, name, &cfg, &prefix(), &alphabet(), s.pick(7, 9), &mode, &interesting);
        s.note(&format!("{name}_states"), serde_json::json!(st));
        s.note(&format!("{name}_transitions"), serde_json::json!(tr));
    }
    // from before the handshake answer: the responder may also refuse or answer with a query reply, after which the
    // connection carries no other protocol
    {
        let cfg = Cfg { peers: 1, max_peers: 2, max_warm: 1, max_hot: 1, max_error_count: 1, version: 13, accept_peer_sharing: 1 };
        let pre: Vec<Op> = vec![Op::Include(0), Op::Housekeeping, Op::Connected(0), Op::DeliverSent(0)];
        let (st, tr) = bfs(s, "exhaustive-v13-from-unanswered-proposal", &cfg, &pre, &alphabet(), s.pick(6, 8), &mode, &|w: &World| w.sends >= 1 && w.replies >= 1);
        s.note("exhaustive-v13-from-unanswered-proposal_states", serde_json::json!(st));
        s.note("exhaustive-v13-from-unanswered-proposal_transitions", serde_json::json!(tr));
    }
    // the responder negotiates peer sharing off (Some(0)) or leaves the field out: the initiator must not speak that protocol
    for (name, ps) in [("exhaustive-v13-peer-sharing-off", 0u8), ("exhaustive-v13-no-peer-sharing-field", 2)] {
        let cfg = Cfg { peers: 1, max_peers: 2, max_warm: 1, max_hot: 1, max_error_count: 1, version: 13, accept_peer_sharing: ps };
        let (st, tr) = bfs(s, name, &cfg, &prefix(), &alphabet(), s.pick(6, 8), &mode, &interesting);
        s.note(&format!("{name}_states"), serde_json::json!(st));
        s.note(&format!("{name}_transitions"), serde_json::json!(tr));
    }
    for (name, version) in [("random-v13", 13u64), ("random-v14", 14), ("random-v15-leios", 15)] {
        let cfg = Cfg { peers: 3, max_peers: 3, max_warm: 3, max_hot: 2, max_error_count: 2, version, accept_peer_sharing: 1 };
        s.forall(
            name,
            s.pick(10_000, 300_000),
            move || {
                let c = cfg.clone();
                prop::collection::vec(op_strategy(3), 1..300).prop_map(move |ops| SeqCase { cfg: c.clone(), ops, idx: 0 })
            },
            |c, obs| {
                let w = execute(c, &mode, s, obs)?;
                for e in w.events.iter().filter(|e| e.starts_with("send:")) {
                    obs.class(e.clone());
                }
                obs.nontrivial_if(interesting(&w));
                Ok(())
            },
        );
    }
    crate::flush_known(s);
}
