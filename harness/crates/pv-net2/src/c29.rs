//! C29 — P2P behaviours never panic on peer-driven input (DESIGN §C29).
use crate::common::{any_msg, drain, pid, pt, MsgR, PtR};
use pallas_network2::behavior::responder::{ResponderBehavior, ResponderCommand};
use pallas_network2::behavior::{InitiatorBehavior, InitiatorCommand};
use pallas_network2::protocol as proto;
use pallas_network2::{Behavior, BehaviorOutput, InterfaceCommand, InterfaceError, InterfaceEvent, PeerId};
use std::collections::VecDeque;
use proptest::prelude::*;
use pvkit::{Fail, Obs, Session};
use serde::{Deserialize, Serialize};

#[derive(Debug, Clone, Serialize, Deserialize)]
pub enum Ev {
    Connected(u8),
    Disconnected(u8),
    Error(u8),
    Idle,
    Sent(u8, MsgR),
    Recv(u8, Vec<MsgR>),
    /// deliver the Sent confirmation of the oldest message the behaviour emitted and that is still unconfirmed
    ConfirmSend,
    /// answer the oldest Connect command the behaviour emitted with a Connected event
    ConfirmConnect,
    // initiator commands
    Include(u8),
    Housekeeping,
    StartSync(Vec<PtR>),
    ContinueSync(u8),
    RequestBlocks(PtR, PtR),
    SendTx(u8),
    FetchEb(u8, PtR),
    FetchEbTxs(u8, PtR, u8),
    Ban(u8),
    Demote(u8),
    // responder commands
    ProvideIntersection(u8, PtR),
    ProvideHeader(u8, u8),
    ProvideRollback(u8, PtR),
    ProvideBlocks(u8, u8),
    ProvidePeers(u8, u8),
    ProvideEb(u8, u8),
    DisconnectPeer(u8),
}

#[derive(Debug, Clone, Serialize, Deserialize)]
pub struct Case {
    responder: bool,
    /// initiator only: tight promotion limits (max_peers 2, warm 1, hot 1, max_error_count 0)
    #[serde(default)]
    small_limits: bool,
    evs: Vec<Ev>,
}

fn ev(peers: u8) -> impl Strategy<Value = Ev> {
    // peer index peers..peers+1 = a peer the behaviour was never told about
    let p = 0..=peers;
    prop_oneof![
        4 => p.clone().prop_map(Ev::Connected),
        2 => p.clone().prop_map(Ev::Disconnected),
        2 => p.clone().prop_map(Ev::Error),
        1 => Just(Ev::Idle),
        6 => (p.clone(), any_msg()).prop_map(|(a, m)| Ev::Sent(a, m)),
        10 => (p.clone(), prop::collection::vec(any_msg(), 0..4)).prop_map(|(a, m)| Ev::Recv(a, m)),
        4 => p.clone().prop_map(Ev::Include),
        6 => Just(Ev::Housekeeping),
        1 => prop::collection::vec(pt(), 0..3).prop_map(Ev::StartSync),
        1 => p.clone().prop_map(Ev::ContinueSync),
        1 => (pt(), pt()).prop_map(|(a, b)| Ev::RequestBlocks(a, b)),
        1 => p.clone().prop_map(Ev::SendTx),
        1 => (p.clone(), pt()).prop_map(|(a, b)| Ev::FetchEb(a, b)),
        1 => (p.clone(), pt(), any::<u8>()).prop_map(|(a, b, c)| Ev::FetchEbTxs(a, b, c)),
        1 => p.clone().prop_map(Ev::Ban),
        1 => p.clone().prop_map(Ev::Demote),
        1 => (p.clone(), pt()).prop_map(|(a, b)| Ev::ProvideIntersection(a, b)),
        1 => (p.clone(), any::<u8>()).prop_map(|(a, b)| Ev::ProvideHeader(a, b)),
        1 => (p.clone(), pt()).prop_map(|(a, b)| Ev::ProvideRollback(a, b)),
        1 => (p.clone(), 0u8..4).prop_map(|(a, b)| Ev::ProvideBlocks(a, b)),
        1 => (p.clone(), 0u8..4).prop_map(|(a, b)| Ev::ProvidePeers(a, b)),
        1 => (p.clone(), any::<u8>()).prop_map(|(a, b)| Ev::ProvideEb(a, b)),
        1 => p.clone().prop_map(Ev::DisconnectPeer),
    ]
}

/// Events for the "echo" families: the harness mostly plays a real interface (answers Connect commands, confirms
/// the behaviour's own sends in order) so that handshakes complete and the mini-protocols advance, and mixes in
/// replies of any kind plus the commands and faults of `ev`. This reaches the states behind a completed handshake
/// that fully arbitrary sequences almost never reach.
fn ev_echo(peers: u8) -> impl Strategy<Value = Ev> {
    let p = 0..peers;
    prop_oneof![
        10 => Just(Ev::ConfirmSend),
        5 => Just(Ev::ConfirmConnect),
        6 => Just(Ev::Housekeeping),
        2 => p.clone().prop_map(Ev::Include),
        3 => (p.clone(), prop_oneof![Just(13u64), Just(15u64)]).prop_map(|(a, v)| Ev::Recv(a, vec![MsgR::HsAccept(v, 764824073)])),
        8 => (p.clone(), prop::collection::vec(any_msg(), 1..3)).prop_map(|(a, m)| Ev::Recv(a, m)),
        6 => ev(peers),
    ]
}

/// Messages an initiator sends while it holds agency (what a responder receives from a well-behaved or hasty peer).
fn initiator_side_msg() -> impl Strategy<Value = MsgR> {
    use MsgR::*;
    prop_oneof![
        Just(CsRequestNext), prop::collection::vec(pt(), 0..3).prop_map(CsFindIntersect), Just(CsDone),
        (pt(), pt()).prop_map(|(a, b)| BfRequestRange(a, b)), Just(BfClientDone),
        any::<u16>().prop_map(KaKeepAlive), Just(KaDone),
        any::<u8>().prop_map(PsShareRequest), Just(PsDone),
        Just(TxInit), (0u8..4).prop_map(TxReplyTxIds), (0u8..4).prop_map(TxReplyTxs), Just(TxDone),
        Just(LnRequestNext), Just(LnDone),
        pt().prop_map(LfBlockRequest), (pt(), any::<u8>()).prop_map(|(a, b)| LfBlockTxsRequest(a, b)), Just(LfDone),
    ]
}

/// Events for the "responder after a proposal" family: few confirmations, mostly requests of the peer — also while the
/// responder's own Accept is still unconfirmed (a peer may pipeline its first requests behind its proposal).
fn ev_after_proposal(peers: u8) -> impl Strategy<Value = Ev> {
    let p = 0..peers;
    prop_oneof![
        3 => Just(Ev::ConfirmSend),
        12 => (p.clone(), prop::collection::vec(initiator_side_msg(), 1..3)).prop_map(|(a, m)| Ev::Recv(a, m)),
        2 => Just(Ev::Housekeeping),
        3 => ev(peers),
    ]
}

fn io<M: pallas_network2::Message>(e: &Ev, build: impl Fn(&MsgR) -> M) -> Option<InterfaceEvent<M>> {
    Some(match e {
        Ev::Connected(p) => InterfaceEvent::Connected(pid(*p + 1)),
        Ev::Disconnected(p) => InterfaceEvent::Disconnected(pid(*p + 1)),
        Ev::Error(p) => InterfaceEvent::Error(pid(*p + 1), InterfaceError::Other("io".into())),
        Ev::Idle => InterfaceEvent::Idle,
        Ev::Sent(p, m) => InterfaceEvent::Sent(pid(*p + 1), build(m)),
        Ev::Recv(p, ms) => InterfaceEvent::Recv(pid(*p + 1), ms.iter().map(&build).collect()),
        _ => return None,
    })
}

/// What the behaviour asked the interface to do and the harness has not yet answered.
struct Pending<M: pallas_network2::Message> {
    sends: VecDeque<(PeerId, M)>,
    connects: VecDeque<PeerId>,
}

impl<M: pallas_network2::Message> Pending<M> {
    fn new() -> Self {
        Pending { sends: VecDeque::new(), connects: VecDeque::new() }
    }
    fn take<B: Behavior<Message = M>>(&mut self, outs: Vec<BehaviorOutput<B>>) -> usize {
        let n = outs.len();
        for o in outs {
            if let BehaviorOutput::InterfaceCommand(c) = o {
                match c {
                    InterfaceCommand::Send(p, m) => {
                        if self.sends.len() < 4096 {
                            self.sends.push_back((p, m))
                        }
                    }
                    InterfaceCommand::Connect(p) => {
                        if self.connects.len() < 4096 {
                            self.connects.push_back(p)
                        }
                    }
                    _ => {}
                }
            }
        }
        n
    }
    fn echo(&mut self, e: &Ev) -> Option<InterfaceEvent<M>> {
        match e {
            Ev::ConfirmSend => self.sends.pop_front().map(|(p, m)| InterfaceEvent::Sent(p, m)),
            Ev::ConfirmConnect => self.connects.pop_front().map(InterfaceEvent::Connected),
            _ => None,
        }
    }
}

fn tip() -> proto::chainsync::Tip {
    proto::chainsync::Tip(PtR::At(4, 1).build(), 9)
}

fn run_initiator(evs: &[Ev], small: bool, obs: &mut Obs) {
    let mut b = if small {
        InitiatorBehavior {
            promotion: pallas_network2::behavior::PromotionBehavior::new(pallas_network2::behavior::PromotionConfig {
                max_peers: 2,
                max_warm_peers: 1,
                max_hot_peers: 1,
                max_error_count: 0,
            }),
            ..Default::default()
        }
    } else {
        InitiatorBehavior::default()
    };
    let mut outputs = 0usize;
    let mut pend = Pending::new();
    for e in evs {
        if matches!(e, Ev::ConfirmSend | Ev::ConfirmConnect) {
            if let Some(x) = pend.echo(e) {
                obs.class(if matches!(e, Ev::ConfirmSend) { "echo:send-confirmed" } else { "echo:connect-answered" });
                b.handle_io(x);
            }
        } else if let Some(x) = io(e, |m| m.build()) {
            b.handle_io(x);
        } else {
            let cmd = match e {
                Ev::Include(p) => Some(InitiatorCommand::IncludePeer(pid(*p + 1))),
                Ev::Housekeeping => Some(InitiatorCommand::Housekeeping),
                Ev::StartSync(v) => Some(InitiatorCommand::StartSync(v.iter().map(|p| p.build()).collect())),
                Ev::ContinueSync(p) => Some(InitiatorCommand::ContinueSync(pid(*p + 1))),
                Ev::RequestBlocks(a, c) => Some(InitiatorCommand::RequestBlocks((a.build(), c.build()))),
                Ev::SendTx(p) => Some(InitiatorCommand::SendTx(pid(*p + 1), proto::txsubmission::EraTxId(6, vec![1; 32]), proto::txsubmission::EraTxBody(6, vec![0x80]))),
                Ev::FetchEb(p, x) => Some(InitiatorCommand::FetchEb(pid(*p + 1), x.build())),
                Ev::FetchEbTxs(p, x, n) => Some(InitiatorCommand::FetchEbTxs(pid(*p + 1), x.build(), proto::leiosfetch::Bitmaps::all(*n as usize % 70))),
                Ev::Ban(p) => Some(InitiatorCommand::BanPeer(pid(*p + 1))),
                Ev::Demote(p) => Some(InitiatorCommand::DemotePeer(pid(*p + 1))),
                _ => None, // responder-only command
            };
            if let Some(c) = cmd {
                b.execute(c);
            }
        }
        outputs += pend.take(drain(&mut b));
    }
    // the behaviour must still be able to run a housekeeping pass and produce outputs
    b.execute(InitiatorCommand::Housekeeping);
    outputs += drain(&mut b).len();
    obs.class(if outputs > 0 { "produced-outputs" } else { "no-outputs" });
}

fn run_responder(evs: &[Ev], obs: &mut Obs) {
    let mut b = ResponderBehavior::default();
    let mut outputs = 0usize;
    let mut pend = Pending::new();
    for e in evs {
        if matches!(e, Ev::ConfirmSend | Ev::ConfirmConnect) {
            if let Some(x) = pend.echo(e) {
                obs.class(if matches!(e, Ev::ConfirmSend) { "echo:send-confirmed" } else { "echo:connect-answered" });
                b.handle_io(x);
            }
        } else if let Some(x) = io(e, |m| m.build()) {
            b.handle_io(x);
        } else {
            let cmd = match e {
                Ev::Housekeeping => Some(ResponderCommand::Housekeeping),
                Ev::ProvideIntersection(p, x) => Some(ResponderCommand::ProvideIntersection(pid(*p + 1), x.build(), tip())),
                Ev::ProvideHeader(p, h) => Some(ResponderCommand::ProvideHeader(
                    pid(*p + 1),
                    proto::chainsync::HeaderContent { variant: 6, byron_prefix: None, cbor: vec![0x80 | (*h & 0x0f)] },
                    tip(),
                )),
                Ev::ProvideRollback(p, x) => Some(ResponderCommand::ProvideRollback(pid(*p + 1), x.build(), tip())),
                Ev::ProvideBlocks(p, n) => Some(ResponderCommand::ProvideBlocks(pid(*p + 1), (0..*n).map(|i| vec![i]).collect())),
                Ev::ProvidePeers(p, n) => Some(ResponderCommand::ProvidePeers(
                    pid(*p + 1),
                    (0..*n).map(|i| proto::peersharing::PeerAddress::V4(std::net::Ipv4Addr::new(10, 0, 0, i + 1), 3001)).collect(),
                )),
                Ev::ProvideEb(p, n) => Some(ResponderCommand::ProvideEb(pid(*p + 1), proto::AnyCbor::from_encode(*n as u64))),
                Ev::Ban(p) => Some(ResponderCommand::BanPeer(pid(*p + 1))),
                Ev::DisconnectPeer(p) => Some(ResponderCommand::DisconnectPeer(pid(*p + 1))),
                _ => None,
            };
            if let Some(c) = cmd {
                b.execute(c);
            }
        }
        outputs += pend.take(drain(&mut b));
    }
    b.execute(ResponderCommand::Housekeeping);
    outputs += drain(&mut b).len();
    obs.class(if outputs > 0 { "produced-outputs" } else { "no-outputs" });
}

fn check(c: &Case, obs: &mut Obs) -> Result<(), Fail> {
    // panics are caught by the runner and reported with their root-cause signature
    if c.responder {
        obs.class("responder");
        run_responder(&c.evs, obs);
    } else {
        obs.class("initiator");
        run_initiator(&c.evs, c.small_limits, obs);
    }
    let recvs = c.evs.iter().filter(|e| matches!(e, Ev::Recv(_, m) if !m.is_empty())).count();
    let conns = c.evs.iter().filter(|e| matches!(e, Ev::Connected(_))).count();
    obs.nontrivial_if(recvs >= 1 && conns >= 1);
    Ok(())
}

pub fn run(s: &Session) {
    s.set_rule("sequences of up to 300 arbitrary interface events over 4 peers plus one peer the behaviour was never told about \
        (Connected twice, Sent of never-emitted messages, Recv of any message of any protocol in any state, Error, Disconnected, \
        Idle) interleaved with every external command, for InitiatorBehavior and ResponderBehavior (default configuration); \
        after the sequence a housekeeping pass and a full drain of the output stream must still work. Oracle: no panic. \
        Non-trivial = the sequence has a Connected and a non-empty Recv; distinct = distinct sequence");
    // directed: the design-round expectations
    let directed = vec![
        Case { responder: false, small_limits: false, evs: vec![Ev::Include(0), Ev::Housekeeping, Ev::Connected(0), Ev::Connected(0)] },
        Case { responder: false, small_limits: false, evs: vec![Ev::Include(0), Ev::Connected(0), Ev::Sent(0, MsgR::HsPropose(vec![(13, 764824073)])), Ev::Connected(0)] },
        Case { responder: true, small_limits: false, evs: vec![Ev::Connected(0), Ev::Connected(0), Ev::Recv(0, vec![MsgR::HsPropose(vec![])])] },
    ];
    let mut directed = directed;
    // a peer that over-answers a peer-sharing request (more addresses than the discovery high-water mark)
    for n in [99u16, 100, 101, 150, 256, 600] {
        directed.push(Case {
            responder: false,
            small_limits: false,
            evs: vec![
                Ev::Include(0), Ev::Housekeeping, Ev::Connected(0), Ev::Sent(0, MsgR::HsPropose(vec![(13, 764824073)])),
                Ev::Recv(0, vec![MsgR::HsAccept(13, 764824073)]), Ev::Housekeeping, Ev::Sent(0, MsgR::PsShareRequest(100)),
                Ev::Recv(0, vec![MsgR::PsSharePeersMany(n)]), Ev::Housekeeping, Ev::Idle, Ev::Housekeeping,
            ],
        });
    }
    // a responder receiving proposals whose version data has the short pre-v11 shape (or other odd shapes) under a
    // version it supports
    for shape in 0u8..4 {
        for ver in [13u64, 14, 15, 11, 7] {
            directed.push(Case {
                responder: true,
                small_limits: false,
                evs: vec![Ev::Connected(0), Ev::Recv(0, vec![MsgR::HsProposeShaped(vec![(ver, 764824073, shape)])]), Ev::ConfirmSend, Ev::Housekeeping, Ev::ConfirmSend],
            });
            directed.push(Case {
                responder: false,
                small_limits: false,
                evs: vec![Ev::Include(0), Ev::Housekeeping, Ev::ConfirmConnect, Ev::ConfirmSend, Ev::Recv(0, vec![MsgR::HsAcceptShaped(ver, 764824073, shape)]), Ev::Housekeeping, Ev::ConfirmSend, Ev::ConfirmSend, Ev::Housekeeping],
            });
        }
    }
    // two peers: the first over-answers (or answers with just under the high-water mark), the second one finishes its
    // handshake afterwards and is asked for the remainder
    let hs = |p: u8| vec![Ev::Connected(p), Ev::Sent(p, MsgR::HsPropose(vec![(13, 764824073)])), Ev::Recv(p, vec![MsgR::HsAccept(13, 764824073)])];
    for n in [1u16, 30, 63, 64, 65, 80, 99, 100, 101, 150, 255, 256] {
        let mut evs = vec![Ev::Include(0), Ev::Include(1), Ev::Housekeeping];
        evs.extend(hs(0));
        evs.extend([Ev::Housekeeping, Ev::ConfirmSend, Ev::ConfirmSend, Ev::ConfirmSend, Ev::ConfirmSend, Ev::Sent(0, MsgR::PsShareRequest(100)), Ev::Recv(0, vec![MsgR::PsSharePeersMany(n)]), Ev::Housekeeping]);
        evs.extend(hs(1));
        evs.extend([Ev::Housekeeping, Ev::Idle, Ev::Housekeeping, Ev::ConfirmSend, Ev::ConfirmSend, Ev::ConfirmSend, Ev::ConfirmSend, Ev::ConfirmSend, Ev::ConfirmSend, Ev::Recv(1, vec![MsgR::PsSharePeersMany(n)]), Ev::Housekeeping, Ev::Housekeeping]);
        for small in [false, true] {
            directed.push(Case { responder: false, small_limits: small, evs: evs.clone() });
        }
    }
    s.foreach("directed", directed, false, check);
    for (name, responder, maxlen, small) in [
        ("initiator-echo", false, 120usize, false), ("initiator-echo-small-limits", false, 120, true), ("responder-echo", true, 80, false),
    ] {
        let n = s.pick(20_000, 600_000);
        s.forall(
            name,
            n,
            move || prop::collection::vec(ev_echo(3), 4..=maxlen).prop_map(move |evs| Case { responder, small_limits: small, evs }),
            check,
        );
    }
    // responders that have just received an acceptable proposal (versions 13 / 15, right magic) from one or two peers
    s.forall(
        "responder-after-proposal",
        s.pick(30_000, 800_000),
        || {
            (prop::sample::select(vec![13u64, 14, 15]), any::<bool>(), any::<bool>(), prop::collection::vec(ev_after_proposal(2), 1..=24)).prop_map(|(v, both, confirm_first, rest)| {
                let mut evs = vec![Ev::Connected(0), Ev::Recv(0, vec![MsgR::HsPropose(vec![(v, 764824073)])])];
                if both {
                    evs.extend([Ev::Connected(1), Ev::Recv(1, vec![MsgR::HsPropose(vec![(13, 764824073), (v, 764824073)])])]);
                }
                if confirm_first {
                    evs.push(Ev::ConfirmSend);
                }
                evs.extend(rest);
                Case { responder: true, small_limits: false, evs }
            })
        },
        check,
    );
    for (name, responder, maxlen, small) in [
        ("initiator-short", false, 12usize, false), ("initiator-long", false, 300, false), ("initiator-small-limits", false, 60, true),
        ("responder-short", true, 12, false), ("responder-long", true, 300, false),
    ] {
        let n = if maxlen <= 12 { s.pick(60_000, 2_000_000) } else { s.pick(4_000, 150_000) };
        s.forall(
            name,
            n,
            move || prop::collection::vec(ev(4), 1..=maxlen).prop_map(move |evs| Case { responder, small_limits: small, evs }),
            check,
        );
    }
}
