//! Shared pieces for the P2P-stack checks: message recipes, output draining.
use futures::Stream;
use pallas_network2::behavior::AnyMessage;
use pallas_network2::protocol as proto;
use pallas_network2::protocol::handshake::n2n::VersionData;
use pallas_network2::{Behavior, BehaviorOutput, PeerId};
use proptest::prelude::*;
use serde::{Deserialize, Serialize};
use std::collections::HashMap;
use std::pin::Pin;
use std::task::{Context, Poll, Waker};

pub fn pid(i: u8) -> PeerId {
    PeerId { host: format!("10.0.0.{}", i), port: 3000 + i as u16 }
}

/// Synchronously drain everything the behaviour has ready, in stream order.
pub fn drain<B: Behavior + Stream<Item = BehaviorOutput<B>> + Unpin>(b: &mut B) -> Vec<BehaviorOutput<B>> {
    let mut out = vec![];
    let mut cx = Context::from_waker(Waker::noop());
    let mut guard = 0;
    while let Poll::Ready(Some(o)) = Pin::new(&mut *b).poll_next(&mut cx) {
        out.push(o);
        guard += 1;
        if guard > 100_000 {
            panic!("behaviour produced more than 100000 outputs in one drain");
        }
    }
    out
}

#[derive(Debug, Clone, PartialEq, Eq, Hash, Serialize, Deserialize)]
pub enum PtR {
    Origin,
    At(u8, u8),
}

impl PtR {
    pub fn build(&self) -> proto::Point {
        match self {
            PtR::Origin => proto::Point::Origin,
            PtR::At(s, h) => proto::Point::Specific(*s as u64, vec![*h; 32]),
        }
    }
}

pub fn pt() -> impl Strategy<Value = PtR> {
    prop_oneof![1 => Just(PtR::Origin), 4 => (0u8..6, 0u8..4).prop_map(|(s, h)| PtR::At(s, h))]
}

/// Plain-data recipe for any message of any N2N protocol of the P2P stack.
#[derive(Debug, Clone, PartialEq, Eq, Hash, Serialize, Deserialize)]
pub enum MsgR {
    HsPropose(Vec<(u64, u64)>),
    /// Propose / QueryReply / Accept whose version data has another shape: (version, magic, shape) with shape 0 = the
    /// usual 4-field form, 1 = the short pre-v11 form (no peer-sharing, no query field), 2 = initiator-only with peer
    /// sharing off and query set, 3 = peer sharing 255
    HsProposeShaped(Vec<(u64, u64, u8)>),
    HsQueryReplyShaped(Vec<(u64, u64, u8)>),
    HsAcceptShaped(u64, u64, u8),
    HsAccept(u64, u64),
    /// Accept whose version data says peer sharing is off (0) or carries no peer-sharing field (2)
    HsAcceptPs(u64, u64, u8),
    HsRefuse(u8),
    HsQueryReply(Vec<(u64, u64)>),
    KaKeepAlive(u16),
    KaResponse(u16),
    KaDone,
    CsRequestNext,
    CsAwaitReply,
    CsRollForward(u8, PtR),
    CsRollBackward(PtR, PtR),
    CsFindIntersect(Vec<PtR>),
    CsIntersectFound(PtR, PtR),
    CsIntersectNotFound(PtR),
    CsDone,
    BfRequestRange(PtR, PtR),
    BfClientDone,
    BfStartBatch,
    BfNoBlocks,
    BfBlock(Vec<u8>),
    BfBatchDone,
    PsShareRequest(u8),
    PsSharePeers(Vec<(u8, u16, bool)>),
    /// a peer that answers with (many) more distinct addresses than anybody asked for
    PsSharePeersMany(u16),
    PsDone,
    TxInit,
    TxRequestTxIds(bool, u16, u16),
    TxReplyTxIds(u8),
    TxRequestTxs(u8),
    TxReplyTxs(u8),
    TxDone,
    LnRequestNext,
    LnBlockAnnouncement(u8),
    LnBlockOffer(PtR, u32),
    LnBlockTxsOffer(PtR),
    LnVotes(u8),
    LnDone,
    LfBlockRequest(PtR),
    LfBlock(u8),
    LfBlockTxsRequest(PtR, u8),
    LfBlockTxs(PtR, u8),
    LfDone,
}

pub fn vdata(magic: u64) -> VersionData {
    VersionData::new(magic, false, Some(1), Some(false))
}

pub fn vdata_shaped(magic: u64, shape: u8) -> VersionData {
    match shape % 4 {
        0 => VersionData::new(magic, false, Some(1), Some(false)),
        1 => VersionData::new(magic, false, None, None),
        2 => VersionData::new(magic, true, Some(0), Some(true)),
        _ => VersionData::new(magic, false, Some(255), Some(false)),
    }
}

fn vtable_shaped(v: &[(u64, u64, u8)]) -> proto::handshake::VersionTable<VersionData> {
    let values: HashMap<u64, VersionData> = v.iter().map(|(n, m, sh)| (*n, vdata_shaped(*m, *sh))).collect();
    proto::handshake::VersionTable { values }
}

fn vtable(v: &[(u64, u64)]) -> proto::handshake::VersionTable<VersionData> {
    let values: HashMap<u64, VersionData> = v.iter().map(|(n, m)| (*n, vdata(*m))).collect();
    proto::handshake::VersionTable { values }
}

fn anycbor(n: u8) -> proto::AnyCbor {
    proto::AnyCbor::from_encode(n as u64)
}

impl MsgR {
    pub fn proto(&self) -> &'static str {
        use MsgR::*;
        match self {
            HsPropose(_) | HsProposeShaped(_) | HsQueryReplyShaped(_) | HsAcceptShaped(..) | HsAccept(..) | HsAcceptPs(..) | HsRefuse(_) | HsQueryReply(_) => "handshake",
            KaKeepAlive(_) | KaResponse(_) | KaDone => "keepalive",
            CsRequestNext | CsAwaitReply | CsRollForward(..) | CsRollBackward(..) | CsFindIntersect(_)
            | CsIntersectFound(..) | CsIntersectNotFound(_) | CsDone => "chainsync",
            BfRequestRange(..) | BfClientDone | BfStartBatch | BfNoBlocks | BfBlock(_) | BfBatchDone => "blockfetch",
            PsShareRequest(_) | PsSharePeers(_) | PsSharePeersMany(_) | PsDone => "peersharing",
            TxInit | TxRequestTxIds(..) | TxReplyTxIds(_) | TxRequestTxs(_) | TxReplyTxs(_) | TxDone => "txsubmission",
            LnRequestNext | LnBlockAnnouncement(_) | LnBlockOffer(..) | LnBlockTxsOffer(_) | LnVotes(_) | LnDone => "leiosnotify",
            LfBlockRequest(_) | LfBlock(_) | LfBlockTxsRequest(..) | LfBlockTxs(..) | LfDone => "leiosfetch",
        }
    }

    pub fn build(&self) -> AnyMessage {
        use proto::{blockfetch as bf, chainsync as cs, handshake as hs, keepalive as ka, leiosfetch as lf, leiosnotify as ln, peersharing as ps, txsubmission as tx};
        use MsgR::*;
        let tip = |p: &PtR| cs::Tip(p.build(), 7);
        match self {
            HsPropose(v) => AnyMessage::Handshake(hs::Message::Propose(vtable(v))),
            HsProposeShaped(v) => AnyMessage::Handshake(hs::Message::Propose(vtable_shaped(v))),
            HsQueryReplyShaped(v) => AnyMessage::Handshake(hs::Message::QueryReply(vtable_shaped(v))),
            HsAcceptShaped(n, m, sh) => AnyMessage::Handshake(hs::Message::Accept(*n, vdata_shaped(*m, *sh))),
            HsAccept(n, m) => AnyMessage::Handshake(hs::Message::Accept(*n, vdata(*m))),
            HsAcceptPs(n, m, ps) => AnyMessage::Handshake(hs::Message::Accept(*n, VersionData::new(*m, false, if *ps == 0 { Some(0) } else { None }, if *ps == 0 { Some(false) } else { None }))),
            HsRefuse(k) => AnyMessage::Handshake(hs::Message::Refuse(match k % 3 {
                0 => hs::RefuseReason::VersionMismatch(vec![13, 14]),
                1 => hs::RefuseReason::HandshakeDecodeError(13, "x".into()),
                _ => hs::RefuseReason::Refused(13, "no".into()),
            })),
            HsQueryReply(v) => AnyMessage::Handshake(hs::Message::QueryReply(vtable(v))),
            KaKeepAlive(c) => AnyMessage::KeepAlive(ka::Message::KeepAlive(*c)),
            KaResponse(c) => AnyMessage::KeepAlive(ka::Message::ResponseKeepAlive(*c)),
            KaDone => AnyMessage::KeepAlive(ka::Message::Done),
            CsRequestNext => AnyMessage::ChainSync(cs::Message::RequestNext),
            CsAwaitReply => AnyMessage::ChainSync(cs::Message::AwaitReply),
            CsRollForward(h, t) => AnyMessage::ChainSync(cs::Message::RollForward(
                cs::HeaderContent { variant: 6, byron_prefix: None, cbor: vec![0x80 | (*h & 0x0f)] },
                tip(t),
            )),
            CsRollBackward(p, t) => AnyMessage::ChainSync(cs::Message::RollBackward(p.build(), tip(t))),
            CsFindIntersect(v) => AnyMessage::ChainSync(cs::Message::FindIntersect(v.iter().map(|p| p.build()).collect())),
            CsIntersectFound(p, t) => AnyMessage::ChainSync(cs::Message::IntersectFound(p.build(), tip(t))),
            CsIntersectNotFound(t) => AnyMessage::ChainSync(cs::Message::IntersectNotFound(tip(t))),
            CsDone => AnyMessage::ChainSync(cs::Message::Done),
            BfRequestRange(a, b) => AnyMessage::BlockFetch(bf::Message::RequestRange((a.build(), b.build()))),
            BfClientDone => AnyMessage::BlockFetch(bf::Message::ClientDone),
            BfStartBatch => AnyMessage::BlockFetch(bf::Message::StartBatch),
            BfNoBlocks => AnyMessage::BlockFetch(bf::Message::NoBlocks),
            BfBlock(b) => AnyMessage::BlockFetch(bf::Message::Block(b.clone())),
            BfBatchDone => AnyMessage::BlockFetch(bf::Message::BatchDone),
            PsShareRequest(n) => AnyMessage::PeerSharing(ps::Message::ShareRequest(*n)),
            PsSharePeers(v) => AnyMessage::PeerSharing(ps::Message::SharePeers(
                v.iter()
                    .map(|(i, port, v6)| {
                        if *v6 {
                            ps::PeerAddress::V6(std::net::Ipv6Addr::new(0xfd00, 0, 0, 0, 0, 0, 0, *i as u16), *port)
                        } else {
                            ps::PeerAddress::V4(std::net::Ipv4Addr::new(10, 0, 0, *i), *port)
                        }
                    })
                    .collect(),
            )),
            PsSharePeersMany(n) => AnyMessage::PeerSharing(ps::Message::SharePeers(
                (0..*n).map(|i| ps::PeerAddress::V4(std::net::Ipv4Addr::new(172, 16, (i >> 8) as u8, i as u8), 3001)).collect(),
            )),
            PsDone => AnyMessage::PeerSharing(ps::Message::Done),
            TxInit => AnyMessage::TxSubmission(tx::Message::Init),
            TxRequestTxIds(b, a, r) => AnyMessage::TxSubmission(tx::Message::RequestTxIds(*b, *a, *r)),
            TxReplyTxIds(n) => AnyMessage::TxSubmission(tx::Message::ReplyTxIds(
                (0..*n % 4).map(|i| tx::TxIdAndSize(tx::EraTxId(6, vec![i; 32]), 100 + i as u32)).collect(),
            )),
            TxRequestTxs(n) => AnyMessage::TxSubmission(tx::Message::RequestTxs((0..*n % 4).map(|i| tx::EraTxId(6, vec![i; 32])).collect())),
            TxReplyTxs(n) => AnyMessage::TxSubmission(tx::Message::ReplyTxs((0..*n % 4).map(|i| tx::EraTxBody(6, vec![0x80, i])).collect())),
            TxDone => AnyMessage::TxSubmission(tx::Message::Done),
            LnRequestNext => AnyMessage::LeiosNotify(ln::Message::RequestNext),
            LnBlockAnnouncement(n) => AnyMessage::LeiosNotify(ln::Message::BlockAnnouncement(anycbor(*n))),
            LnBlockOffer(p, s) => AnyMessage::LeiosNotify(ln::Message::BlockOffer(p.build(), *s)),
            LnBlockTxsOffer(p) => AnyMessage::LeiosNotify(ln::Message::BlockTxsOffer(p.build())),
            LnVotes(n) => AnyMessage::LeiosNotify(ln::Message::Votes((0..*n % 4).map(anycbor).collect())),
            LnDone => AnyMessage::LeiosNotify(ln::Message::Done),
            LfBlockRequest(p) => AnyMessage::LeiosFetch(lf::Message::BlockRequest(p.build())),
            LfBlock(n) => AnyMessage::LeiosFetch(lf::Message::Block(anycbor(*n))),
            LfBlockTxsRequest(p, n) => AnyMessage::LeiosFetch(lf::Message::BlockTxsRequest(p.build(), lf::Bitmaps::all(*n as usize % 70))),
            LfBlockTxs(p, n) => AnyMessage::LeiosFetch(lf::Message::BlockTxs {
                point: p.build(),
                bitmaps: lf::Bitmaps::all(*n as usize % 70),
                txs: (0..*n % 4).map(anycbor).collect(),
            }),
            LfDone => AnyMessage::LeiosFetch(lf::Message::Done),
        }
    }
}

pub fn vt() -> impl Strategy<Value = Vec<(u64, u64)>> {
    prop::collection::vec((prop::sample::select(vec![11u64, 13, 14, 15, 16]), prop::sample::select(vec![764824073u64, 2])), 0..3)
}

pub fn vt_shaped() -> impl Strategy<Value = Vec<(u64, u64, u8)>> {
    prop::collection::vec((prop::sample::select(vec![7u64, 10, 11, 13, 14, 15, 16]), prop::sample::select(vec![764824073u64, 2]), 0u8..4), 0..3)
}

/// Any message of any protocol.
pub fn any_msg() -> impl Strategy<Value = MsgR> {
    use MsgR::*;
    prop_oneof![
        vt().prop_map(HsPropose),
        vt_shaped().prop_map(HsProposeShaped),
        vt_shaped().prop_map(HsQueryReplyShaped),
        (prop::sample::select(vec![13u64, 15, 99]), prop::sample::select(vec![764824073u64, 2]), 0u8..4).prop_map(|(a, b, c)| HsAcceptShaped(a, b, c)),
        (prop::sample::select(vec![13u64, 15, 99]), prop::sample::select(vec![764824073u64, 2])).prop_map(|(a, b)| HsAccept(a, b)),
        (0u8..3).prop_map(HsRefuse),
        vt().prop_map(HsQueryReply),
        any::<u16>().prop_map(KaKeepAlive),
        any::<u16>().prop_map(KaResponse),
        Just(KaDone),
        Just(CsRequestNext),
        Just(CsAwaitReply),
        (any::<u8>(), pt()).prop_map(|(a, b)| CsRollForward(a, b)),
        (pt(), pt()).prop_map(|(a, b)| CsRollBackward(a, b)),
        prop::collection::vec(pt(), 0..3).prop_map(CsFindIntersect),
        (pt(), pt()).prop_map(|(a, b)| CsIntersectFound(a, b)),
        pt().prop_map(CsIntersectNotFound),
        Just(CsDone),
        (pt(), pt()).prop_map(|(a, b)| BfRequestRange(a, b)),
        Just(BfClientDone),
        Just(BfStartBatch),
        Just(BfNoBlocks),
        prop::collection::vec(any::<u8>(), 0..5).prop_map(BfBlock),
        Just(BfBatchDone),
        any::<u8>().prop_map(PsShareRequest),
        prop::collection::vec((1u8..30, 3000u16..3040, any::<bool>()), 0..4).prop_map(PsSharePeers),
        prop_oneof![Just(99u16), Just(100), Just(101), Just(255), Just(256), 0u16..600].prop_map(PsSharePeersMany),
        Just(PsDone),
        Just(TxInit),
        (any::<bool>(), 0u16..5, 0u16..5).prop_map(|(a, b, c)| TxRequestTxIds(a, b, c)),
        (0u8..4).prop_map(TxReplyTxIds),
        (0u8..4).prop_map(TxRequestTxs),
        (0u8..4).prop_map(TxReplyTxs),
        Just(TxDone),
        Just(LnRequestNext),
        any::<u8>().prop_map(LnBlockAnnouncement),
        (pt(), any::<u32>()).prop_map(|(a, b)| LnBlockOffer(a, b)),
        pt().prop_map(LnBlockTxsOffer),
        (0u8..4).prop_map(LnVotes),
        Just(LnDone),
        pt().prop_map(LfBlockRequest),
        any::<u8>().prop_map(LfBlock),
        (pt(), any::<u8>()).prop_map(|(a, b)| LfBlockTxsRequest(a, b)),
        (pt(), any::<u8>()).prop_map(|(a, b)| LfBlockTxs(a, b)),
        Just(LfDone),
    ]
}

/// Recover the recipe-level identity (protocol + variant name) of a message the behaviour emitted.
pub fn describe(m: &AnyMessage) -> (&'static str, String) {
    use proto::{blockfetch as bf, chainsync as cs, handshake as hs, keepalive as ka, leiosfetch as lf, leiosnotify as ln, peersharing as ps, txsubmission as tx};
    match m {
        AnyMessage::Handshake(x) => ("handshake", match x {
            hs::Message::Propose(_) => "Propose", hs::Message::Accept(..) => "Accept", hs::Message::Refuse(_) => "Refuse", hs::Message::QueryReply(_) => "QueryReply" }.into()),
        AnyMessage::KeepAlive(x) => ("keepalive", match x {
            ka::Message::KeepAlive(_) => "KeepAlive", ka::Message::ResponseKeepAlive(_) => "ResponseKeepAlive", ka::Message::Done => "Done" }.into()),
        AnyMessage::ChainSync(x) => ("chainsync", match x {
            cs::Message::RequestNext => "RequestNext", cs::Message::AwaitReply => "AwaitReply", cs::Message::RollForward(..) => "RollForward",
            cs::Message::RollBackward(..) => "RollBackward", cs::Message::FindIntersect(_) => "FindIntersect", cs::Message::IntersectFound(..) => "IntersectFound",
            cs::Message::IntersectNotFound(_) => "IntersectNotFound", cs::Message::Done => "Done" }.into()),
        AnyMessage::BlockFetch(x) => ("blockfetch", match x {
            bf::Message::RequestRange(_) => "RequestRange", bf::Message::ClientDone => "ClientDone", bf::Message::StartBatch => "StartBatch",
            bf::Message::NoBlocks => "NoBlocks", bf::Message::Block(_) => "Block", bf::Message::BatchDone => "BatchDone" }.into()),
        AnyMessage::PeerSharing(x) => ("peersharing", match x {
            ps::Message::ShareRequest(_) => "ShareRequest", ps::Message::SharePeers(_) => "SharePeers", ps::Message::Done => "Done" }.into()),
        AnyMessage::TxSubmission(x) => ("txsubmission", match x {
            tx::Message::Init => "Init", tx::Message::RequestTxIds(b, ..) => if *b { "RequestTxIdsBlocking" } else { "RequestTxIdsNonBlocking" },
            tx::Message::ReplyTxIds(_) => "ReplyTxIds", tx::Message::RequestTxs(_) => "RequestTxs", tx::Message::ReplyTxs(_) => "ReplyTxs", tx::Message::Done => "Done" }.into()),
        AnyMessage::LeiosNotify(x) => ("leiosnotify", match x {
            ln::Message::RequestNext => "RequestNext", ln::Message::BlockAnnouncement(_) => "BlockAnnouncement", ln::Message::BlockOffer(..) => "BlockOffer",
            ln::Message::BlockTxsOffer(_) => "BlockTxsOffer", ln::Message::Votes(_) => "Votes", ln::Message::Done => "Done" }.into()),
        AnyMessage::LeiosFetch(x) => ("leiosfetch", match x {
            lf::Message::BlockRequest(_) => "BlockRequest", lf::Message::Block(_) => "Block", lf::Message::BlockTxsRequest(..) => "BlockTxsRequest",
            lf::Message::BlockTxs { .. } => "BlockTxs", lf::Message::Done => "Done" }.into()),
    }
}
