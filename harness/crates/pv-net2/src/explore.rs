//! Bounded-exhaustive, de-duplicated breadth-first exploration of op sequences over `sim::World`.
use crate::sim::{Cfg, Op, World};
use pvkit::{Fail, Obs, Session};
use serde::{Deserialize, Serialize};
use std::collections::HashMap;
use std::sync::Mutex;

#[derive(Debug, Clone, Serialize, Deserialize)]
pub struct SeqCase {
    pub cfg: Cfg,
    pub ops: Vec<Op>,
    #[serde(default)]
    pub idx: usize,
}

pub struct Mode {
    pub check_wire: bool,
    pub check_sets: bool,
}

/// Execute a whole sequence from a fresh behaviour, checking after every op. Returns the world.
pub fn execute(c: &SeqCase, mode: &Mode, s: &Session, obs: &mut Obs) -> Result<World, Fail> {
    let mut w = World::new(c.cfg.clone());
    let known = |sig: &str| s.is_known(sig).is_some();
    for (i, op) in c.ops.iter().enumerate() {
        if let Err(v) = w.step(op, mode.check_wire, &known) {
            // C27's connect-to-banned is also judged when exploring for C28 and vice versa only if asked
            let relevant = (v.sig.starts_with("c27") && mode.check_sets) || (v.sig.starts_with("c28") && mode.check_wire);
            if relevant {
                return Err(Fail { sig: v.sig, msg: format!("step {i}: {}", v.msg) });
            }
        }
        if mode.check_sets {
            if let Err(v) = w.check_sets(op) {
                return Err(Fail { sig: v.sig, msg: format!("step {i}: {}", v.msg) });
            }
        }
    }
    obs.class(format!("len:{}", c.ops.len()));
    Ok(w)
}

/// Layered BFS: every sequence `prefix ++ ops` with |ops| <= depth, pruned where the abstract
/// fingerprint was already reached by a shorter (or earlier) sequence.
pub fn bfs(
    s: &Session,
    sub: &str,
    cfg: &Cfg,
    prefix: &[Op],
    alphabet: &[Op],
    depth: usize,
    mode: &Mode,
    nontrivial: &(dyn Fn(&World) -> bool + Sync),
) -> (usize, usize) {
    let mut seen: HashMap<u64, ()> = HashMap::new();
    let mut frontier: Vec<Vec<Op>> = vec![prefix.to_vec()];
    let mut states = 0usize;
    let mut transitions = 0usize;
    // fingerprint of the prefix itself
    {
        let mut o = Obs::default();
        if let Ok(w) = execute(&SeqCase { cfg: cfg.clone(), ops: prefix.to_vec(), idx: 0 }, mode, s, &mut o) {
            seen.insert(w.fingerprint(), ());
            states += 1;
        }
    }
    for layer in 1..=depth {
        let mut cases = vec![];
        for f in &frontier {
            for a in alphabet {
                let mut ops = f.clone();
                ops.push(a.clone());
                let idx = cases.len();
                cases.push(SeqCase { cfg: cfg.clone(), ops, idx });
            }
        }
        if cases.is_empty() {
            break;
        }
        transitions += cases.len();
        let found: Mutex<HashMap<u64, usize>> = Mutex::new(HashMap::new());
        let n_cases = cases.len();
        let seen_ref = &seen;
        s.foreach(&format!("{sub}:layer{layer}"), cases.clone(), true, |c, obs| {
            let w = execute(c, mode, s, obs)?;
            let fp = w.fingerprint();
            if nontrivial(&w) {
                obs.nontrivial_key(fp);
            }
            if !seen_ref.contains_key(&fp) {
                let mut g = found.lock().unwrap();
                let e = g.entry(fp).or_insert(c.idx);
                if c.idx < *e {
                    *e = c.idx;
                }
            }
            Ok(())
        });
        if s.replaying() {
            return (states, transitions);
        }
        let found = found.into_inner().unwrap();
        let mut next: Vec<(usize, u64)> = found.iter().map(|(fp, idx)| (*idx, *fp)).collect();
        next.sort();
        frontier = next.iter().map(|(idx, _)| cases[*idx].ops.clone()).collect();
        for (_, fp) in &next {
            seen.insert(*fp, ());
        }
        states += next.len();
        let _ = n_cases;
        if frontier.is_empty() {
            break;
        }
    }
    (states, transitions)
}
