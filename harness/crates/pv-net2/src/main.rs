mod c24;
mod c27;
mod c28;
mod c29;
mod common;
mod explore;
mod sim;
mod spec;

use pvkit::session::CheckDef;
use pvkit::Session;
use std::collections::BTreeSet;
use std::sync::Mutex;

/// Known-finding signatures a check stepped over by itself (so that exploration continues).
pub static KNOWN_SEEN: Mutex<BTreeSet<String>> = Mutex::new(BTreeSet::new());

pub fn flush_known(s: &Session) {
    let seen: Vec<String> = KNOWN_SEEN.lock().unwrap().iter().cloned().collect();
    for sig in seen {
        s.known_hit(&sig, 1);
    }
}

fn main() {
    pvkit::main(&[
        CheckDef { id: "C24", level: "exploration", run: c24::run },
        CheckDef { id: "C27", level: "exploration", run: c27::run },
        CheckDef { id: "C28", level: "exploration", run: c28::run },
        CheckDef { id: "C29", level: "exploration", run: c29::run },
    ]);
}
