//! A harness-owned interface for `InitiatorBehavior`: the harness plays the network. It keeps a model
//! of what a real TCP interface could deliver (connections, per-peer FIFO of unconfirmed sends), the
//! per-(peer, protocol) *wire* state according to the specification, and a specification-conformant
//! simulated responder. Used by C27 (promotion invariants) and C28 (initiator never violates).
use crate::common::{describe, drain, pid, vdata, MsgR, PtR};
use crate::spec::{self, Agency};
use pallas_network2::behavior::{
    AnyMessage, HandshakeBehavior, InitiatorBehavior, InitiatorCommand, PromotionBehavior, PromotionConfig,
};
use pallas_network2::protocol as proto;
use pallas_network2::{Behavior, BehaviorOutput, InterfaceCommand, InterfaceError, InterfaceEvent, PeerId};
use serde::{Deserialize, Serialize};
use std::collections::{BTreeMap, BTreeSet, VecDeque};

#[derive(Debug, Clone, PartialEq, Eq, Hash, Serialize, Deserialize)]
pub enum Op {
    // external commands
    Include(u8),
    Ban(u8),
    Demote(u8),
    /// `PromotionBehavior::demote_peer` called directly (public API; the DemotePeer command only re-tags the peer)
    DemoteDirect(u8),
    /// `PromotionBehavior::ban_peer` called directly (public API)
    BanDirect(u8),
    Housekeeping,
    StartSync,
    ContinueSync(u8),
    RequestBlocks,
    FetchEb(u8),
    FetchEbTxs(u8),
    // interface events (applied only when consistent with what a real connection could deliver)
    IdleEvent,
    Connected(u8),
    ConnectFailed(u8),
    Disconnected(u8),
    Error(u8),
    DeliverSent(u8),
    /// the conformant responder answers on some protocol where it holds agency (selector, choice)
    Reply(u8, u8, u8),
    /// a protocol-violating inbound message (C27: ban by violation)
    RecvViolating(u8),
}

#[derive(Debug, Clone, Serialize, Deserialize)]
pub struct Cfg {
    pub peers: u8,
    pub max_peers: usize,
    pub max_warm: usize,
    pub max_hot: usize,
    pub max_error_count: u32,
    /// handshake version the initiator proposes and the responder accepts (15 enables Leios)
    pub version: u64,
    /// what the responder's Accept says about peer sharing: 1 = on (the default), 0 = negotiated off (`Some(0)`),
    /// 2 = the field is absent. With it off the peer-sharing protocol is not part of the connection.
    #[serde(default = "one")]
    pub accept_peer_sharing: u8,
}

fn one() -> u8 {
    1
}

#[derive(Clone, Copy, PartialEq, Eq, Debug)]
enum Conn {
    None,
    Requested,
    Up,
    Broken,
}

pub struct World {
    pub b: InitiatorBehavior,
    pub cfg: Cfg,
    conn: Vec<Conn>,
    disconnect_requested: Vec<bool>,
    /// the responder's Accept has been delivered on the current connection (no other mini-protocol may run before)
    hs_accepted: Vec<bool>,
    pending: Vec<VecDeque<AnyMessage>>,
    /// wire state per peer per protocol
    wire: Vec<BTreeMap<&'static str, &'static str>>,
    /// initiator messages emitted on (peer, protocol) but not yet Sent-confirmed
    unconfirmed: Vec<BTreeMap<&'static str, u32>>,
    pub banned_history: BTreeSet<u8>,
    pub skipped: u64,
    pub applied: u64,
    pub sends: u64,
    pub replies: u64,
    pub events: Vec<String>,
    /// counters mirroring behaviour-internal queues that `Debug` of the peer states does not show
    pub hidden: [u32; 6],
}

#[derive(Debug)]
pub struct Violation {
    pub sig: String,
    pub msg: String,
}

fn idx_of(p: &PeerId) -> Option<u8> {
    p.host.strip_prefix("10.0.0.").and_then(|s| s.parse().ok())
}

const PROTOS: [&str; 8] = ["handshake", "chainsync", "blockfetch", "txsubmission", "keepalive", "peersharing", "leiosnotify", "leiosfetch"];

fn fresh_wire() -> BTreeMap<&'static str, &'static str> {
    PROTOS.iter().map(|p| (*p, spec::by_name(p).initial)).collect()
}

impl World {
    pub fn new(cfg: Cfg) -> Self {
        let promotion = PromotionBehavior::new(PromotionConfig {
            max_peers: cfg.max_peers,
            max_warm_peers: cfg.max_warm,
            max_hot_peers: cfg.max_hot,
            max_error_count: cfg.max_error_count,
        });
        let handshake = HandshakeBehavior::new(pallas_network2::behavior::Config {
            supported_version: proto::handshake::n2n::VersionTable {
                values: vec![(cfg.version, vdata(proto::MAINNET_MAGIC))].into_iter().collect(),
            },
        });
        let b = InitiatorBehavior { promotion, handshake, ..Default::default() };
        let n = cfg.peers as usize + 1;
        World {
            b,
            conn: vec![Conn::None; n],
            disconnect_requested: vec![false; n],
            hs_accepted: vec![false; n],
            pending: (0..n).map(|_| VecDeque::new()).collect(),
            wire: (0..n).map(|_| fresh_wire()).collect(),
            unconfirmed: (0..n).map(|_| BTreeMap::new()).collect(),
            banned_history: BTreeSet::new(),
            skipped: 0,
            applied: 0,
            sends: 0,
            replies: 0,
            events: vec![],
            hidden: [0; 6],
            cfg,
        }
    }

    fn peer(&self, i: u8) -> u8 {
        1 + i % self.cfg.peers
    }

    fn reset_connection(&mut self, i: usize) {
        self.pending[i].clear();
        self.wire[i] = fresh_wire();
        self.unconfirmed[i].clear();
        self.disconnect_requested[i] = false;
        self.hs_accepted[i] = false;
    }

    /// Apply one op (if consistent), drain the behaviour and check what it emitted.
    /// `check_wire`: judge emitted Sends against the specification (C28).
    pub fn step(&mut self, op: &Op, check_wire: bool, known: &dyn Fn(&str) -> bool) -> Result<(), Violation> {
        let banned_before = self.banned_history.clone();
        let mut ban_target: Option<u8> = None;
        let applied = match op {
            Op::Include(i) => {
                let p = self.peer(*i);
                self.b.execute(InitiatorCommand::IncludePeer(pid(p)));
                true
            }
            Op::Ban(i) => {
                let p = self.peer(*i);
                if self.b.peers.contains_key(&pid(p)) {
                    ban_target = Some(p);
                }
                self.b.execute(InitiatorCommand::BanPeer(pid(p)));
                true
            }
            Op::Demote(i) => {
                let p = self.peer(*i);
                self.b.execute(InitiatorCommand::DemotePeer(pid(p)));
                true
            }
            Op::DemoteDirect(i) => {
                let p = pid(self.peer(*i));
                // "demotes a peer back to cold": only meaningful for a peer that is warm or hot
                let promoted = self.b.promotion.warm_peers.contains(&p) || self.b.promotion.hot_peers.contains(&p);
                match self.b.peers.get_mut(&p) {
                    Some(st) if promoted => {
                        self.b.promotion.demote_peer(&p, st);
                        true
                    }
                    _ => false,
                }
            }
            Op::BanDirect(i) => {
                let n = self.peer(*i);
                let p = pid(n);
                match self.b.peers.get_mut(&p) {
                    Some(st) => {
                        ban_target = Some(n);
                        self.b.promotion.ban_peer(&p, st);
                        true
                    }
                    None => false,
                }
            }
            Op::Housekeeping => {
                self.b.execute(InitiatorCommand::Housekeeping);
                true
            }
            Op::StartSync => {
                self.hidden[0] = 1;
                self.b.execute(InitiatorCommand::StartSync(vec![PtR::At(1, 1).build(), PtR::Origin.build()]));
                true
            }
            Op::ContinueSync(i) => {
                let p = self.peer(*i);
                self.b.execute(InitiatorCommand::ContinueSync(pid(p)));
                true
            }
            Op::RequestBlocks => {
                self.hidden[1] += 1;
                self.b.execute(InitiatorCommand::RequestBlocks((PtR::At(1, 1).build(), PtR::At(2, 2).build())));
                true
            }
            Op::FetchEb(i) => {
                let p = self.peer(*i);
                self.hidden[2] += 1 + p as u32 * 16;
                self.b.execute(InitiatorCommand::FetchEb(pid(p), PtR::At(3, 3).build()));
                true
            }
            Op::FetchEbTxs(i) => {
                let p = self.peer(*i);
                self.hidden[3] += 1 + p as u32 * 16;
                self.b.execute(InitiatorCommand::FetchEbTxs(pid(p), PtR::At(3, 3).build(), proto::leiosfetch::Bitmaps::all(3)));
                true
            }
            Op::IdleEvent => {
                self.b.handle_io(InterfaceEvent::Idle);
                true
            }
            Op::Connected(i) => {
                let p = self.peer(*i) as usize;
                if self.conn[p] == Conn::Requested {
                    self.conn[p] = Conn::Up;
                    self.reset_connection(p);
                    self.b.handle_io(InterfaceEvent::Connected(pid(p as u8)));
                    true
                } else {
                    false
                }
            }
            Op::ConnectFailed(i) => {
                let p = self.peer(*i) as usize;
                if self.conn[p] == Conn::Requested {
                    self.conn[p] = Conn::None;
                    self.b.handle_io(InterfaceEvent::Error(pid(p as u8), InterfaceError::Other("connect refused".into())));
                    true
                } else {
                    false
                }
            }
            Op::Disconnected(i) => {
                let p = self.peer(*i) as usize;
                if self.disconnect_requested[p] {
                    // the interface answers every Disconnect command with Disconnected
                    if self.conn[p] == Conn::Up || self.conn[p] == Conn::Broken {
                        self.conn[p] = Conn::None;
                    }
                    self.reset_connection(p);
                    self.b.handle_io(InterfaceEvent::Disconnected(pid(p as u8)));
                    true
                } else {
                    false
                }
            }
            Op::Error(i) => {
                let p = self.peer(*i) as usize;
                if self.conn[p] == Conn::Up {
                    // a read/write error: nothing more is delivered on this connection
                    self.conn[p] = Conn::Broken;
                    self.pending[p].clear();
                    self.b.handle_io(InterfaceEvent::Error(pid(p as u8), InterfaceError::Other("io".into())));
                    true
                } else {
                    false
                }
            }
            Op::DeliverSent(i) => {
                let p = self.peer(*i) as usize;
                if self.conn[p] == Conn::Up {
                    if let Some(m) = self.pending[p].pop_front() {
                        let (pr, _) = describe(&m);
                        if let Some(c) = self.unconfirmed[p].get_mut(pr) {
                            *c = c.saturating_sub(1);
                        }
                        self.b.handle_io(InterfaceEvent::Sent(pid(p as u8), m));
                        true
                    } else {
                        false
                    }
                } else {
                    false
                }
            }
            Op::Reply(i, sel, choice) => {
                let p = self.peer(*i) as usize;
                if self.conn[p] != Conn::Up {
                    false
                } else {
                    // protocols where the responder holds agency and every initiator message was confirmed
                    let ready: Vec<&'static str> = PROTOS
                        .iter()
                        .copied()
                        .filter(|pr| {
                            let st = self.wire[p][pr];
                            spec::by_name(pr).agency(st) == Agency::Server && self.unconfirmed[p].get(pr).copied().unwrap_or(0) == 0
                        })
                        .collect();
                    if ready.is_empty() {
                        false
                    } else {
                        let pr = ready[*sel as usize % ready.len()];
                        let sp = spec::by_name(pr);
                        let st = self.wire[p][pr];
                        let allowed = sp.allowed(st);
                        let (variant, to) = allowed[*choice as usize % allowed.len()];
                        let m = self.responder_message(pr, variant, *choice);
                        self.wire[p].insert(pr, to);
                        if pr == "handshake" && variant == "Accept" {
                            self.hs_accepted[p] = true;
                        }
                        self.replies += 1;
                        if pr == "peersharing" {
                            self.hidden[5] += 1 + *choice as u32;
                        }
                        self.events.push(format!("reply:{pr}:{variant}"));
                        self.b.handle_io(InterfaceEvent::Recv(pid(p as u8), vec![m]));
                        true
                    }
                }
            }
            Op::RecvViolating(i) => {
                let p = self.peer(*i) as usize;
                if self.conn[p] == Conn::Up {
                    // a keepalive response nobody asked for is a violation in every keepalive client state,
                    // unless a keepalive is outstanding; a blockfetch BatchDone in Idle always is
                    let m = MsgR::BfBatchDone.build();
                    self.b.handle_io(InterfaceEvent::Recv(pid(p as u8), vec![m]));
                    true
                } else {
                    false
                }
            }
        };
        if !applied {
            self.skipped += 1;
            return Ok(());
        }
        self.applied += 1;
        // ---- drain and judge outputs ----
        let outs = drain(&mut self.b);
        for o in outs {
            match o {
                BehaviorOutput::InterfaceCommand(InterfaceCommand::Connect(p)) => {
                    if let Some(i) = idx_of(&p) {
                        if banned_before.contains(&i) {
                            return Err(Violation {
                                sig: "c27:connect-to-banned-peer".into(),
                                msg: format!("after {op:?} the initiator asks to connect to {p}, which was banned earlier"),
                            });
                        }
                        let iu = i as usize;
                        if iu < self.conn.len() && self.conn[iu] == Conn::None {
                            self.conn[iu] = Conn::Requested;
                        }
                        self.events.push(format!("connect:{i}"));
                    }
                }
                BehaviorOutput::InterfaceCommand(InterfaceCommand::Disconnect(p)) => {
                    if let Some(i) = idx_of(&p) {
                        if (i as usize) < self.conn.len() {
                            self.disconnect_requested[i as usize] = true;
                        }
                    }
                }
                BehaviorOutput::InterfaceCommand(InterfaceCommand::Send(p, m)) => {
                    let Some(i) = idx_of(&p) else { continue };
                    let iu = i as usize;
                    if iu >= self.conn.len() || self.conn[iu] != Conn::Up {
                        // no writer for this peer: a real interface drops the message
                        continue;
                    }
                    self.sends += 1;
                    let (pr, variant) = describe(&m);
                    let sp = spec::by_name(pr);
                    let st = self.wire[iu][pr];
                    self.events.push(format!("send:{pr}:{variant}@{st}"));
                    if pr == "blockfetch" || pr == "leiosfetch" {
                        self.hidden[4] += 1;
                    }
                    let ok = sp.agency(st) == Agency::Client && sp.next(st, &variant).is_some();
                    if pr != "handshake" && !self.hs_accepted[iu] && check_wire {
                        // refused, answered with a query reply, or not answered yet: the connection carries no other protocol
                        return Err(Violation {
                            sig: format!("c28:{pr}:{variant}:without-accepted-handshake"),
                            msg: format!("after {op:?} the initiator emits {pr}::{variant} to {p} although no handshake Accept has been received on this connection (handshake state {})", self.wire[iu]["handshake"]),
                        });
                    }
                    if (pr == "leiosnotify" || pr == "leiosfetch") && self.cfg.version < 15 && check_wire {
                        // the Leios mini-protocols exist from handshake version 15 on (the library's own LEIOS_MIN_VERSION)
                        return Err(Violation {
                            sig: format!("c28:{pr}:{variant}:not-in-negotiated-version"),
                            msg: format!("after {op:?} the initiator emits {pr}::{variant} to {p} although version {} was negotiated, which has no Leios mini-protocols", self.cfg.version),
                        });
                    }
                    if pr == "peersharing" && self.cfg.accept_peer_sharing != 1 && check_wire {
                        // the responder negotiated peer sharing off: it does not run that mini-protocol at all
                        return Err(Violation {
                            sig: format!("c28:peersharing:{variant}:not-negotiated"),
                            msg: format!("after {op:?} the initiator emits peersharing::{variant} to {p} although the accepted version data switched peer sharing off"),
                        });
                    }
                    if ok {
                        self.wire[iu].insert(pr, sp.next(st, &variant).unwrap());
                        *self.unconfirmed[iu].entry(pr).or_insert(0) += 1;
                        self.pending[iu].push_back(m);
                    } else if check_wire {
                        // the behaviours decide on protocol state that only advances on `Sent`: a message emitted
                        // while an earlier one on the same protocol is still unconfirmed is the recorded root cause;
                        // the same emission with everything confirmed would be a different defect
                        let stale = self.unconfirmed[iu].get(pr).copied().unwrap_or(0) > 0;
                        let sig = format!("c28:{pr}:{variant}@{st}:{}", if stale { "before-sent-confirmation" } else { "state-confirmed" });
                        if known(&sig) {
                            // a conformant responder would drop the connection here; the message is not put on the
                            // wire model, so the search continues from a consistent state
                            crate::KNOWN_SEEN.lock().unwrap().insert(sig);
                        } else {
                            return Err(Violation {
                                sig,
                                msg: format!(
                                    "after {op:?} the initiator emits {pr}::{variant} to {p} while the connection's {pr} state is {st} ({:?} agency); the specification does not permit it",
                                    sp.agency(st)
                                ),
                            });
                        }
                    } else {
                        // C27 does not judge protocol conformance; keep the interface model going
                        self.pending[iu].push_back(m);
                        *self.unconfirmed[iu].entry(pr).or_insert(0) += 1;
                    }
                }
                BehaviorOutput::ExternalEvent(_) => {}
            }
        }
        // ban bookkeeping (after judging this op's outputs)
        for p in self.b.promotion.banned_peers.iter() {
            if let Some(i) = idx_of(p) {
                self.banned_history.insert(i);
            }
        }
        if let Some(t) = ban_target {
            self.banned_history.insert(t);
        }
        Ok(())
    }

    fn responder_message(&self, pr: &str, variant: &str, c: u8) -> AnyMessage {
        let r = match (pr, variant) {
            ("handshake", "Accept") if self.cfg.accept_peer_sharing != 1 => MsgR::HsAcceptPs(self.cfg.version, proto::MAINNET_MAGIC, self.cfg.accept_peer_sharing),
            ("handshake", "Accept") => MsgR::HsAccept(self.cfg.version, proto::MAINNET_MAGIC),
            ("handshake", "Refuse") => MsgR::HsRefuse(c),
            ("handshake", "QueryReply") => MsgR::HsQueryReply(vec![(self.cfg.version, proto::MAINNET_MAGIC)]),
            ("keepalive", _) => MsgR::KaResponse(u16::MAX),
            ("chainsync", "AwaitReply") => MsgR::CsAwaitReply,
            ("chainsync", "RollForward") => MsgR::CsRollForward(c, PtR::At(4, 1)),
            ("chainsync", "RollBackward") => MsgR::CsRollBackward(PtR::At(1, 1), PtR::At(4, 1)),
            ("chainsync", "IntersectFound") => MsgR::CsIntersectFound(PtR::At(1, 1), PtR::At(4, 1)),
            ("chainsync", "IntersectNotFound") => MsgR::CsIntersectNotFound(PtR::At(4, 1)),
            ("blockfetch", "NoBlocks") => MsgR::BfNoBlocks,
            ("blockfetch", "StartBatch") => MsgR::BfStartBatch,
            ("blockfetch", "Block") => MsgR::BfBlock(vec![c]),
            ("blockfetch", "BatchDone") => MsgR::BfBatchDone,
            ("peersharing", _) => MsgR::PsSharePeers(vec![(1 + c % self.cfg.peers, 3001 + (c % self.cfg.peers) as u16, false)]),
            ("txsubmission", "RequestTxIdsBlocking") => MsgR::TxRequestTxIds(true, 0, 3),
            ("txsubmission", "RequestTxIdsNonBlocking") => MsgR::TxRequestTxIds(false, 0, 3),
            ("txsubmission", "RequestTxs") => MsgR::TxRequestTxs(1),
            ("leiosnotify", "BlockAnnouncement") => MsgR::LnBlockAnnouncement(c),
            ("leiosnotify", "BlockOffer") => MsgR::LnBlockOffer(PtR::At(3, 3), 100),
            ("leiosnotify", "BlockTxsOffer") => MsgR::LnBlockTxsOffer(PtR::At(3, 3)),
            ("leiosnotify", "Votes") => MsgR::LnVotes(c),
            ("leiosfetch", "Block") => MsgR::LfBlock(c),
            ("leiosfetch", "BlockTxs") => MsgR::LfBlockTxs(PtR::At(3, 3), 3),
            other => panic!("harness: no responder message for {other:?}"),
        };
        r.build()
    }

    /// C27 invariants over the promotion sets.
    pub fn check_sets(&self, after: &Op) -> Result<(), Violation> {
        let pr = &self.b.promotion;
        let sets = [("cold", &pr.cold_peers), ("warm", &pr.warm_peers), ("hot", &pr.hot_peers), ("banned", &pr.banned_peers)];
        for a in 0..4 {
            for b in (a + 1)..4 {
                if let Some(p) = sets[a].1.intersection(sets[b].1).next() {
                    return Err(Violation {
                        sig: format!("c27:sets-overlap:{}+{}", sets[a].0, sets[b].0),
                        msg: format!("after {after:?} peer {p} is in both the {} and the {} set", sets[a].0, sets[b].0),
                    });
                }
            }
        }
        if pr.warm_peers.len() > self.cfg.max_warm {
            return Err(Violation { sig: "c27:limit:warm".into(), msg: format!("after {after:?}: {} warm peers > max_warm_peers {}", pr.warm_peers.len(), self.cfg.max_warm) });
        }
        if pr.hot_peers.len() > self.cfg.max_hot {
            return Err(Violation { sig: "c27:limit:hot".into(), msg: format!("after {after:?}: {} hot peers > max_hot_peers {}", pr.hot_peers.len(), self.cfg.max_hot) });
        }
        // the public observers agree with the sets
        for i in 1..=self.cfg.peers {
            let p = pid(i);
            let tracked = pr.cold_peers.contains(&p) || pr.warm_peers.contains(&p) || pr.hot_peers.contains(&p);
            if pr.is_tracked(&p) != tracked {
                return Err(Violation { sig: "c27:is_tracked-disagrees-with-sets".into(), msg: format!("after {after:?}: is_tracked({p}) = {} but membership in cold/warm/hot is {tracked}", pr.is_tracked(&p)) });
            }
        }
        let total = pr.cold_peers.len() + pr.warm_peers.len() + pr.hot_peers.len();
        if total <= self.cfg.max_peers && pr.peer_deficit() != self.cfg.max_peers - total {
            return Err(Violation { sig: "c27:peer_deficit-wrong".into(), msg: format!("after {after:?}: peer_deficit() = {} with {total} tracked peers of {}", pr.peer_deficit(), self.cfg.max_peers) });
        }
        if total > self.cfg.max_peers {
            return Err(Violation { sig: "c27:limit:total".into(), msg: format!("after {after:?}: {total} tracked peers > max_peers {}", self.cfg.max_peers) });
        }
        Ok(())
    }

    /// Abstract fingerprint for de-duplication in bounded-exhaustive exploration.
    pub fn fingerprint(&self) -> u64 {
        let mut s = String::new();
        let pr = &self.b.promotion;
        for i in 1..=self.cfg.peers {
            let p = pid(i);
            s.push_str(&format!(
                "|{}:{:?}:{}{}{}{}:{:?}:{}:{:?}:{:?}:{:?}",
                i,
                self.b.peers.get(&p),
                pr.cold_peers.contains(&p) as u8,
                pr.warm_peers.contains(&p) as u8,
                pr.hot_peers.contains(&p) as u8,
                pr.banned_peers.contains(&p) as u8,
                self.conn[i as usize],
                self.disconnect_requested[i as usize],
                self.pending[i as usize].iter().map(|m| describe(m)).collect::<Vec<_>>(),
                self.wire[i as usize],
                self.unconfirmed[i as usize],
            ));
        }
        s.push_str(&format!("|{:?}|{:?}", self.banned_history, self.hidden));
        pvkit::fnv64(s.as_bytes())
    }
}
