//! Mini-protocol specification tables (Ouroboros network specification; Leios tables from the
//! protocol module documentation): per state the agency, per (state, message) the next state.
#[derive(Clone, Copy, Debug, PartialEq, Eq)]
pub enum Agency {
    Client,
    Server,
    Nobody,
}

pub struct Spec {
    pub name: &'static str,
    pub initial: &'static str,
    /// (state, agency)
    pub states: &'static [(&'static str, Agency)],
    /// (from, message variant, to)
    pub edges: &'static [(&'static str, &'static str, &'static str)],
    pub messages: &'static [&'static str],
}

impl Spec {
    pub fn next(&self, state: &str, msg: &str) -> Option<&'static str> {
        self.edges.iter().find(|(f, m, _)| *f == state && *m == msg).map(|e| e.2)
    }
    pub fn agency(&self, state: &str) -> Agency {
        self.states.iter().find(|(s, _)| *s == state).map(|s| s.1).expect("unknown state")
    }
    pub fn allowed(&self, state: &str) -> Vec<(&'static str, &'static str)> {
        self.edges.iter().filter(|(f, _, _)| *f == state).map(|e| (e.1, e.2)).collect()
    }
}

use Agency::*;

pub const HANDSHAKE: Spec = Spec {
    name: "handshake",
    initial: "Propose",
    states: &[("Propose", Client), ("Confirm", Server), ("Done", Nobody)],
    edges: &[("Propose", "Propose", "Confirm"), ("Confirm", "Accept", "Done"), ("Confirm", "Refuse", "Done"), ("Confirm", "QueryReply", "Done")],
    messages: &["Propose", "Accept", "Refuse", "QueryReply"],
};

pub const CHAINSYNC: Spec = Spec {
    name: "chainsync",
    initial: "Idle",
    states: &[("Idle", Client), ("CanAwait", Server), ("MustReply", Server), ("Intersect", Server), ("Done", Nobody)],
    edges: &[
        ("Idle", "RequestNext", "CanAwait"), ("Idle", "FindIntersect", "Intersect"), ("Idle", "Done", "Done"),
        ("CanAwait", "AwaitReply", "MustReply"), ("CanAwait", "RollForward", "Idle"), ("CanAwait", "RollBackward", "Idle"),
        ("MustReply", "RollForward", "Idle"), ("MustReply", "RollBackward", "Idle"),
        ("Intersect", "IntersectFound", "Idle"), ("Intersect", "IntersectNotFound", "Idle"),
    ],
    messages: &["RequestNext", "AwaitReply", "RollForward", "RollBackward", "FindIntersect", "IntersectFound", "IntersectNotFound", "Done"],
};

pub const BLOCKFETCH: Spec = Spec {
    name: "blockfetch",
    initial: "Idle",
    states: &[("Idle", Client), ("Busy", Server), ("Streaming", Server), ("Done", Nobody)],
    edges: &[
        ("Idle", "RequestRange", "Busy"), ("Idle", "ClientDone", "Done"), ("Busy", "NoBlocks", "Idle"), ("Busy", "StartBatch", "Streaming"),
        ("Streaming", "Block", "Streaming"), ("Streaming", "BatchDone", "Idle"),
    ],
    messages: &["RequestRange", "ClientDone", "StartBatch", "NoBlocks", "Block", "BatchDone"],
};

pub const TXSUBMISSION: Spec = Spec {
    name: "txsubmission",
    initial: "Init",
    states: &[("Init", Client), ("Idle", Server), ("TxIdsBlocking", Client), ("TxIdsNonBlocking", Client), ("Txs", Client), ("Done", Nobody)],
    edges: &[
        ("Init", "Init", "Idle"), ("Idle", "RequestTxIdsBlocking", "TxIdsBlocking"), ("Idle", "RequestTxIdsNonBlocking", "TxIdsNonBlocking"),
        ("Idle", "RequestTxs", "Txs"), ("TxIdsBlocking", "ReplyTxIds", "Idle"), ("TxIdsBlocking", "Done", "Done"),
        ("TxIdsNonBlocking", "ReplyTxIds", "Idle"), ("Txs", "ReplyTxs", "Idle"),
    ],
    messages: &["Init", "RequestTxIdsBlocking", "RequestTxIdsNonBlocking", "ReplyTxIds", "RequestTxs", "ReplyTxs", "Done"],
};

pub const KEEPALIVE: Spec = Spec {
    name: "keepalive",
    initial: "Client",
    states: &[("Client", Client), ("Server", Server), ("Done", Nobody)],
    edges: &[("Client", "KeepAlive", "Server"), ("Client", "Done", "Done"), ("Server", "ResponseKeepAlive", "Client")],
    messages: &["KeepAlive", "ResponseKeepAlive", "Done"],
};

pub const PEERSHARING: Spec = Spec {
    name: "peersharing",
    initial: "Idle",
    states: &[("Idle", Client), ("Busy", Server), ("Done", Nobody)],
    edges: &[("Idle", "ShareRequest", "Busy"), ("Idle", "Done", "Done"), ("Busy", "SharePeers", "Idle")],
    messages: &["ShareRequest", "SharePeers", "Done"],
};

pub const LEIOSNOTIFY: Spec = Spec {
    name: "leiosnotify",
    initial: "Idle",
    states: &[("Idle", Client), ("Busy", Server), ("Done", Nobody)],
    edges: &[
        ("Idle", "RequestNext", "Busy"), ("Idle", "Done", "Done"), ("Busy", "BlockAnnouncement", "Idle"), ("Busy", "BlockOffer", "Idle"),
        ("Busy", "BlockTxsOffer", "Idle"), ("Busy", "Votes", "Idle"),
    ],
    messages: &["RequestNext", "BlockAnnouncement", "BlockOffer", "BlockTxsOffer", "Votes", "Done"],
};

pub const LEIOSFETCH: Spec = Spec {
    name: "leiosfetch",
    initial: "Idle",
    states: &[("Idle", Client), ("AwaitingBlock", Server), ("AwaitingBlockTxs", Server), ("Done", Nobody)],
    edges: &[
        ("Idle", "BlockRequest", "AwaitingBlock"), ("Idle", "BlockTxsRequest", "AwaitingBlockTxs"), ("Idle", "Done", "Done"),
        ("AwaitingBlock", "Block", "Idle"), ("AwaitingBlockTxs", "BlockTxs", "Idle"),
    ],
    messages: &["BlockRequest", "Block", "BlockTxsRequest", "BlockTxs", "Done"],
};

pub const ALL: [&Spec; 8] = [&HANDSHAKE, &CHAINSYNC, &BLOCKFETCH, &TXSUBMISSION, &KEEPALIVE, &PEERSHARING, &LEIOSNOTIFY, &LEIOSFETCH];

pub fn by_name(n: &str) -> &'static Spec {
    ALL.iter().find(|s| s.name == n).copied().expect("unknown protocol")
}
