use pallas_codec::minicbor;
use pallas_primitives::{alonzo, babbage, byron, conway};
use pvkit::cborx::{self, Kind, Node};

fn diff(a: &Node, b: &Node, path: &mut Vec<String>, ab: &[u8], bb: &[u8]) -> bool {
    match (&a.k, &b.k) {
        (Kind::Array(x, lx), Kind::Array(y, ly)) if x.len() == y.len() => {
            if lx != ly { println!("  LEN-FORM DIFF at /{} : {:?} vs {:?} ({} items)", path.join("/"), lx, ly, x.len()); }
            for (i, (p, q)) in x.iter().zip(y.iter()).enumerate() {
                path.push(format!("{i}"));
                diff(p, q, path, ab, bb);
                path.pop();
            }
            false
        }
        (Kind::Map(x, lx), Kind::Map(y, ly)) if lx == ly && x.len() == y.len() => {
            for (i, ((pk, pv), (qk, qv))) in x.iter().zip(y.iter()).enumerate() {
                path.push(format!("k{i}"));
                if diff(pk, qk, path, ab, bb) { return true; }
                path.pop();
                path.push(format!("v{i}({})", hex::encode(&ab[pk.s..pk.e.min(pk.s+8)])));
                if diff(pv, qv, path, ab, bb) { return true; }
                path.pop();
            }
            false
        }
        (Kind::Tag(t, w, x), Kind::Tag(u, v, y)) if t == u && w == v => {
            path.push(format!("tag{t}"));
            if diff(x, y, path, ab, bb) { return true; }
            path.pop();
            false
        }
        _ => {
            if a.k == b.k { return false; }
            let sa = &ab[a.s..a.e]; let sb = &bb[b.s..b.e];
            println!("  DIFF at /{} :\n    orig {}\n    reen {}", path.join("/"), hex::encode(&sa[..sa.len().min(80)]), hex::encode(&sb[..sb.len().min(80)]));
            true
        }
    }
}

fn main() {
    let mut all = pvkit::corpus::artefacts(); all.extend(pvkit::corpus::all_chunk_blocks()); let mut eras = std::collections::BTreeMap::new();
    for a in all {
        if a.kind != "block" { continue; }
        let Ok(tree) = cborx::read(&a.bytes) else { println!("{} cborx fail", a.name); continue };
        let era = tree.as_array().and_then(|v| v.get(0)).and_then(|n| n.as_u64()).unwrap_or(99);
        *eras.entry(era).or_insert(0u32) += 1;
        let re: Result<Vec<u8>, String> = match era {
            0 => minicbor::decode::<(u16, byron::EbBlock)>(&a.bytes).map(|b| minicbor::to_vec(b).unwrap()).map_err(|e| e.to_string()),
            1 => minicbor::decode::<(u16, byron::Block)>(&a.bytes).map(|b| minicbor::to_vec(b).unwrap()).map_err(|e| e.to_string()),
            2..=5 => minicbor::decode::<(u16, alonzo::Block)>(&a.bytes).map(|b| minicbor::to_vec(b).unwrap()).map_err(|e| e.to_string()),
            6 => minicbor::decode::<(u16, babbage::Block)>(&a.bytes).map(|b| minicbor::to_vec(b).unwrap()).map_err(|e| e.to_string()),
            7 => minicbor::decode::<(u16, conway::Block)>(&a.bytes).map(|b| minicbor::to_vec(b).unwrap()).map_err(|e| e.to_string()),
            _ => Err("unknown era".into()),
        };
        match re {
            Err(e) => println!("{} era {} DECODE ERR {}", a.name, era, e),
            Ok(b2) => {
                if b2 != a.bytes {
                    println!("{} era {} NOT ISO len {} vs {}", a.name, era, a.bytes.len(), b2.len());
                    match cborx::read(&b2) { Ok(t2) => { diff(&tree, &t2, &mut vec![], &a.bytes, &b2); }, Err(e) => println!("  reenc not wellformed {e:?}") }
                }
            }
        }
    }
    println!("{eras:?}");
}
