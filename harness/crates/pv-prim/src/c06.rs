//! C06 — era ledger codecs: isomorphic on chain data, round-trip on generated values (DESIGN §C06).
use crate::gen::G;
use crate::placement;
use crate::util::{diff_signature, tree_diffs, Arena};
use pallas_codec::minicbor;
use pallas_codec::utils::{KeepRaw, NonEmptySet, Nullable, Set};
use pallas_primitives::{alonzo, babbage, byron, conway, Metadata, Metadatum, PlutusData};
use proptest::prelude::*;
use pvkit::cborx::{self, hexser};
use pvkit::{fnv64, hexs, pv_ensure, pv_fail, Fail, Obs, Session};
use serde::{Deserialize, Serialize};
use std::sync::atomic::{AtomicU64, Ordering as AO};

mod shape;
mod shape_ledger;
use shape_ledger as sl;

static UNDECODABLE: AtomicU64 = AtomicU64::new(0);
static UNDECODABLE_UNEXPECTED: AtomicU64 = AtomicU64::new(0);

fn short(b: &[u8]) -> String {
    if b.len() <= 300 {
        hexs(b)
    } else {
        format!("{}…({} bytes)", hexs(&b[..300]), b.len())
    }
}
fn shorts(s: String) -> String {
    if s.len() <= 1500 {
        s
    } else {
        let mut cut = 1500;
        while !s.is_char_boundary(cut) {
            cut -= 1;
        }
        format!("{}…", &s[..cut])
    }
}

// =============================================================================================
// (a) corpus isomorphism
// =============================================================================================

#[derive(Debug, Clone, Serialize, Deserialize)]
pub struct Art {
    pub name: String,
    /// "block" | "tx" | "header"
    pub kind: String,
    #[serde(with = "hexser")]
    pub bytes: Vec<u8>,
}

#[derive(Default)]
struct Parts {
    checked: usize,
    identical: usize,
}

/// `decode(to_vec(inner)) == inner` with full consumption for one `KeepRaw` part (nested KeepRaw
/// children are re-emitted verbatim by the encoder, so each level exercises its own codec).
macro_rules! inner_rt {
    ($label:expr, $ty:ty, $keep:expr, $parts:expr, eq) => {{
        let k = $keep;
        let inner: &$ty = &**k;
        let enc = match minicbor::to_vec(inner) {
            Ok(b) => b,
            Err(e) => pv_fail!(format!("inner-encode-error:{}", $label), "{e}"),
        };
        let mut d = minicbor::Decoder::new(&enc);
        match d.decode::<$ty>() {
            Ok(back) => {
                pv_ensure!(
                    &back == inner,
                    format!("inner-roundtrip-mismatch:{}", $label),
                    "chain value re-encoded as {} decodes to a different value: {} vs original {} (raw {})",
                    short(&enc), shorts(format!("{:?}", back)), shorts(format!("{:?}", inner)), short(k.raw_cbor())
                );
                pv_ensure!(
                    d.position() == enc.len(),
                    format!("inner-not-fully-consumed:{}", $label),
                    "decoder stopped at {} of {} bytes of {}", d.position(), enc.len(), short(&enc)
                );
            }
            Err(e) => pv_fail!(
                format!("inner-decode-error:{}", $label),
                "chain value (raw {}) re-encoded as {} does not decode: {e}", short(k.raw_cbor()), short(&enc)
            ),
        }
        $parts.checked += 1;
        if enc == k.raw_cbor() {
            $parts.identical += 1;
        }
    }};
    ($label:expr, $ty:ty, $keep:expr, $parts:expr, dbg) => {{
        let k = $keep;
        let inner: &$ty = &**k;
        let enc = match minicbor::to_vec(inner) {
            Ok(b) => b,
            Err(e) => pv_fail!(format!("inner-encode-error:{}", $label), "{e}"),
        };
        let mut d = minicbor::Decoder::new(&enc);
        match d.decode::<$ty>() {
            Ok(back) => {
                pv_ensure!(
                    format!("{:?}", back) == format!("{:?}", inner),
                    format!("inner-roundtrip-mismatch:{}", $label),
                    "chain value re-encoded as {} decodes to a different value (raw {})", short(&enc), short(k.raw_cbor())
                );
                pv_ensure!(
                    d.position() == enc.len(),
                    format!("inner-not-fully-consumed:{}", $label),
                    "decoder stopped at {} of {} bytes of {}", d.position(), enc.len(), short(&enc)
                );
            }
            Err(e) => pv_fail!(
                format!("inner-decode-error:{}", $label),
                "chain value (raw {}) re-encoded as {} does not decode: {e}", short(k.raw_cbor()), short(&enc)
            ),
        }
        $parts.checked += 1;
        if enc == k.raw_cbor() {
            $parts.identical += 1;
        }
    }};
}

fn walk_aux(a: &KeepRaw<'_, alonzo::AuxiliaryData>, p: &mut Parts) -> Result<(), Fail> {
    inner_rt!("AuxiliaryData", alonzo::AuxiliaryData, a, p, eq);
    Ok(())
}

fn walk_native_pd(
    native: Option<&Vec<KeepRaw<'_, alonzo::NativeScript>>>,
    data: Option<&Vec<KeepRaw<'_, PlutusData>>>,
    p: &mut Parts,
) -> Result<(), Fail> {
    for n in native.into_iter().flatten() {
        inner_rt!("NativeScript", alonzo::NativeScript, n, p, eq);
    }
    for d in data.into_iter().flatten() {
        inner_rt!("PlutusData", PlutusData, d, p, eq);
        // PlutusData's == ignores def/indef flags; the Debug rendering does not
        let enc = minicbor::to_vec(&**d).unwrap();
        let back: PlutusData = minicbor::decode(&enc).unwrap();
        pv_ensure!(
            format!("{:?}", back) == format!("{:?}", **d),
            "inner-roundtrip-mismatch:PlutusData(structural)",
            "datum {} re-encoded as {} decodes to a structurally different value", short(d.raw_cbor()), short(&enc)
        );
    }
    Ok(())
}

fn walk_alonzo_wits(w: &KeepRaw<'_, alonzo::WitnessSet<'_>>, p: &mut Parts) -> Result<(), Fail> {
    inner_rt!("alonzo::WitnessSet", alonzo::WitnessSet<'_>, w, p, eq);
    walk_native_pd(w.native_script.as_ref(), w.plutus_data.as_ref(), p)
}
fn walk_babbage_wits(w: &KeepRaw<'_, babbage::WitnessSet<'_>>, p: &mut Parts) -> Result<(), Fail> {
    inner_rt!("babbage::WitnessSet", babbage::WitnessSet<'_>, w, p, eq);
    walk_native_pd(w.native_script.as_ref(), w.plutus_data.as_ref(), p)
}
fn walk_conway_wits(w: &KeepRaw<'_, conway::WitnessSet<'_>>, p: &mut Parts) -> Result<(), Fail> {
    inner_rt!("conway::WitnessSet", conway::WitnessSet<'_>, w, p, eq);
    let native: Option<Vec<KeepRaw<'_, alonzo::NativeScript>>> = w.native_script.as_ref().map(|s| s.iter().cloned().collect());
    let data: Option<Vec<KeepRaw<'_, PlutusData>>> = w.plutus_data.as_ref().map(|s| s.iter().cloned().collect());
    if let Some(d) = &w.plutus_data {
        inner_rt!("NonEmptySet<KeepRaw<PlutusData>>", pallas_codec::utils::NonEmptySet<KeepRaw<'_, PlutusData>>, d, p, eq);
    }
    if let Some(r) = &w.redeemer {
        inner_rt!("conway::Redeemers", conway::Redeemers, r, p, eq);
    }
    walk_native_pd(native.as_ref(), data.as_ref(), p)
}

fn walk_datum_option(d: &KeepRaw<'_, babbage::DatumOption<'_>>, p: &mut Parts) -> Result<(), Fail> {
    inner_rt!("DatumOption", babbage::DatumOption<'_>, d, p, eq);
    if let babbage::DatumOption::Data(w) = &**d {
        let k: &KeepRaw<'_, PlutusData> = &w.0;
        inner_rt!("PlutusData", PlutusData, k, p, eq);
    }
    Ok(())
}

fn walk_babbage_output(o: &babbage::TransactionOutput<'_>, p: &mut Parts) -> Result<(), Fail> {
    match o {
        babbage::TransactionOutput::Legacy(l) => {
            inner_rt!("alonzo::TransactionOutput", alonzo::TransactionOutput, l, p, eq);
        }
        babbage::TransactionOutput::PostAlonzo(x) => {
            inner_rt!("babbage::PostAlonzoTransactionOutput", babbage::PostAlonzoTransactionOutput<'_>, x, p, eq);
            if let Some(d) = &x.datum_option {
                walk_datum_option(d, p)?;
            }
            if let Some(s) = &x.script_ref {
                if let babbage::ScriptRef::NativeScript(n) = &s.0 {
                    inner_rt!("NativeScript", alonzo::NativeScript, n, p, eq);
                }
            }
        }
    }
    Ok(())
}
fn walk_conway_output(o: &conway::TransactionOutput<'_>, p: &mut Parts) -> Result<(), Fail> {
    match o {
        conway::TransactionOutput::Legacy(l) => {
            inner_rt!("alonzo::TransactionOutput", alonzo::TransactionOutput, l, p, eq);
        }
        conway::TransactionOutput::PostAlonzo(x) => {
            inner_rt!("conway::PostAlonzoTransactionOutput", conway::PostAlonzoTransactionOutput<'_>, x, p, eq);
            if let Some(d) = &x.datum_option {
                walk_datum_option(d, p)?;
            }
            if let Some(s) = &x.script_ref {
                if let conway::ScriptRef::NativeScript(n) = &s.0 {
                    inner_rt!("NativeScript", alonzo::NativeScript, n, p, eq);
                }
            }
        }
    }
    Ok(())
}

/// `native` = the codec is the one of the artefact's own era (only then must the decoded fields agree
/// with an independent reading of the bytes: a later era's codec legitimately does not know e.g. the
/// certificate kinds of an earlier era and maps the whole optional field to None)
fn walk_alonzo_body(b: &KeepRaw<'_, alonzo::TransactionBody>, p: &mut Parts, native: bool) -> Result<(), Fail> {
    inner_rt!("alonzo::TransactionBody", alonzo::TransactionBody, b, p, eq);
    if !native {
        return Ok(());
    }
    placement::alonzo_body(b.raw_cbor(), b)
}
fn walk_babbage_body(b: &KeepRaw<'_, babbage::TransactionBody<'_>>, p: &mut Parts, native: bool) -> Result<(), Fail> {
    inner_rt!("babbage::TransactionBody", babbage::TransactionBody<'_>, b, p, eq);
    if native {
        placement::babbage_body(b.raw_cbor(), b)?;
    }
    for o in b.outputs.iter() {
        inner_rt!("babbage::TransactionOutput", babbage::TransactionOutput<'_>, o, p, eq);
        walk_babbage_output(o, p)?;
    }
    if let Some(o) = &b.collateral_return {
        inner_rt!("babbage::TransactionOutput", babbage::TransactionOutput<'_>, o, p, eq);
        walk_babbage_output(o, p)?;
    }
    Ok(())
}
fn walk_conway_body(b: &KeepRaw<'_, conway::TransactionBody<'_>>, p: &mut Parts, native: bool) -> Result<(), Fail> {
    inner_rt!("conway::TransactionBody", conway::TransactionBody<'_>, b, p, eq);
    if native {
        placement::conway_body(b.raw_cbor(), b)?;
    }
    for o in b.outputs.iter() {
        walk_conway_output(o, p)?;
    }
    if let Some(o) = &b.collateral_return {
        walk_conway_output(o, p)?;
    }
    Ok(())
}

/// header bytes taken out of a block are chain artefacts of their own: strict isomorphism
fn header_iso<T>(label: &str, raw: &[u8]) -> Result<(), Fail>
where
    T: for<'b> minicbor::Decode<'b, ()> + minicbor::Encode<()>,
{
    let h: T = match minicbor::decode(raw) {
        Ok(h) => h,
        Err(e) => pv_fail!(format!("header-decode-error:{label}"), "header {} taken from a decoded block does not decode on its own: {e}", short(raw)),
    };
    let re = minicbor::to_vec(&h).map_err(|e| Fail { sig: format!("header-encode-error:{label}"), msg: e.to_string() })?;
    if re != raw {
        let sig = match (cborx::read(raw), cborx::read(&re)) {
            (Ok(a), Ok(b)) => diff_signature(&tree_diffs(&a, &b)),
            _ => "reencoding-malformed".into(),
        };
        pv_fail!(
            format!("c06-not-isomorphic:header:{label}:{sig}"),
            "header {} re-encodes to {}", short(raw), short(&re)
        );
    }
    Ok(())
}

fn not_iso(family: &str, name: &str, orig: &[u8], re: &[u8]) -> Fail {
    let (sig, detail) = match (cborx::read(orig), cborx::read(re)) {
        (Ok(a), Ok(b)) => {
            let d = tree_diffs(&a, &b);
            (diff_signature(&d), format!("{} differing node(s): {:?}", d.len(), d.iter().take(6).collect::<Vec<_>>()))
        }
        (Ok(_), Err(e)) => ("reencoding-malformed".to_string(), format!("re-encoding is not well-formed CBOR: {e:?}")),
        (Err(e), _) => ("original-malformed".to_string(), format!("artefact is not well-formed CBOR: {e:?}")),
    };
    Fail {
        sig: format!("c06-not-isomorphic:{family}:{sig}"),
        msg: format!(
            "{name}: decodes, but re-encoding gives different bytes ({} vs {} bytes); {detail}",
            orig.len(), re.len()
        ),
    }
}

const EXPECTED_UNDECODABLE: [&str; 1] = ["conway8.block"];

fn undecodable(a: &Art, obs: &mut Obs, err: String) -> Result<(), Fail> {
    // the property quantifies over artefacts the library decodes
    UNDECODABLE.fetch_add(1, AO::Relaxed);
    if !EXPECTED_UNDECODABLE.contains(&a.name.as_str()) {
        UNDECODABLE_UNEXPECTED.fetch_add(1, AO::Relaxed);
        eprintln!("[C06] note: {} does not decode: {err}", a.name);
    }
    obs.discard();
    Ok(())
}

fn finish_parts(family: &str, p: &Parts, obs: &mut Obs) {
    obs.class(format!("{family}:inner-parts:{}", match p.checked {
        0 => "0",
        1..=3 => "1..3",
        4..=20 => "4..20",
        _ => ">20",
    }));
    if p.checked > 0 {
        obs.class(if p.identical == p.checked { "inner-reencoding:all-identical-to-raw" } else { "inner-reencoding:some-differ-from-raw(allowed)" });
    }
}

fn check_block(a: &Art, obs: &mut Obs) -> Result<(), Fail> {
    let tree = match cborx::read(&a.bytes) {
        Ok(t) => t,
        Err(e) => return undecodable(a, obs, format!("not well-formed: {e:?}")),
    };
    let era = tree.as_array().and_then(|v| v.first()).and_then(|n| n.as_u64());
    let mut p = Parts::default();
    let ntx;
    let family;
    let re: Vec<u8>;
    macro_rules! enc {
        ($v:expr) => {
            minicbor::to_vec($v).map_err(|e| Fail { sig: "encode-error:block".into(), msg: format!("{}: {e}", a.name) })?
        };
    }
    match era {
        Some(0) => {
            family = "byron-ebb";
            let b: (u16, byron::EbBlock) = match minicbor::decode(&a.bytes) {
                Ok(b) => b,
                Err(e) => return undecodable(a, obs, e.to_string()),
            };
            re = enc!(&b);
            ntx = 0;
            header_iso::<byron::EbbHead>("byron::EbbHead", b.1.header.raw_cbor())?;
            inner_rt!("byron::EbbHead", byron::EbbHead, &b.1.header, p, dbg);
        }
        Some(1) => {
            family = "byron";
            let b: (u16, byron::Block) = match minicbor::decode(&a.bytes) {
                Ok(b) => b,
                Err(e) => return undecodable(a, obs, e.to_string()),
            };
            re = enc!(&b);
            ntx = b.1.body.tx_payload.len();
            header_iso::<byron::BlockHead>("byron::BlockHead", b.1.header.raw_cbor())?;
            inner_rt!("byron::BlockHead", byron::BlockHead, &b.1.header, p, dbg);
            for t in b.1.body.tx_payload.iter() {
                inner_rt!("byron::Tx", byron::Tx, &t.transaction, p, eq);
                inner_rt!("byron::Witnesses", byron::Witnesses, &t.witness, p, dbg);
            }
        }
        Some(2..=5) => {
            family = "alonzo-compatible";
            let b: (u16, alonzo::Block) = match minicbor::decode(&a.bytes) {
                Ok(b) => b,
                Err(e) => return undecodable(a, obs, e.to_string()),
            };
            re = enc!(&b);
            ntx = b.1.transaction_bodies.len();
            header_iso::<alonzo::Header>("alonzo::Header", b.1.header.raw_cbor())?;
            inner_rt!("alonzo::Header", alonzo::Header, &b.1.header, p, eq);
            placement::alonzo_header(b.1.header.raw_cbor(), &b.1.header)?;
            for x in b.1.transaction_bodies.iter() {
                walk_alonzo_body(x, &mut p, true)?;
            }
            for x in b.1.transaction_witness_sets.iter() {
                walk_alonzo_wits(x, &mut p)?;
            }
            for x in b.1.auxiliary_data_set.values() {
                walk_aux(x, &mut p)?;
            }
        }
        Some(6) => {
            family = "babbage";
            let b: (u16, babbage::Block) = match minicbor::decode(&a.bytes) {
                Ok(b) => b,
                Err(e) => return undecodable(a, obs, e.to_string()),
            };
            re = enc!(&b);
            ntx = b.1.transaction_bodies.len();
            header_iso::<babbage::Header>("babbage::Header", b.1.header.raw_cbor())?;
            inner_rt!("babbage::Header", babbage::Header, &b.1.header, p, eq);
            placement::babbage_header(b.1.header.raw_cbor(), &b.1.header)?;
            for x in b.1.transaction_bodies.iter() {
                walk_babbage_body(x, &mut p, true)?;
            }
            for x in b.1.transaction_witness_sets.iter() {
                walk_babbage_wits(x, &mut p)?;
            }
            for x in b.1.auxiliary_data_set.values() {
                walk_aux(x, &mut p)?;
            }
        }
        Some(7) => {
            family = "conway";
            let b: (u16, conway::Block) = match minicbor::decode(&a.bytes) {
                Ok(b) => b,
                Err(e) => return undecodable(a, obs, e.to_string()),
            };
            re = enc!(&b);
            ntx = b.1.transaction_bodies.len();
            header_iso::<babbage::Header>("babbage::Header", b.1.header.raw_cbor())?;
            inner_rt!("babbage::Header", babbage::Header, &b.1.header, p, eq);
            placement::babbage_header(b.1.header.raw_cbor(), &b.1.header)?;
            for x in b.1.transaction_bodies.iter() {
                walk_conway_body(x, &mut p, true)?;
            }
            for x in b.1.transaction_witness_sets.iter() {
                walk_conway_wits(x, &mut p)?;
            }
            for x in b.1.auxiliary_data_set.values() {
                walk_aux(x, &mut p)?;
            }
        }
        _ => return undecodable(a, obs, format!("unknown era tag {era:?}")),
    }
    obs.class(format!("block:{family}"));
    obs.class(format!("block:{family}:txs:{}", match ntx {
        0 => "0",
        1..=23 => "1..23",
        _ => ">=24",
    }));
    finish_parts(family, &p, obs);
    if ntx > 0 {
        obs.nontrivial_key(fnv64(&a.bytes));
    }
    if re != a.bytes {
        return Err(not_iso("block", &a.name, &a.bytes, &re));
    }
    Ok(())
}

fn check_tx(a: &Art, obs: &mut Obs) -> Result<(), Fail> {
    // every transaction codec that accepts the artefact must reproduce it (MultiEraTx::decode tries
    // conway, babbage, alonzo, byron in this order)
    let mut decoded_by = vec![];
    let mut p = Parts::default();
    // the artefact's own era, from the file name (unknown for the few files not named after an era)
    let native = ["byron", "shelley", "allegra", "mary", "alonzo", "babbage", "conway"]
        .iter()
        .find(|e| a.name.starts_with(**e))
        .map(|e| match *e {
            "shelley" | "allegra" | "mary" => "alonzo",
            x => x,
        })
        .unwrap_or("unknown");
    if let Ok(tx) = minicbor::decode::<conway::Tx>(&a.bytes) {
        decoded_by.push("conway");
        let re = minicbor::to_vec(&tx).map_err(|e| Fail { sig: "encode-error:tx".into(), msg: e.to_string() })?;
        if re != a.bytes {
            return Err(not_iso("tx/conway", &a.name, &a.bytes, &re));
        }
        walk_conway_body(&tx.transaction_body, &mut p, native == "conway")?;
        walk_conway_wits(&tx.transaction_witness_set, &mut p)?;
        if let Nullable::Some(x) = &tx.auxiliary_data {
            walk_aux(x, &mut p)?;
        }
    }
    if let Ok(tx) = minicbor::decode::<babbage::Tx>(&a.bytes) {
        decoded_by.push("babbage");
        let re = minicbor::to_vec(&tx).map_err(|e| Fail { sig: "encode-error:tx".into(), msg: e.to_string() })?;
        if re != a.bytes {
            return Err(not_iso("tx/babbage", &a.name, &a.bytes, &re));
        }
        walk_babbage_body(&tx.transaction_body, &mut p, native == "babbage")?;
        walk_babbage_wits(&tx.transaction_witness_set, &mut p)?;
        if let Nullable::Some(x) = &tx.auxiliary_data {
            walk_aux(x, &mut p)?;
        }
    }
    if let Ok(tx) = minicbor::decode::<alonzo::Tx>(&a.bytes) {
        decoded_by.push("alonzo");
        let re = minicbor::to_vec(&tx).map_err(|e| Fail { sig: "encode-error:tx".into(), msg: e.to_string() })?;
        if re != a.bytes {
            return Err(not_iso("tx/alonzo", &a.name, &a.bytes, &re));
        }
        walk_alonzo_body(&tx.transaction_body, &mut p, native == "alonzo")?;
        walk_alonzo_wits(&tx.transaction_witness_set, &mut p)?;
        if let Nullable::Some(x) = &tx.auxiliary_data {
            walk_aux(x, &mut p)?;
        }
    }
    if let Ok(tx) = minicbor::decode::<byron::TxPayload>(&a.bytes) {
        decoded_by.push("byron");
        let re = minicbor::to_vec(&tx).map_err(|e| Fail { sig: "encode-error:tx".into(), msg: e.to_string() })?;
        if re != a.bytes {
            return Err(not_iso("tx/byron", &a.name, &a.bytes, &re));
        }
        inner_rt!("byron::Tx", byron::Tx, &tx.transaction, p, eq);
        inner_rt!("byron::Witnesses", byron::Witnesses, &tx.witness, p, dbg);
    }
    if decoded_by.is_empty() {
        return undecodable(a, obs, "no transaction codec accepts it".into());
    }
    obs.class(format!("tx:decoded-by:{}", decoded_by.join("+")));
    finish_parts("tx", &p, obs);
    obs.nontrivial_key(fnv64(&a.bytes));
    Ok(())
}

fn check_header(a: &Art, obs: &mut Obs) -> Result<(), Fail> {
    let mut n = 0;
    macro_rules! try_header {
        ($ty:ty, $label:expr) => {
            if let Ok(h) = minicbor::decode::<$ty>(&a.bytes) {
                n += 1;
                let re = minicbor::to_vec(&h).map_err(|e| Fail { sig: "encode-error:header".into(), msg: e.to_string() })?;
                if re != a.bytes {
                    return Err(not_iso(concat!("header/", $label), &a.name, &a.bytes, &re));
                }
                obs.class(concat!("header:decoded-by:", $label));
            }
        };
    }
    try_header!(alonzo::Header, "alonzo");
    try_header!(babbage::Header, "babbage");
    try_header!(byron::BlockHead, "byron");
    try_header!(byron::EbbHead, "byron-ebb");
    if n == 0 {
        return undecodable(a, obs, "no header codec accepts it".into());
    }
    // a header is a "non-trivial" artefact of its own kind only in the sense of being chain data
    obs.nontrivial_key(fnv64(&a.bytes));
    Ok(())
}

fn check_artefact(a: &Art, obs: &mut Obs) -> Result<(), Fail> {
    match a.kind.as_str() {
        "block" => check_block(a, obs),
        "tx" => check_tx(a, obs),
        "header" => check_header(a, obs),
        _ => {
            obs.discard();
            Ok(())
        }
    }
}

// =============================================================================================
// (a'') the same artefacts in the other container framing the codecs declare they accept
// =============================================================================================

/// One transaction of test_data with one container re-framed: an output of the body (Babbage / Conway: the codec
/// dispatches `Array | ArrayIndef => Legacy, Map | MapIndef => PostAlonzo`) or the auxiliary data
/// (`Map | MapIndef => Shelley, Array | ArrayIndef => ShelleyMa`) switched between its definite and indefinite form.
/// Both framings are chain-valid and both are named in the codec's own dispatch table, so the variant must decode
/// through every era codec that decodes the original, and re-encode byte-identically.
#[derive(Debug, Clone, Serialize, Deserialize)]
pub struct Framed {
    name: String,
    site: String,
    #[serde(with = "hexser")]
    bytes: Vec<u8>,
    #[serde(with = "hexser")]
    orig: Vec<u8>,
}

fn flip_len(n: &mut cborx::Node) -> Option<&'static str> {
    let cnt = match &n.k {
        cborx::Kind::Array(v, _) => v.len() as u64,
        cborx::Kind::Map(v, _) => v.len() as u64,
        _ => 0,
    };
    match &mut n.k {
        cborx::Kind::Array(_, l) => {
            let to_indef = matches!(l, cborx::Len::Def(_));
            *l = if to_indef { cborx::Len::Indef } else { cborx::Len::Def(cborx::W::min_for(cnt)) };
            Some(if to_indef { "array-to-indef" } else { "array-to-def" })
        }
        cborx::Kind::Map(_, l) => {
            let to_indef = matches!(l, cborx::Len::Def(_));
            *l = if to_indef { cborx::Len::Indef } else { cborx::Len::Def(cborx::W::min_for(cnt)) };
            Some(if to_indef { "map-to-indef" } else { "map-to-def" })
        }
        _ => None,
    }
}

fn framed_variants(arts: &[Art]) -> Vec<Framed> {
    let mut out = vec![];
    for a in arts {
        if a.kind != "tx" || a.name.starts_with("byron") {
            continue;
        }
        let Ok(root) = cborx::read(&a.bytes) else { continue };
        let Some(items) = root.as_array() else { continue };
        if items.len() < 3 {
            continue;
        }
        // outputs (body key 1) and the collateral return (key 16)
        let n_out = items[0].map_get(1).and_then(|o| o.untagged().as_array()).map(|o| o.len()).unwrap_or(0);
        for j in 0..n_out {
            let mut r = root.clone();
            let o = r.as_array_mut().and_then(|v| v.get_mut(0)).and_then(|b| b.map_get_mut(1)).and_then(|o| o.as_array_mut()).and_then(|v| v.get_mut(j));
            if let Some(what) = o.and_then(flip_len) {
                out.push(Framed { name: a.name.clone(), site: format!("output:{what}"), bytes: cborx::write(&r), orig: a.bytes.clone() });
            }
        }
        let mut r = root.clone();
        if let Some(what) = r.as_array_mut().and_then(|v| v.get_mut(0)).and_then(|b| b.map_get_mut(16)).and_then(flip_len) {
            out.push(Framed { name: a.name.clone(), site: format!("collateral-return:{what}"), bytes: cborx::write(&r), orig: a.bytes.clone() });
        }
        let mut r = root.clone();
        let last = items.len() - 1;
        if let Some(what) = r.as_array_mut().and_then(|v| v.get_mut(last)).and_then(flip_len) {
            out.push(Framed { name: a.name.clone(), site: format!("auxiliary-data:{what}"), bytes: cborx::write(&r), orig: a.bytes.clone() });
        }
    }
    out
}

fn check_framed(f: &Framed, obs: &mut Obs) -> Result<(), Fail> {
    let mut n = 0;
    macro_rules! era {
        ($ty:ty, $era:expr, $outputs_declared:expr) => {
            if minicbor::decode::<$ty>(&f.orig).is_ok() && ($outputs_declared || f.site.starts_with("auxiliary-data")) {
                n += 1;
                match minicbor::decode::<$ty>(&f.bytes) {
                    Err(e) => pv_fail!(
                        format!("declared-framing-refused:{}:{}", $era, f.site),
                        "{}: the {} codec decodes the artefact but not the same artefact with its {} ({} bytes): {e}", f.name, $era, f.site, f.bytes.len()
                    ),
                    Ok(tx) => {
                        let re = minicbor::to_vec(&tx).map_err(|e| Fail { sig: "encode-error:tx".into(), msg: e.to_string() })?;
                        if re != f.bytes {
                            return Err(not_iso(&format!("tx/{}:{}", $era, f.site), &f.name, &f.bytes, &re));
                        }
                    }
                }
                obs.class(format!("framed:{}:{}", $era, f.site));
            }
        };
    }
    era!(conway::Tx, "conway", true);
    era!(babbage::Tx, "babbage", true);
    // the Alonzo output is a derived record (no dispatch table): only the auxiliary data is declared there
    era!(alonzo::Tx, "alonzo", false);
    if n == 0 {
        obs.discard();
    } else {
        obs.nontrivial_key(fnv64(&f.bytes));
    }
    Ok(())
}

// =============================================================================================
// (a') Byron chain data: standalone headers and the shape oracle against real bytes
// =============================================================================================

/// decode `raw` on its own as `T` (not wrapped in KeepRaw), require full consumption and a
/// byte-identical re-encoding
fn standalone_iso<'b, T>(label: &str, raw: &'b [u8]) -> Result<T, Fail>
where
    T: minicbor::Decode<'b, ()> + minicbor::Encode<()>,
{
    let mut d = minicbor::Decoder::new(raw);
    let v: T = match d.decode() {
        Ok(v) => v,
        Err(e) => pv_fail!(
            format!("standalone-decode-error:{label}"),
            "{} cut out of a block the library decodes does not decode on its own as {label}: {e}", short(raw)
        ),
    };
    pv_ensure!(
        d.position() == raw.len(),
        format!("standalone-not-fully-consumed:{label}"),
        "decoder stopped at {} of {} bytes of {}", d.position(), raw.len(), short(raw)
    );
    let re = minicbor::to_vec(&v).map_err(|e| Fail { sig: format!("standalone-encode-error:{label}"), msg: e.to_string() })?;
    if re != raw {
        let sig = match (cborx::read(raw), cborx::read(&re)) {
            (Ok(a), Ok(b)) => diff_signature(&tree_diffs(&a, &b)),
            _ => "reencoding-malformed".into(),
        };
        pv_fail!(
            format!("c06-not-isomorphic:standalone:{label}:{sig}"),
            "{label} {} decoded on its own re-encodes to {}", short(raw), short(&re)
        );
    }
    Ok(v)
}

fn chain_classes_head(h: &byron::BlockHead, obs: &mut Obs) {
    obs.class(format!("chain:byron::SscProof::Variant{}", match h.body_proof.ssc_proof {
        byron::SscProof::Variant0(..) => 0,
        byron::SscProof::Variant1(..) => 1,
        byron::SscProof::Variant2(..) => 2,
        byron::SscProof::Variant3(..) => 3,
    }));
    obs.class(format!("chain:byron::BlockSig::{}", match h.consensus_data.3 {
        byron::BlockSig::Signature(..) => "Signature",
        byron::BlockSig::LwdlgSig(..) => "LwdlgSig",
        byron::BlockSig::DlgSig(..) => "DlgSig",
    }));
    obs.class(format!("chain:byron::BlockHeadEx.attributes:{}", h.extra_data.attributes.is_some() as u8));
}

fn chain_classes_body(b: &byron::BlockBody, obs: &mut Obs) {
    let (v, certs) = match &b.ssc_payload {
        byron::Ssc::Variant0(c, certs) => {
            if !c.0.is_empty() {
                obs.class("chain:byron::SscComms:nonempty");
            }
            (0, certs)
        }
        byron::Ssc::Variant1(o, certs) => {
            if !o.is_empty() {
                obs.class("chain:byron::SscOpens:nonempty");
            }
            (1, certs)
        }
        byron::Ssc::Variant2(s, certs) => {
            if !s.is_empty() {
                obs.class("chain:byron::SscShares:nonempty");
            }
            (2, certs)
        }
        byron::Ssc::Variant3(certs) => (3, certs),
    };
    obs.class(format!("chain:byron::Ssc::Variant{v}"));
    if !certs.0.is_empty() {
        obs.class("chain:byron::SscCerts:nonempty");
    }
    if !b.dlg_payload.is_empty() {
        obs.class("chain:byron::Dlg");
    }
    if let Some(p) = &*b.upd_payload.proposal {
        obs.class("chain:byron::UpProp");
        if let Some(m) = &p.block_version_mod {
            obs.class("chain:byron::BVerMod");
            if m.tx_fee_policy.is_some() {
                obs.class("chain:byron::TxFeePol");
            }
        }
    }
    if !b.upd_payload.votes.is_empty() {
        obs.class("chain:byron::UpVote");
    }
    for t in b.tx_payload.iter() {
        for w in t.witness.iter() {
            obs.class(format!("chain:byron::Twit::{}", match w {
                byron::Twit::PkWitness(..) => "PkWitness",
                byron::Twit::ScriptWitness(..) => "ScriptWitness",
                byron::Twit::RedeemWitness(..) => "RedeemWitness",
                byron::Twit::Other(..) => "Other",
            }));
        }
    }
}

/// Byron artefacts only (everything else is discarded): the header is cut out of the block with
/// cborx - not taken from the library's KeepRaw - decoded on its own and re-encoded; the decoded
/// header and the decoded block are compared with the chain bytes through the shape oracle.
fn check_byron_chain(a: &Art, obs: &mut Obs) -> Result<(), Fail> {
    let tree = match cborx::read(&a.bytes) {
        Ok(t) => t,
        Err(_) => {
            obs.discard();
            return Ok(());
        }
    };
    match a.kind.as_str() {
        "block" => {
            let era = tree.as_array().and_then(|v| v.first()).and_then(|n| n.as_u64());
            let hdr = tree.as_array().and_then(|v| v.get(1)).and_then(|b| b.as_array()).and_then(|b| b.first());
            let (Some(era @ 0..=1), Some(hdr)) = (era, hdr) else {
                obs.discard();
                return Ok(());
            };
            let raw_hdr = hdr.span(&a.bytes);
            if era == 0 {
                let b: (u16, byron::EbBlock) = match minicbor::decode(&a.bytes) {
                    Ok(b) => b,
                    Err(e) => return undecodable(a, obs, e.to_string()),
                };
                let h: byron::EbbHead = standalone_iso("byron::EbbHead", raw_hdr)?;
                shape_check("byron::EbbHead", "chain", &shape::ebb_head(&h), raw_hdr)?;
                shape_check("byron::EbBlock", "chain", &shape::wrapped(0, shape::eb_block(&b.1)), &a.bytes)?;
                obs.class("chain:byron::EbbHead");
            } else {
                let b: (u16, byron::Block) = match minicbor::decode(&a.bytes) {
                    Ok(b) => b,
                    Err(e) => return undecodable(a, obs, e.to_string()),
                };
                let h: byron::BlockHead = standalone_iso("byron::BlockHead", raw_hdr)?;
                shape_check("byron::BlockHead", "chain", &shape::block_head(&h), raw_hdr)?;
                shape_check("byron::Block", "chain", &shape::wrapped(1, shape::block(&b.1)), &a.bytes)?;
                obs.class("chain:byron::BlockHead");
                chain_classes_head(&h, obs);
                chain_classes_body(&b.1.body, obs);
            }
        }
        "header" => {
            // a header file: [magic, prev, proof, consensus, extra]; Byron main headers carry an array as third item
            let is_byron = tree.as_array().map(|v| v.len() == 5 && v[0].as_u64().is_some()).unwrap_or(false);
            if !is_byron {
                obs.discard();
                return Ok(());
            }
            if tree.as_array().map(|v| v[2].as_array().is_some()).unwrap_or(false) {
                let h: byron::BlockHead = standalone_iso("byron::BlockHead", &a.bytes)?;
                shape_check("byron::BlockHead", "chain", &shape::block_head(&h), &a.bytes)?;
                obs.class("chain:byron::BlockHead(file)");
                chain_classes_head(&h, obs);
            } else {
                let h: byron::EbbHead = standalone_iso("byron::EbbHead", &a.bytes)?;
                shape_check("byron::EbbHead", "chain", &shape::ebb_head(&h), &a.bytes)?;
                obs.class("chain:byron::EbbHead(file)");
            }
        }
        "tx" => {
            if !a.name.starts_with("byron") {
                obs.discard();
                return Ok(());
            }
            let t: byron::TxPayload = match minicbor::decode(&a.bytes) {
                Ok(t) => t,
                Err(e) => return undecodable(a, obs, e.to_string()),
            };
            shape_check("byron::TxPayload", "chain", &shape::tx_payload(&t), &a.bytes)?;
            obs.class("chain:byron::TxPayload(file)");
        }
        _ => {
            obs.discard();
            return Ok(());
        }
    }
    obs.nontrivial_key(fnv64(&a.bytes));
    Ok(())
}

// =============================================================================================
// (b) generated values
// =============================================================================================

#[derive(Debug, Clone, Serialize, Deserialize)]
pub struct ValueCase {
    /// which type to build
    pub ty: String,
    /// the choice sequence the builder consumes (see util::Src); plain data, no seed
    pub choices: Vec<u64>,
}

pub const TYPES: [&str; 92] = [
    "Metadatum", "Metadata", "AuxiliaryData", "Relay", "RationalNumber", "StakeCredential", "Nonce", "PoolMetadata",
    "ExUnits", "ExUnitPrices", "TransactionInput", "NativeScript", "MoveInstantaneousReward",
    "alonzo::Value", "conway::Value", "alonzo::Mint", "conway::Mint",
    "alonzo::Certificate", "conway::Certificate", "DRep", "Voter", "Anchor", "GovActionId", "GovAction", "Constitution",
    "ProposalProcedure", "VotingProcedures",
    "alonzo::ProtocolParamUpdate", "babbage::ProtocolParamUpdate", "conway::ProtocolParamUpdate",
    "alonzo::CostModels", "babbage::CostModels", "conway::CostModels", "alonzo::Update", "babbage::Update",
    "alonzo::Redeemer", "conway::Redeemer", "conway::Redeemers",
    "DatumOption", "babbage::ScriptRef", "conway::ScriptRef",
    "alonzo::TransactionOutput", "babbage::TransactionOutput", "conway::TransactionOutput",
    "alonzo::TransactionBody", "babbage::TransactionBody", "conway::TransactionBody",
    "alonzo::WitnessSet", "babbage::WitnessSet", "conway::WitnessSet",
    "babbage::PostAlonzoAuxiliaryData", "conway::PostAlonzoAuxiliaryData",
    "alonzo::Header", "babbage::Header",
    "alonzo::Tx", "babbage::Tx", "conway::Tx",
    "alonzo::Block", "babbage::Block", "conway::Block",
    "byron::TxIn+Twit+TxOut", "byron::Tx",
    // round 4: every remaining Byron model type (value round trip + shape oracle) and the few post-Byron types
    // no other family reached
    "byron::SlotId", "byron::Address", "byron::Witnesses", "byron::TxPayload", "byron::SscProof", "byron::Ssc",
    "byron::Dlg", "byron::Lwdlg", "byron::TxFeePol", "byron::BVerMod", "byron::UpProp", "byron::UpVote", "byron::Up",
    "byron::BlockSig", "byron::BlockCons", "byron::BlockHeadEx", "byron::BlockProof", "byron::BlockHead",
    "byron::EbbCons", "byron::EbbHead", "byron::BlockBody", "byron::Block", "byron::EbBlock",
    "alonzo::RedeemerPointer", "babbage::PostAlonzoTransactionOutput", "conway::PostAlonzoTransactionOutput",
    "conway::Update", "Language", "PlutusData", "Set+NonEmptySet",
];

/// encode, check well-formedness with cborx, decode, compare, check full consumption
macro_rules! rt {
    ($label:expr, $ty:ty, $v:expr, $g:expr, $key:expr, eq) => {{
        let v: $ty = $v;
        if let Some(f) = $g.nested_fail.take() {
            return Err(f);
        }
        let bytes = match minicbor::to_vec(&v) {
            Ok(b) => b,
            Err(e) => pv_fail!(format!("encode-error:{}", $label), "{:?}: {e}", v),
        };
        if let Err(e) = cborx::read(&bytes) {
            pv_fail!(format!("encoding-not-wellformed:{}", $label), "{} is not one well-formed item: {e:?} (value {})", short(&bytes), shorts(format!("{:?}", v)));
        }
        let mut d = minicbor::Decoder::new(&bytes);
        match d.decode::<$ty>() {
            Ok(back) => {
                pv_ensure!(
                    back == v,
                    format!("roundtrip-mismatch:{}", $label),
                    "value {} encodes to {} which decodes to {}", shorts(format!("{:?}", v)), short(&bytes), shorts(format!("{:?}", back))
                );
                pv_ensure!(
                    d.position() == bytes.len(),
                    format!("not-fully-consumed:{}", $label),
                    "decoder stopped at {} of {} bytes of {}", d.position(), bytes.len(), short(&bytes)
                );
            }
            Err(e) => pv_fail!(
                format!("decode-error:{}", $label),
                "value {} encodes to {} which the library cannot decode: {e}", shorts(format!("{:?}", v)), short(&bytes)
            ),
        }
        *$key ^= fnv64(&bytes);
    }};
    ($label:expr, $ty:ty, $v:expr, $g:expr, $key:expr, dbg) => {{
        let v: $ty = $v;
        if let Some(f) = $g.nested_fail.take() {
            return Err(f);
        }
        let bytes = match minicbor::to_vec(&v) {
            Ok(b) => b,
            Err(e) => pv_fail!(format!("encode-error:{}", $label), "{:?}: {e}", v),
        };
        if let Err(e) = cborx::read(&bytes) {
            pv_fail!(format!("encoding-not-wellformed:{}", $label), "{} is not one well-formed item: {e:?}", short(&bytes));
        }
        let mut d = minicbor::Decoder::new(&bytes);
        match d.decode::<$ty>() {
            Ok(back) => {
                pv_ensure!(
                    format!("{:?}", back) == format!("{:?}", v),
                    format!("roundtrip-mismatch:{}", $label),
                    "value {} encodes to {} which decodes to {}", shorts(format!("{:?}", v)), short(&bytes), shorts(format!("{:?}", back))
                );
                pv_ensure!(
                    d.position() == bytes.len(),
                    format!("not-fully-consumed:{}", $label),
                    "decoder stopped at {} of {} bytes of {}", d.position(), bytes.len(), short(&bytes)
                );
            }
            Err(e) => pv_fail!(
                format!("decode-error:{}", $label),
                "value {} encodes to {} which the library cannot decode: {e}", shorts(format!("{:?}", v)), short(&bytes)
            ),
        }
        *$key ^= fnv64(&bytes);
    }};
}

/// The item found (encoder output or chain bytes) must have the shape the Byron CDDL gives the value.
fn shape_check(label: &str, origin: &str, exp: &shape::E, bytes: &[u8]) -> Result<(), Fail> {
    let got = match cborx::read(bytes) {
        Ok(n) => n,
        Err(e) => pv_fail!(format!("shape-mismatch:{origin}:{label}:not-wellformed"), "{} is not one well-formed item: {e:?}", short(bytes)),
    };
    let d = shape::diffs(exp, &got);
    if !d.is_empty() {
        pv_fail!(
            format!("shape-mismatch:{origin}:{label}:{}", shape::signature(&d)),
            "{label}: {} does not have the shape the CDDL gives this value: {}",
            short(bytes),
            shorts(d.iter().map(|x| format!("{} {} {}", x.path, x.what, x.detail)).collect::<Vec<_>>().join("; "))
        );
    }
    Ok(())
}

fn aux_raw<'x>(a: &'x Nullable<KeepRaw<'_, alonzo::AuxiliaryData>>) -> Nullable<&'x [u8]> {
    match a {
        Nullable::Some(k) => Nullable::Some(k.raw_cbor()),
        Nullable::Null => Nullable::Null,
        Nullable::Undefined => Nullable::Undefined,
    }
}
fn alonzo_tx_shape(v: &alonzo::Tx) -> shape::E {
    sl::tx_envelope(v.transaction_body.raw_cbor(), v.transaction_witness_set.raw_cbor(), v.success, aux_raw(&v.auxiliary_data))
}
fn babbage_tx_shape(v: &babbage::Tx) -> shape::E {
    sl::tx_envelope(v.transaction_body.raw_cbor(), v.transaction_witness_set.raw_cbor(), v.success, aux_raw(&v.auxiliary_data))
}
fn conway_tx_shape(v: &conway::Tx) -> shape::E {
    sl::tx_envelope(v.transaction_body.raw_cbor(), v.transaction_witness_set.raw_cbor(), v.success, aux_raw(&v.auxiliary_data))
}
fn set_inputs_shape(v: &Set<pallas_primitives::TransactionInput>) -> shape::E {
    sl::set_of(v, sl::input)
}
fn nes_hashes_shape(v: &NonEmptySet<pallas_primitives::Hash<28>>) -> shape::E {
    sl::set_of(v, |h| shape::E::Leaf(cborx::bytes(h.as_ref())))
}

/// `rt!` followed by the shape oracle on the bytes the encoder produced
macro_rules! rts {
    ($label:expr, $ty:ty, $v:expr, $shape:path, $g:expr, $key:expr, $mode:ident) => {{
        let v: $ty = $v;
        let exp = $shape(&v);
        rt!($label, $ty, v.clone(), $g, $key, $mode);
        let bytes = minicbor::to_vec(&v).map_err(|e| Fail { sig: format!("encode-error:{}", $label), msg: e.to_string() })?;
        shape_check($label, "value", &exp, &bytes)?;
    }};
}

fn check_value(c: &ValueCase, obs: &mut Obs) -> Result<(), Fail> {
    let arena = Arena::new();
    let mut g = G::new(&c.choices, &arena);
    let mut key: u64 = fnv64(c.ty.as_bytes());
    let k = &mut key;
    let t = c.ty.as_str();
    match t {
        "Metadatum" => rts!(t, Metadatum, g.metadatum(3), sl::metadatum, g, k, eq),
        "Metadata" => rts!(t, Metadata, g.metadata(), sl::metadata, g, k, eq),
        "AuxiliaryData" => rts!(t, alonzo::AuxiliaryData, g.aux_data(), sl::auxiliary_data, g, k, eq),
        "Relay" => rts!(t, pallas_primitives::Relay, g.relay(), sl::relay, g, k, eq),
        "RationalNumber" => rts!(t, pallas_primitives::RationalNumber, g.rational(), sl::rational, g, k, eq),
        "StakeCredential" => rts!(t, pallas_primitives::StakeCredential, g.stake_cred(), sl::stake_credential, g, k, eq),
        "Nonce" => rts!(t, pallas_primitives::Nonce, g.nonce(), sl::nonce, g, k, eq),
        "PoolMetadata" => rts!(t, pallas_primitives::PoolMetadata, g.pool_metadata(), sl::pool_metadata, g, k, eq),
        "ExUnits" => rts!(t, pallas_primitives::ExUnits, g.exunits(), sl::ex_units, g, k, eq),
        "ExUnitPrices" => rts!(t, pallas_primitives::ExUnitPrices, g.exunit_prices(), sl::ex_unit_prices, g, k, eq),
        "TransactionInput" => rts!(t, pallas_primitives::TransactionInput, g.input(), sl::input, g, k, eq),
        "NativeScript" => rts!(t, alonzo::NativeScript, g.native_script(3), sl::native_script, g, k, eq),
        "MoveInstantaneousReward" => rts!(t, alonzo::MoveInstantaneousReward, g.mir(), sl::mir, g, k, eq),
        "alonzo::Value" => rts!(t, alonzo::Value, g.alonzo_value(), sl::alonzo_value, g, k, eq),
        "conway::Value" => rts!(t, conway::Value, g.conway_value(), sl::conway_value, g, k, eq),
        "alonzo::Mint" => rts!(t, alonzo::Mint, g.alonzo_mint(), sl::alonzo_mint, g, k, eq),
        "conway::Mint" => rts!(t, conway::Mint, g.conway_mint(), sl::conway_mint, g, k, eq),
        "alonzo::Certificate" => rt!(t, alonzo::Certificate, g.alonzo_cert(), g, k, eq),
        "conway::Certificate" => rt!(t, conway::Certificate, g.conway_cert(), g, k, eq),
        "DRep" => rt!(t, conway::DRep, g.drep(), g, k, eq),
        "Voter" => rt!(t, conway::Voter, g.voter(), g, k, eq),
        "Anchor" => rt!(t, conway::Anchor, g.anchor(), g, k, eq),
        "GovActionId" => rt!(t, conway::GovActionId, g.gov_action_id(), g, k, eq),
        "GovAction" => rt!(t, conway::GovAction, g.gov_action(), g, k, eq),
        "Constitution" => rt!(t, conway::Constitution, g.constitution(), g, k, eq),
        "ProposalProcedure" => rt!(t, conway::ProposalProcedure, g.proposal(), g, k, eq),
        "VotingProcedures" => rt!(t, conway::VotingProcedures, g.voting_procedures(), g, k, eq),
        "alonzo::ProtocolParamUpdate" => rt!(t, alonzo::ProtocolParamUpdate, g.alonzo_ppu(), g, k, eq),
        "babbage::ProtocolParamUpdate" => rt!(t, babbage::ProtocolParamUpdate, g.babbage_ppu(), g, k, eq),
        "conway::ProtocolParamUpdate" => rt!(t, conway::ProtocolParamUpdate, g.conway_ppu(false), g, k, eq),
        "alonzo::CostModels" => rts!(t, alonzo::CostModels, g.alonzo_cost_models(), sl::alonzo_cost_models, g, k, eq),
        "babbage::CostModels" => rts!(t, babbage::CostModels, g.babbage_cost_models(), sl::babbage_cost_models, g, k, eq),
        // the only place where cost models of unknown languages (> PlutusV3) are generated
        "conway::CostModels" => {
            let v = g.conway_cost_models(true);
            // a dedicated signature for the one known way this type fails, so that any other
            // mismatch of the same type is still reported
            if !v.unknown.is_empty() {
                if let Ok(bytes) = minicbor::to_vec(&v) {
                    if let Ok(back) = minicbor::decode::<conway::CostModels>(&bytes) {
                        let mut patched = back.clone();
                        patched.unknown = v.unknown.clone();
                        if back != v && back.unknown.is_empty() && patched == v {
                            pv_fail!(
                                "roundtrip-mismatch:conway::CostModels:unknown-languages-dropped",
                                "value {:?} encodes to {} which decodes to {:?}", v, short(&bytes), back
                            );
                        }
                    }
                }
            }
            rts!(t, conway::CostModels, v, sl::conway_cost_models, g, k, eq)
        }
        "alonzo::Update" => rt!(t, alonzo::Update, g.alonzo_update(), g, k, eq),
        "babbage::Update" => rt!(t, babbage::Update, g.babbage_update(), g, k, eq),
        "alonzo::Redeemer" => rts!(t, alonzo::Redeemer, g.alonzo_redeemer(), sl::alonzo_redeemer, g, k, eq),
        "conway::Redeemer" => rts!(t, conway::Redeemer, g.conway_redeemer(), sl::conway_redeemer, g, k, eq),
        "conway::Redeemers" => rts!(t, conway::Redeemers, g.conway_redeemers(), sl::conway_redeemers, g, k, eq),
        "DatumOption" => rts!(t, babbage::DatumOption<'_>, g.datum_option(), sl::datum_option, g, k, eq),
        "babbage::ScriptRef" => rts!(t, babbage::ScriptRef<'_>, g.babbage_script_ref(), sl::babbage_script_ref, g, k, eq),
        "conway::ScriptRef" => rts!(t, conway::ScriptRef<'_>, g.conway_script_ref(), sl::conway_script_ref, g, k, eq),
        "alonzo::TransactionOutput" => rts!(t, alonzo::TransactionOutput, g.alonzo_output(), sl::alonzo_output, g, k, eq),
        "babbage::TransactionOutput" => rts!(t, babbage::TransactionOutput<'_>, g.babbage_output(), sl::babbage_output, g, k, eq),
        "conway::TransactionOutput" => rts!(t, conway::TransactionOutput<'_>, g.conway_output(), sl::conway_output, g, k, eq),
        "alonzo::TransactionBody" => {
            let v = g.alonzo_body();
            let bytes = minicbor::to_vec(&v).map_err(|e| Fail { sig: format!("encode-error:{t}"), msg: e.to_string() })?;
            placement::alonzo_body(&bytes, &v)?;
            rt!(t, alonzo::TransactionBody, v, g, k, eq)
        }
        "babbage::TransactionBody" => {
            let v = g.babbage_body();
            let bytes = minicbor::to_vec(&v).map_err(|e| Fail { sig: format!("encode-error:{t}"), msg: e.to_string() })?;
            placement::babbage_body(&bytes, &v)?;
            rt!(t, babbage::TransactionBody<'_>, v, g, k, eq)
        }
        "conway::TransactionBody" => {
            let v = g.conway_body();
            let bytes = minicbor::to_vec(&v).map_err(|e| Fail { sig: format!("encode-error:{t}"), msg: e.to_string() })?;
            placement::conway_body(&bytes, &v)?;
            rt!(t, conway::TransactionBody<'_>, v, g, k, eq)
        }
        "alonzo::WitnessSet" => rt!(t, alonzo::WitnessSet<'_>, g.alonzo_witness_set(), g, k, eq),
        "babbage::WitnessSet" => rt!(t, babbage::WitnessSet<'_>, g.babbage_witness_set(), g, k, eq),
        "conway::WitnessSet" => rt!(t, conway::WitnessSet<'_>, g.conway_witness_set(), g, k, eq),
        "babbage::PostAlonzoAuxiliaryData" => rt!(t, babbage::PostAlonzoAuxiliaryData, g.babbage_post_alonzo_aux(), g, k, eq),
        "conway::PostAlonzoAuxiliaryData" => rt!(t, conway::PostAlonzoAuxiliaryData, g.conway_post_alonzo_aux(), g, k, eq),
        "alonzo::Header" => {
            let v = g.alonzo_header();
            let bytes = minicbor::to_vec(&v).map_err(|e| Fail { sig: format!("encode-error:{t}"), msg: e.to_string() })?;
            placement::alonzo_header(&bytes, &v)?;
            rt!(t, alonzo::Header, v, g, k, eq)
        }
        "babbage::Header" => {
            let v = g.babbage_header();
            let bytes = minicbor::to_vec(&v).map_err(|e| Fail { sig: format!("encode-error:{t}"), msg: e.to_string() })?;
            placement::babbage_header(&bytes, &v)?;
            rt!(t, babbage::Header, v, g, k, eq)
        }
        "alonzo::Tx" => rts!(t, alonzo::Tx<'_>, g.alonzo_tx(), alonzo_tx_shape, g, k, dbg),
        "babbage::Tx" => rts!(t, babbage::Tx<'_>, g.babbage_tx(), babbage_tx_shape, g, k, dbg),
        "conway::Tx" => rts!(t, conway::Tx<'_>, g.conway_tx(), conway_tx_shape, g, k, eq),
        "alonzo::Block" => rt!(t, alonzo::Block<'_>, g.alonzo_block(), g, k, eq),
        "babbage::Block" => rt!(t, babbage::Block<'_>, g.babbage_block(), g, k, eq),
        "conway::Block" => rt!(t, conway::Block<'_>, g.conway_block(), g, k, eq),
        "byron::TxIn+Twit+TxOut" => {
            rts!("byron::TxIn", byron::TxIn, g.byron_txin(), shape::tx_in, g, k, eq);
            rts!("byron::Twit", byron::Twit, g.byron_twit(), shape::twit, g, k, dbg);
            rts!("byron::TxOut", byron::TxOut, g.byron_txout(), shape::tx_out, g, k, eq);
        }
        "byron::Tx" => rts!(t, byron::Tx, g.byron_tx(), shape::tx, g, k, eq),
        "byron::SlotId" => rts!(t, byron::SlotId, g.byron_slot_id(), shape::slot_id, g, k, dbg),
        "byron::Address" => rts!(t, byron::Address, g.byron_address(), shape::address, g, k, eq),
        "byron::Witnesses" => rts!(t, byron::Witnesses, g.byron_witnesses(), shape::witnesses, g, k, dbg),
        "byron::TxPayload" => rts!(t, byron::TxPayload<'_>, g.byron_tx_payload(), shape::tx_payload, g, k, dbg),
        "byron::SscProof" => rts!(t, byron::SscProof, g.byron_ssc_proof(), shape::ssc_proof, g, k, dbg),
        "byron::Ssc" => rts!(t, byron::Ssc, g.byron_ssc(), shape::ssc, g, k, dbg),
        "byron::Dlg" => rts!(t, byron::Dlg, g.byron_dlg(), shape::dlg, g, k, dbg),
        "byron::Lwdlg" => rts!(t, byron::Lwdlg, g.byron_lwdlg(), shape::lwdlg, g, k, dbg),
        "byron::TxFeePol" => rts!(t, byron::TxFeePol, g.byron_tx_fee_pol(), shape::tx_fee_pol, g, k, dbg),
        "byron::BVerMod" => rts!(t, byron::BVerMod, g.byron_bver_mod(), shape::bver_mod, g, k, dbg),
        "byron::UpProp" => rts!(t, byron::UpProp, g.byron_up_prop(), shape::up_prop, g, k, dbg),
        "byron::UpVote" => rts!(t, byron::UpVote, g.byron_up_vote(), shape::up_vote, g, k, dbg),
        "byron::Up" => rts!(t, byron::Up, g.byron_up(), shape::up, g, k, dbg),
        "byron::BlockSig" => rts!(t, byron::BlockSig, g.byron_block_sig(), shape::block_sig, g, k, dbg),
        "byron::BlockCons" => rts!(t, byron::BlockCons, g.byron_block_cons(), shape::block_cons, g, k, dbg),
        "byron::BlockHeadEx" => rts!(t, byron::BlockHeadEx, g.byron_block_head_ex(), shape::block_head_ex, g, k, dbg),
        "byron::BlockProof" => rts!(t, byron::BlockProof, g.byron_block_proof(), shape::block_proof, g, k, dbg),
        "byron::BlockHead" => rts!(t, byron::BlockHead, g.byron_block_head(), shape::block_head, g, k, dbg),
        "byron::EbbCons" => rts!(t, byron::EbbCons, g.byron_ebb_cons(), shape::ebb_cons, g, k, dbg),
        "byron::EbbHead" => rts!(t, byron::EbbHead, g.byron_ebb_head(), shape::ebb_head, g, k, dbg),
        "byron::BlockBody" => rts!(t, byron::BlockBody<'_>, g.byron_block_body(), shape::block_body, g, k, dbg),
        "byron::Block" => rts!(t, byron::Block<'_>, g.byron_block(), shape::block, g, k, dbg),
        "byron::EbBlock" => rts!(t, byron::EbBlock<'_>, g.byron_eb_block(), shape::eb_block, g, k, dbg),
        "alonzo::RedeemerPointer" => rt!(t, alonzo::RedeemerPointer, g.alonzo_redeemer_pointer(), g, k, eq),
        "babbage::PostAlonzoTransactionOutput" => {
            rts!(t, babbage::PostAlonzoTransactionOutput<'_>, g.babbage_post_alonzo_output(), sl::babbage_post_alonzo_output, g, k, eq)
        }
        "conway::PostAlonzoTransactionOutput" => {
            rts!(t, conway::PostAlonzoTransactionOutput<'_>, g.conway_post_alonzo_output(), sl::conway_post_alonzo_output, g, k, eq)
        }
        "conway::Update" => rt!(t, conway::Update, g.conway_update(), g, k, eq),
        "PlutusData" => rts!(t, PlutusData, g.plutus_data(), sl::plutus_data, g, k, dbg),
        "Set+NonEmptySet" => {
            rts!("Set<TransactionInput>", Set<pallas_primitives::TransactionInput>, g.set_of_inputs(), set_inputs_shape, g, k, eq);
            rts!("NonEmptySet<Hash<28>>", NonEmptySet<pallas_primitives::Hash<28>>, g.nonempty_set_of_hashes(), nes_hashes_shape, g, k, eq);
        }
        "Language" => {
            rt!("alonzo::Language", alonzo::Language, alonzo::Language::PlutusV1, g, k, eq);
            rt!("babbage::Language", babbage::Language, g.babbage_language(), g, k, eq);
            rt!("conway::Language", conway::Language, g.conway_language(), g, k, eq);
        }
        _ => {
            obs.discard();
            return Ok(());
        }
    }
    obs.class(format!("ty:{t}"));
    let mut cl = std::mem::take(&mut g.s.classes);
    cl.sort();
    cl.dedup();
    cl.into_iter().for_each(|c| obs.class(c));
    obs.class(format!("choices-used:{}", match g.s.used() {
        0..=9 => "0..9",
        10..=49 => "10..49",
        50..=199 => "50..199",
        _ => ">=200",
    }));
    if g.s.nontrivial {
        obs.nontrivial_key(key);
    }
    Ok(())
}

/// composite types get three times the weight of the small ones
fn weighted_types() -> Vec<&'static str> {
    let mut v = vec![];
    for t in TYPES {
        let heavy = t.contains("Transaction") || t.contains("WitnessSet") || t.contains("Tx") || t.contains("Block")
            || t.contains("Certificate") || t.contains("ProtocolParamUpdate") || t.contains("GovAction") || t.contains("Proposal")
            || t.contains("AuxiliaryData") || t.contains("Metadat") || t.contains("Redeemers") || t.contains("Update");
        // the Byron families added in round 4: composite ones 3, the others 2
        let byron4 = t.starts_with("byron::") && t != "byron::Tx" && t != "byron::TxIn+Twit+TxOut";
        let byron_heavy = byron4 && (heavy || t.contains("Ssc") || t.contains("Up") || t.contains("BVerMod") || t.contains("Head"));
        let w = if byron_heavy || (heavy && !byron4) {
            3
        } else if byron4 {
            2
        } else {
            1
        };
        for _ in 0..w {
            v.push(t);
        }
    }
    v
}

fn value_case() -> impl Strategy<Value = ValueCase> {
    (
        prop::sample::select(weighted_types()),
        prop_oneof![
            2 => prop::collection::vec(any::<u64>(), 0..40),
            3 => prop::collection::vec(any::<u64>(), 20..250),
            1 => prop::collection::vec(any::<u64>(), 200..900),
        ],
    )
        .prop_map(|(ty, choices)| ValueCase { ty: ty.to_string(), choices })
}

/// Classes the Byron artefacts of test_data must produce (they are what validates shape.rs).
const CHAIN_CLASSES: [&str; 22] = [
    "chain:byron::EbbHead", "chain:byron::BlockHead", "chain:byron::BlockHead(file)", "chain:byron::TxPayload(file)",
    "chain:byron::SscProof::Variant0", "chain:byron::SscProof::Variant1", "chain:byron::SscProof::Variant2", "chain:byron::SscProof::Variant3",
    "chain:byron::Ssc::Variant0", "chain:byron::Ssc::Variant1", "chain:byron::Ssc::Variant2", "chain:byron::Ssc::Variant3",
    "chain:byron::SscComms:nonempty", "chain:byron::SscShares:nonempty", "chain:byron::SscCerts:nonempty",
    "chain:byron::BlockSig::DlgSig", "chain:byron::UpProp", "chain:byron::BVerMod", "chain:byron::UpVote",
    "chain:byron::Twit::PkWitness", "chain:byron::BlockHeadEx.attributes:1", "block:byron:txs:1..23",
];

/// `value:<Type>[::<Variant>]` classes of the types added in round 4: every type, every enum variant,
/// every optional field present and absent, every collection empty / non-empty in both encodings.
fn value_classes() -> Vec<String> {
    let mut v: Vec<String> = [
        "byron::SlotId", "byron::Address", "byron::Address:payload-opaque", "byron::Address:payload-structured",
        "byron::AddrAttr:distr-bootstrap", "byron::AddrAttr:distr-single-key", "byron::AddrAttr:derivation-path",
        "byron::AddrAttr:network-magic", "byron::TxOut", "byron::TxIn::Variant0", "byron::TxIn::Other", "byron::Tx",
        "byron::Twit::PkWitness", "byron::Twit::ScriptWitness", "byron::Twit::RedeemWitness", "byron::Twit::Other",
        "byron::TxPayload", "byron::SscProof::Variant0", "byron::SscProof::Variant1", "byron::SscProof::Variant2",
        "byron::SscProof::Variant3", "byron::Ssc::Variant0", "byron::Ssc::Variant1", "byron::Ssc::Variant2", "byron::Ssc::Variant3",
        "byron::SscComm", "byron::SscCert", "byron::VssProof", "byron::Dlg", "byron::Lwdlg", "byron::TxFeePol::Variant0",
        "byron::TxFeePol::Other", "byron::BVerMod", "byron::UpProp", "byron::UpVote", "byron::UpVote.vote:true",
        "byron::UpVote.vote:false", "byron::Up", "byron::BlockSig::Signature", "byron::BlockSig::LwdlgSig", "byron::BlockSig::DlgSig",
        "byron::BlockCons", "byron::BlockHeadEx", "byron::BlockProof", "byron::BlockHead", "byron::EbbCons", "byron::EbbHead",
        "byron::BlockBody", "byron::Block", "byron::EbBlock", "alonzo::RedeemerPointer::Spend", "alonzo::RedeemerPointer::Mint",
        "alonzo::RedeemerPointer::Cert", "alonzo::RedeemerPointer::Reward", "conway::Update",
    ]
    .iter()
    .map(|c| format!("value:{c}"))
    .collect();
    for coll in [
        "byron::Witnesses", "byron::VssEnc", "byron::VssProof.3", "byron::SscComm.shares", "byron::SscComms", "byron::SscCerts",
        "byron::SscOpens", "byron::SscShares", "byron::SscShares.inner", "byron::VssDec-list", "byron::UpProp.data", "byron::Up.votes",
        "byron::Difficulty", "byron::BlockBody.tx_payload", "byron::BlockBody.dlg_payload", "byron::Block.extra", "byron::EbBlock.body",
    ] {
        for form in ["def-empty", "def-nonempty", "indef-empty", "indef-nonempty"] {
            v.push(format!("value:{coll}:{form}"));
        }
    }
    for opt in [
        "byron::BVerMod.soft_fork_rule", "byron::BVerMod.tx_fee_policy", "byron::BVerMod.script_version", "byron::UpProp.block_version",
        "byron::UpProp.block_version_mod", "byron::UpProp.software_version", "byron::UpProp.attributes", "byron::UpProp.from",
        "byron::UpProp.signature", "byron::Up.proposal", "byron::BlockHeadEx.attributes",
    ] {
        for p in [0, 1] {
            v.push(format!("value:{opt}:{p}"));
        }
    }
    for era in ["babbage", "conway"] {
        for d in [0, 1] {
            for sc in [0, 1] {
                v.push(format!("value:{era}::GenPostAlonzoTransactionOutput(datum={d},script={sc})"));
            }
        }
    }
    for c in ["value:Set:empty", "value:Set:nonempty", "value:NonEmptySet", "ty:PlutusData", "ty:Set+NonEmptySet"] {
        v.push(c.to_string());
    }
    for c in ["babbage::Language#0", "babbage::Language#1", "conway::Language#0", "conway::Language#1", "conway::Language#2"] {
        v.push(c.to_string());
    }
    v
}

/// Variant classes every run must have produced (name, number of variants).
const ENUMS: [(&str, usize); 17] = [
    ("Metadatum", 5), ("Relay", 3), ("StakeCredential", 2), ("Nonce", 3), ("alonzo::Value", 2), ("conway::Value", 2),
    ("alonzo::Certificate", 7), ("conway::Certificate", 17), ("DRep", 4), ("Voter", 5), ("GovAction", 7), ("AuxiliaryData", 3),
    ("conway::Redeemers", 2), ("babbage::ScriptRef", 3), ("conway::ScriptRef", 4), ("byron::TxIn", 2), ("byron::Twit", 4),
];

pub fn run(s: &Session) {
    s.set_rule("(a) every *.block/*.tx/*.header of test_data and every block of the immutable-DB chunks, decoded through the era type selected by the \
        [era, block] tag (transactions: through every era's Tx type that accepts them) and re-encoded; plus decode(to_vec(inner)) == inner with full \
        consumption for every KeepRaw part reached (header, bodies, witness sets, auxiliary data, outputs, datums, scripts, redeemers) and strict \
        isomorphism of the header bytes taken out of each block. Non-trivial artefact = a block with >= 1 transaction, a transaction or a header; \
        distinct = distinct bytes. (a'') every post-Byron transaction of test_data once more per output / collateral return / auxiliary data, with that \
        one container switched between definite and indefinite framing (both are named in the codec's dispatch table): must decode through the codecs that \
        decode the original and re-encode byte-identically. (a') every Byron artefact of test_data (blocks incl. the epoch-boundary block, byron*.tx, byron1.header): the header \
        is cut out of the block with the independent reader, decoded on its own as byron::BlockHead / byron::EbbHead (no KeepRaw) and must re-encode \
        byte-identically with full consumption; the decoded header / block / transaction must have, item by item, the shape the Byron CDDL gives it \
        (shape oracle written with cborx: array lengths, variant numbers, field positions, tag 24 / 258 wrapping, definite/indefinite form, minimal heads). \
        (b) values of 92 families of era types built from a plain choice sequence (no seed) by builders that construct only representable \
        values (KeepRaw parts built by decoding their own encoding; NonEmptySet/NonEmptyKeyValuePairs non-empty; PositiveCoin >= 1; NonZeroInt != 0; \
        denominators >= 1; Constr 102 with Some index; byron Other tags outside the known variants); oracle decode(to_vec(v)) == v (PartialEq, Debug \
        rendering where PartialEq is not derived), full consumption, encoding is one well-formed item per the independent reader; for every Byron type and for the hand-written / tolerant \
        post-Byron codecs (RationalNumber, PoolMetadata, Relay, Nonce, ExUnits, ExUnitPrices, TransactionInput, StakeCredential, NativeScript, Metadatum, \
        AuxiliaryData, MoveInstantaneousReward, Value, Mint, DatumOption, ScriptRef, outputs, Redeemer(s), CostModels, Set, PlutusData, Tx envelope) \
        additionally the shape oracle on the encoder's output (expected skeleton built from the value's named fields per the CDDL - array lengths, variant, \
        key and tag numbers, tag 24 wrapping - never from the library's encoder). Non-trivial value = \
        exercised a hand-written codec or chose an enum variant other than the first; distinct = distinct (type, encoded bytes)");
    s.assume("artefacts the library does not decode (conway8.block needs the `relaxed` feature) are outside the property and counted as discarded");
    s.assume("a transaction artefact is checked through every era Tx codec that accepts it (what MultiEraTx::decode may pick)");
    s.assume("shape oracle: where chain and Byron CDDL differ the chain wins (ssccert field order, sscshares as map of maps, upprop.data as a map); \
        for the open-ended `Other(tag, bytes)` variants both a plain byte string and #6.24(bytes) are accepted; a `None` in a field the model (not the CDDL) \
        declares optional is expected as minicbor-derive writes it (null, trailing ones dropped)");
    s.assume("byron::Address payloads are opaque bytes for pallas-primitives (their codec lives in pallas-addresses, covered by C19)");
    s.assume("conway cost models of unknown languages (`unknown` non-empty) are generated only in the dedicated conway::CostModels family");

    // ---- (a) ----
    let mut arts: Vec<Art> = pvkit::corpus::artefacts()
        .into_iter()
        .map(|a| Art { name: a.name, kind: a.kind, bytes: a.bytes })
        .collect();
    let n_test_data = arts.len();
    // all 1777 blocks of the immutable-DB chunks in both tiers (a couple of seconds)
    let chunk: Vec<Art> = pvkit::corpus::all_chunk_blocks()
        .into_iter()
        .map(|a| Art { name: a.name, kind: a.kind, bytes: a.bytes })
        .collect();
    let n_chunk = chunk.len();
    arts.extend(chunk);
    s.note("artefacts_test_data", serde_json::json!(n_test_data));
    s.note("artefacts_chunk_blocks", serde_json::json!(n_chunk));
    // Byron artefacts (blocks with era tag 0 / 1, byron*.tx, byron1.header) go through a second sub-check
    let byron_arts: Vec<Art> = arts
        .iter()
        .filter(|a| match a.kind.as_str() {
            "block" => a.bytes.len() > 2 && a.bytes[0] == 0x82 && a.bytes[1] <= 0x01,
            "tx" | "header" => a.name.starts_with("byron"),
            _ => false,
        })
        .cloned()
        .collect();
    s.note("artefacts_byron", serde_json::json!(byron_arts.len()));
    let framed = framed_variants(&arts);
    s.note("artefacts_reframed", serde_json::json!(framed.len()));
    s.foreach("corpus-isomorphism", arts, true, check_artefact);
    s.foreach("declared-framings", framed, true, check_framed);
    s.foreach("byron-chain-shape", byron_arts, true, check_byron_chain);
    s.note("artefacts_not_decoded_by_the_library", serde_json::json!(UNDECODABLE.load(AO::Relaxed)));
    if !s.replaying() {
        s.health(n_test_data >= 90, "fewer than 90 artefacts found in test_data");
        s.health(n_chunk >= 1700, "immutable-DB chunk blocks not found");
        s.health(
            UNDECODABLE_UNEXPECTED.load(AO::Relaxed) == 0,
            "artefacts other than conway8.block were not decodable (isomorphism could not be judged for them)",
        );
        for c in ["block:byron-ebb", "block:byron", "block:alonzo-compatible", "block:babbage", "block:conway", "tx:decoded-by:byron"] {
            s.health(s.class_count(c) > 0, &format!("corpus class {c} missing"));
        }
        // what the real Byron data must have exercised for the shape oracle to count as validated by it
        for c in CHAIN_CLASSES {
            s.health(s.class_count(c) > 0, &format!("Byron chain class {c} missing"));
        }
    }

    // ---- (b) ----
    // 90 families since round 4 (the Byron ones build bigger values): 800 k keeps the quick tier where it was in wall time
    s.forall("generated-values", s.pick(800_000, 10_000_000), value_case, check_value);
    if !s.replaying() {
        let mut missing = vec![];
        for t in TYPES {
            if s.class_count(&format!("ty:{t}")) == 0 {
                missing.push(t.to_string());
            }
        }
        for (e, n) in ENUMS {
            for v in 0..n {
                if s.class_count(&format!("{e}#{v}")) == 0 {
                    missing.push(format!("{e}#{v}"));
                }
            }
        }
        for c in value_classes() {
            if s.class_count(&c) == 0 {
                missing.push(c);
            }
        }
        for c in [
            "Relay::SingleHostAddr(0,0,0)", "Relay::SingleHostAddr(1,1,1)", "Relay::SingleHostAddr(0,1,0)", "Relay::SingleHostAddr(0,0,1)",
            "Relay::SingleHostName(0)", "Relay::SingleHostName(1)", "Metadatum::Map-indef", "hand:KeepRaw", "hand:Nullable", "hand:NonEmptySet",
        ] {
            if s.class_count(c) == 0 {
                missing.push(c.to_string());
            }
        }
        s.health(missing.is_empty(), &format!("generator never produced: {missing:?}"));
    }
}
