//! Shape oracle for the Byron codecs (C06): the CBOR skeleton each Byron model value must have on
//! the wire, written from the Byron CDDL (cardano-ledger `eras/byron/cddl-spec/byron.cddl`) and the
//! comments in `pallas-primitives/src/byron/model.rs` with the independent cborx reader/writer, and
//! compared structurally with what the library's encoder produced (generated values) or with the
//! chain bytes the value was decoded from (real Byron blocks). A round trip cannot see an
//! encoder/decoder pair that agree with each other but not with the wire format (swapped fields,
//! a variant number changed on both sides, a missing `#6.24` wrapping); this can.
//!
//! Where the chain and the CDDL differ the chain wins (every expectation below is also run against
//! all Byron blocks of test_data, which is what validates this file):
//!   * `ssccert = [vsspubkey, epochid, pubkey, signature]` (CDDL has pubkey before epochid),
//!   * `sscshares = {addressid => {addressid => [* vssdec]}}` (CDDL: `[addressid, [* vssdec]]`),
//!   * `upprop.data = {* text => updata}` (CDDL: `#6.258([* [text, updata]])`).
//! Weaker reading taken:
//!   * `Other(tag, bytes)` variants (`[u8, encoded-cbor]`): the CDDL's `encoded-cbor` is
//!     `#6.24(bytes)`, pallas writes a plain byte string; neither occurs on chain, both are accepted;
//!   * fields the *model* declares `Option` although the CDDL has no optional field: `None` is
//!     expected as minicbor-derive writes it (null, trailing ones dropped) - nothing else could be
//!     expected for a value that has no wire format of its own.
use pallas_codec::minicbor::bytes::ByteVec;
use pallas_codec::utils::{KeyValuePairs, MaybeIndefArray, ZeroOrOneArray};
use pallas_primitives::byron;
use pallas_primitives::Hash;
use pvkit::cborx::{self as cx, Kind, Len, Node, Str};

/// Expected shape. Array items carry the field name they stand for (used in the diff paths).
pub enum E {
    /// exactly this item (value and minimal head)
    Leaf(Node),
    Arr(Vec<(&'static str, E)>, bool),
    Map(Vec<(E, E)>, bool),
    Tag(u64, Box<E>),
    /// `#6.24(bytes .cbor X)`
    Cbor24(Box<E>),
    /// either is fine (weaker reading)
    Either(Box<E>, Box<E>),
}

#[derive(Debug, Clone, PartialEq, Eq, PartialOrd, Ord)]
pub struct ShapeDiff {
    pub path: String,
    pub what: &'static str,
    pub detail: String,
}

fn kind_name(n: &Node) -> &'static str {
    match &n.k {
        Kind::UInt(..) => "uint",
        Kind::NInt(..) => "nint",
        Kind::Bytes(_) => "bytes",
        Kind::Text(_) => "text",
        Kind::Array(..) => "array",
        Kind::Map(..) => "map",
        Kind::Tag(..) => "tag",
        Kind::Simple(..) => "simple",
        _ => "float",
    }
}

fn leaf_diff(want: &Node, got: &Node) -> Option<(&'static str, String)> {
    if want.k == got.k {
        return None;
    }
    let d = format!("expected {} got {}", hex::encode(cx::write(want)), short(&cx::write(got)));
    let what = match (&want.k, &got.k) {
        (Kind::UInt(a, _), Kind::UInt(b, _)) | (Kind::NInt(a, _), Kind::NInt(b, _)) => {
            if a != b {
                "int-value"
            } else {
                "int-head-width"
            }
        }
        (Kind::Bytes(a), Kind::Bytes(b)) | (Kind::Text(a), Kind::Text(b)) => {
            if a.data() != b.data() {
                "string-content"
            } else if matches!(b, Str::Indef(_)) {
                "string-indefinite"
            } else {
                "string-head-width"
            }
        }
        (Kind::Simple(..), Kind::Simple(..)) => "simple-value",
        _ => "item-kind",
    };
    Some((what, d))
}

fn short(b: &[u8]) -> String {
    if b.len() <= 80 {
        hex::encode(b)
    } else {
        format!("{}..({} bytes)", hex::encode(&b[..80]), b.len())
    }
}

fn walk(e: &E, got: &Node, path: &str, out: &mut Vec<ShapeDiff>) {
    if out.len() >= 16 {
        return;
    }
    let mut push = |what: &'static str, detail: String| out.push(ShapeDiff { path: if path.is_empty() { "/".into() } else { path.to_string() }, what, detail });
    match e {
        E::Leaf(want) => {
            if let Some((what, d)) = leaf_diff(want, got) {
                push(what, d);
            }
        }
        E::Arr(items, indef) => match &got.k {
            Kind::Array(g, len) => {
                match (indef, len) {
                    (true, Len::Def(_)) => push("array-definite-expected-indefinite", String::new()),
                    (false, Len::Indef) => push("array-indefinite-expected-definite", String::new()),
                    (false, Len::Def(w)) if *w != cx::W::min_for(g.len() as u64) => push("array-head-width", String::new()),
                    _ => {}
                }
                if g.len() != items.len() {
                    push("array-length", format!("expected {} items, got {}", items.len(), g.len()));
                    return;
                }
                for ((name, ie), ig) in items.iter().zip(g.iter()) {
                    walk(ie, ig, &format!("{path}/{name}"), out);
                }
            }
            _ => push("item-kind", format!("expected an array, got {} ({})", kind_name(got), short(&cx::write(got)))),
        },
        E::Map(items, indef) => match &got.k {
            Kind::Map(g, len) => {
                match (indef, len) {
                    (true, Len::Def(_)) => push("map-definite-expected-indefinite", String::new()),
                    (false, Len::Indef) => push("map-indefinite-expected-definite", String::new()),
                    (false, Len::Def(w)) if *w != cx::W::min_for(g.len() as u64) => push("map-head-width", String::new()),
                    _ => {}
                }
                if g.len() != items.len() {
                    push("map-length", format!("expected {} entries, got {}", items.len(), g.len()));
                    return;
                }
                for ((ke, ve), (kg, vg)) in items.iter().zip(g.iter()) {
                    walk(ke, kg, &format!("{path}/key"), out);
                    walk(ve, vg, &format!("{path}/value"), out);
                }
            }
            _ => push("item-kind", format!("expected a map, got {} ({})", kind_name(got), short(&cx::write(got)))),
        },
        E::Tag(t, inner) => match &got.k {
            Kind::Tag(gt, w, gi) => {
                if gt != t {
                    push("tag-number", format!("expected tag {t}, got {gt}"));
                } else if *w != cx::W::min_for(*t) {
                    push("tag-head-width", String::new());
                }
                walk(inner, gi, path, out);
            }
            _ => push("tag-missing", format!("expected #6.{t}(..), got {} ({})", kind_name(got), short(&cx::write(got)))),
        },
        E::Cbor24(inner) => match &got.k {
            Kind::Tag(24, w, gi) => {
                if *w != cx::W::B1 {
                    push("tag-head-width", String::new());
                }
                match &gi.k {
                    Kind::Bytes(Str::Def(w, data)) => {
                        if *w != cx::W::min_for(data.len() as u64) {
                            push("string-head-width", String::new());
                        }
                        match cx::read(data) {
                            Ok(n) => walk(inner, &n, &format!("{path}/<<cbor>>"), out),
                            Err(err) => push("wrapped-cbor-malformed", format!("{err:?} in {}", short(data))),
                        }
                    }
                    Kind::Bytes(_) => push("string-indefinite", String::new()),
                    _ => push("item-kind", format!("expected bytes under tag 24, got {}", kind_name(gi))),
                }
            }
            Kind::Tag(t, ..) => push("tag-number", format!("expected tag 24, got {t}")),
            _ => push("tag-missing", format!("expected #6.24(bytes .cbor ..), got {} ({})", kind_name(got), short(&cx::write(got)))),
        },
        E::Either(a, b) => {
            let mut da = vec![];
            walk(a, got, path, &mut da);
            if da.is_empty() {
                return;
            }
            let mut db = vec![];
            walk(b, got, path, &mut db);
            if db.is_empty() {
                return;
            }
            out.extend(da);
        }
    }
}

/// All differences between the expected shape and the item actually found.
pub fn diffs(e: &E, got: &Node) -> Vec<ShapeDiff> {
    let mut out = vec![];
    walk(e, got, "", &mut out);
    out.sort();
    out.dedup();
    out
}

/// `path:what,...` without any concrete value
pub fn signature(d: &[ShapeDiff]) -> String {
    let mut v: Vec<String> = d.iter().map(|x| format!("{}:{}", x.path, x.what)).collect();
    v.dedup();
    v.truncate(4);
    v.join(",")
}

// ---------------------------------------------------------------------------------------------
// building blocks
// ---------------------------------------------------------------------------------------------
pub fn u(v: u64) -> E {
    E::Leaf(cx::uint(v))
}
pub fn i(v: i64) -> E {
    E::Leaf(cx::int(v as i128))
}
pub fn bv(v: &ByteVec) -> E {
    E::Leaf(cx::bytes(v))
}
pub fn h<const N: usize>(v: &Hash<N>) -> E {
    E::Leaf(cx::bytes(v.as_ref()))
}
pub fn t(v: &str) -> E {
    E::Leaf(cx::text(v))
}
pub fn arr(items: Vec<(&'static str, E)>) -> E {
    E::Arr(items, false)
}
/// attributes = {} (the model does not keep anything else)
pub fn attributes() -> E {
    E::Map(vec![], false)
}
pub fn list<T>(a: &MaybeIndefArray<T>, f: impl Fn(&T) -> E) -> E {
    let indef = matches!(a, MaybeIndefArray::Indef(_));
    E::Arr(a.iter().map(|x| ("*", f(x))).collect(), indef)
}
pub fn pairs<K: Clone, V: Clone>(m: &KeyValuePairs<K, V>, fk: impl Fn(&K) -> E, fv: impl Fn(&V) -> E) -> E {
    let indef = matches!(m, KeyValuePairs::Indef(_));
    E::Map(m.iter().map(|(k, v)| (fk(k), fv(v))).collect(), indef)
}
/// `[? x]`
pub fn zoo<T>(z: &ZeroOrOneArray<T>, f: impl Fn(&T) -> E) -> E {
    match &**z {
        None => arr(vec![]),
        Some(x) => arr(vec![("0", f(x))]),
    }
}
/// a derived array codec with `Option` fields: None is null, trailing None are left out
pub fn arr_opt(items: Vec<(&'static str, Option<E>)>) -> E {
    let keep = items.iter().rposition(|(_, e)| e.is_some()).map(|p| p + 1).unwrap_or(0);
    arr(items.into_iter().take(keep).map(|(n, e)| (n, e.unwrap_or(E::Leaf(cx::null())))).collect())
}
/// `[u8, encoded-cbor]` of the open-ended variants
pub fn other(tag: u8, payload: &ByteVec) -> E {
    arr(vec![
        ("variant", u(tag as u64)),
        ("payload", E::Either(Box::new(bv(payload)), Box::new(E::Tag(24, Box::new(bv(payload)))))),
    ])
}

/// exactly this item, compared node by node (so that a difference is reported where it is)
pub fn exact(n: &Node) -> E {
    match &n.k {
        Kind::Array(items, len) => E::Arr(items.iter().map(|x| ("*", exact(x))).collect(), *len == Len::Indef),
        Kind::Map(items, len) => E::Map(items.iter().map(|(k, v)| (exact(k), exact(v))).collect(), *len == Len::Indef),
        Kind::Tag(t, _, inner) => E::Tag(*t, Box::new(exact(inner))),
        _ => E::Leaf(n.clone()),
    }
}

// ---------------------------------------------------------------------------------------------
// the Byron types
// ---------------------------------------------------------------------------------------------

/// slotid = [epoch : epochid, slot : u64]
pub fn slot_id(v: &byron::SlotId) -> E {
    arr(vec![("epoch", u(v.epoch)), ("slot", u(v.slot))])
}
/// address = [#6.24(bytes .cbor ([addressid, addrattr, addrtype])), u64]  (payload kept as bytes)
pub fn address(v: &byron::Address) -> E {
    arr(vec![("payload", E::Tag(24, Box::new(bv(&v.payload.0)))), ("crc", u(v.crc as u64))])
}
/// txout = [address, u64]
pub fn tx_out(v: &byron::TxOut) -> E {
    arr(vec![("address", address(&v.address)), ("amount", u(v.amount))])
}
/// txin = [0, #6.24(bytes .cbor ([txid, u32]))] / [u8 .ne 0, encoded-cbor]
pub fn tx_in(v: &byron::TxIn) -> E {
    match v {
        byron::TxIn::Variant0(w) => arr(vec![
            ("variant", u(0)),
            ("payload", E::Cbor24(Box::new(arr(vec![("txid", h(&w.0 .0)), ("index", u(w.0 .1 as u64))])))),
        ]),
        byron::TxIn::Other(tag, p) => other(*tag, p),
    }
}
/// tx = [[+ txin], [+ txout], attributes]
pub fn tx(v: &byron::Tx) -> E {
    arr(vec![("inputs", list(&v.inputs, tx_in)), ("outputs", list(&v.outputs, tx_out)), ("attributes", attributes())])
}
/// twit = [0, #6.24(bytes .cbor ([pubkey, signature]))] / [1, #6.24(bytes .cbor ([[u16, bytes], [u16, bytes]]))]
///      / [2, #6.24(bytes .cbor ([pubkey, signature]))] / [u8 .gt 2, encoded-cbor]
pub fn twit(v: &byron::Twit) -> E {
    match v {
        byron::Twit::PkWitness(w) => arr(vec![
            ("variant", u(0)),
            ("payload", E::Cbor24(Box::new(arr(vec![("pubkey", bv(&w.0 .0)), ("signature", bv(&w.0 .1))])))),
        ]),
        byron::Twit::ScriptWitness(w) => {
            let script = |s: &(u16, ByteVec)| arr(vec![("version", u(s.0 as u64)), ("script", bv(&s.1))]);
            arr(vec![
                ("variant", u(1)),
                ("payload", E::Cbor24(Box::new(arr(vec![("validator", script(&w.0 .0)), ("redeemer", script(&w.0 .1))])))),
            ])
        }
        byron::Twit::RedeemWitness(w) => arr(vec![
            ("variant", u(2)),
            ("payload", E::Cbor24(Box::new(arr(vec![("pubkey", bv(&w.0 .0)), ("signature", bv(&w.0 .1))])))),
        ]),
        byron::Twit::Other(tag, p) => other(*tag, p),
    }
}
pub fn witnesses(v: &byron::Witnesses) -> E {
    list(v, twit)
}
/// [tx, [* twit]]
pub fn tx_payload(v: &byron::TxPayload) -> E {
    arr(vec![("transaction", tx(&v.transaction)), ("witness", witnesses(&v.witness))])
}

/// ssccomm = [pubkey, [{vsspubkey => vssenc}, vssproof], signature]; vssenc = [bytes];
/// vssproof = [bytes, bytes, bytes, [* bytes]]
fn ssc_comm(v: &byron::SscComm) -> E {
    let (pk, (shares, proof), sig) = v;
    arr(vec![
        ("pubkey", bv(pk)),
        (
            "commitment",
            arr(vec![
                ("shares", pairs(shares, bv, |enc| list(enc, bv))),
                ("proof", arr(vec![("0", bv(&proof.0)), ("1", bv(&proof.1)), ("2", bv(&proof.2)), ("3", list(&proof.3, bv))])),
            ]),
        ),
        ("signature", bv(sig)),
    ])
}
/// ssccert as found on chain: [vsspubkey, epochid, pubkey, signature]
fn ssc_cert(v: &byron::SscCert) -> E {
    arr(vec![("vsspubkey", bv(&v.0)), ("epoch", u(v.1)), ("pubkey", bv(&v.2)), ("signature", bv(&v.3))])
}
/// ssccerts = #6.258([* ssccert])
fn ssc_certs(v: &byron::SscCerts) -> E {
    E::Tag(258, Box::new(list(&v.0, ssc_cert)))
}
/// ssc = [0, ssccomms, ssccerts] / [1, sscopens, ssccerts] / [2, sscshares, ssccerts] / [3, ssccerts]
pub fn ssc(v: &byron::Ssc) -> E {
    match v {
        byron::Ssc::Variant0(comms, certs) => arr(vec![
            ("variant", u(0)),
            ("commitments", E::Tag(258, Box::new(list(&comms.0, ssc_comm)))),
            ("certificates", ssc_certs(certs)),
        ]),
        byron::Ssc::Variant1(opens, certs) => {
            arr(vec![("variant", u(1)), ("openings", pairs(opens, h, bv)), ("certificates", ssc_certs(certs))])
        }
        byron::Ssc::Variant2(shares, certs) => arr(vec![
            ("variant", u(2)),
            ("shares", pairs(shares, h, |inner| pairs(inner, h, |decs| list(decs, bv)))),
            ("certificates", ssc_certs(certs)),
        ]),
        byron::Ssc::Variant3(certs) => arr(vec![("variant", u(3)), ("certificates", ssc_certs(certs))]),
    }
}
/// sscproof = [0, hash, hash] / [1, hash, hash] / [2, hash, hash] / [3, hash]
pub fn ssc_proof(v: &byron::SscProof) -> E {
    match v {
        byron::SscProof::Variant0(a, c) => arr(vec![("variant", u(0)), ("hash0", h(a)), ("hash1", h(c))]),
        byron::SscProof::Variant1(a, c) => arr(vec![("variant", u(1)), ("hash0", h(a)), ("hash1", h(c))]),
        byron::SscProof::Variant2(a, c) => arr(vec![("variant", u(2)), ("hash0", h(a)), ("hash1", h(c))]),
        byron::SscProof::Variant3(a) => arr(vec![("variant", u(3)), ("hash0", h(a))]),
    }
}

/// dlg = [epoch : epochid, issuer : pubkey, delegate : pubkey, certificate : signature]
pub fn dlg(v: &byron::Dlg) -> E {
    arr(vec![("epoch", u(v.epoch)), ("issuer", bv(&v.issuer)), ("delegate", bv(&v.delegate)), ("certificate", bv(&v.certificate))])
}
/// lwdlg = [epochRange : [epochid, epochid], issuer : pubkey, delegate : pubkey, certificate : signature]
pub fn lwdlg(v: &byron::Lwdlg) -> E {
    arr(vec![
        ("epoch_range", arr(vec![("from", u(v.epoch_range.0)), ("to", u(v.epoch_range.1))])),
        ("issuer", bv(&v.issuer)),
        ("delegate", bv(&v.delegate)),
        ("certificate", bv(&v.certificate)),
    ])
}

fn bver(v: &byron::BVer) -> E {
    arr(vec![("major", u(v.0 as u64)), ("minor", u(v.1 as u64)), ("alt", u(v.2 as u64))])
}
/// txfeepol = [0, #6.24(bytes .cbor ([bigint, bigint]))] / [u8 .gt 0, encoded-cbor]
pub fn tx_fee_pol(v: &byron::TxFeePol) -> E {
    match v {
        byron::TxFeePol::Variant0(w) => arr(vec![
            ("variant", u(0)),
            ("payload", E::Cbor24(Box::new(arr(vec![("constant", i(w.0 .0)), ("coefficient", i(w.0 .1))])))),
        ]),
        byron::TxFeePol::Other(tag, p) => other(*tag, p),
    }
}
/// bvermod = [scriptVersion : [? u16], slotDuration : [? bigint], ... softforkRule : [? [bigint, bigint, bigint]],
///            txFeePolicy : [? txfeepol], unlockStakeEpoch : [? epochid]]
pub fn bver_mod(v: &byron::BVerMod) -> E {
    arr(vec![
        ("script_version", zoo(&v.script_version, |x| u(*x as u64))),
        ("slot_duration", zoo(&v.slot_duration, |x| u(*x))),
        ("max_block_size", zoo(&v.max_block_size, |x| u(*x))),
        ("max_header_size", zoo(&v.max_header_size, |x| u(*x))),
        ("max_tx_size", zoo(&v.max_tx_size, |x| u(*x))),
        ("max_proposal_size", zoo(&v.max_proposal_size, |x| u(*x))),
        ("mpc_thd", zoo(&v.mpc_thd, |x| u(*x))),
        ("heavy_del_thd", zoo(&v.heavy_del_thd, |x| u(*x))),
        ("update_vote_thd", zoo(&v.update_vote_thd, |x| u(*x))),
        ("update_proposal_thd", zoo(&v.update_proposal_thd, |x| u(*x))),
        ("update_implicit", zoo(&v.update_implicit, |x| u(*x))),
        ("soft_fork_rule", zoo(&v.soft_fork_rule, |x| arr(vec![("0", u(x.0)), ("1", u(x.1)), ("2", u(x.2))]))),
        ("tx_fee_policy", zoo(&v.tx_fee_policy, tx_fee_pol)),
        ("unlock_stake_epoch", zoo(&v.unlock_stake_epoch, |x| u(*x))),
    ])
}
/// upprop = [blockVersion : bver, blockVersionMod : bvermod, softwareVersion : [text, u32],
///           data : {* text => updata}, attributes, from : pubkey, signature]
pub fn up_prop(v: &byron::UpProp) -> E {
    arr_opt(vec![
        ("block_version", v.block_version.as_ref().map(bver)),
        ("block_version_mod", v.block_version_mod.as_ref().map(bver_mod)),
        ("software_version", v.software_version.as_ref().map(|s| arr(vec![("name", t(&s.0)), ("number", u(s.1 as u64))]))),
        (
            "data",
            Some(pairs(
                &v.data,
                |k| t(k),
                |d| arr(vec![("0", h(&d.0)), ("1", h(&d.1)), ("2", h(&d.2)), ("3", h(&d.3))]),
            )),
        ),
        ("attributes", v.attributes.as_ref().map(|_| attributes())),
        ("from", v.from.as_ref().map(bv)),
        ("signature", v.signature.as_ref().map(bv)),
    ])
}
/// upvote = [voter : pubkey, proposalId : updid, vote : bool, signature]
pub fn up_vote(v: &byron::UpVote) -> E {
    arr(vec![
        ("voter", bv(&v.voter)),
        ("proposal_id", h(&v.proposal_id)),
        ("vote", E::Leaf(cx::boolean(v.vote))),
        ("signature", bv(&v.signature)),
    ])
}
/// up = [proposal : [? upprop], votes : [* upvote]]
pub fn up(v: &byron::Up) -> E {
    arr(vec![("proposal", zoo(&v.proposal, up_prop)), ("votes", list(&v.votes, up_vote))])
}

/// blocksig = [0, signature] / [1, lwdlgsig] / [2, dlgsig]; lwdlgsig = [lwdlg, signature]; dlgsig = [dlg, signature]
pub fn block_sig(v: &byron::BlockSig) -> E {
    match v {
        byron::BlockSig::Signature(s) => arr(vec![("variant", u(0)), ("signature", bv(s))]),
        byron::BlockSig::LwdlgSig((d, s)) => {
            arr(vec![("variant", u(1)), ("lwdlgsig", arr(vec![("lwdlg", lwdlg(d)), ("signature", bv(s))]))])
        }
        byron::BlockSig::DlgSig((d, s)) => {
            arr(vec![("variant", u(2)), ("dlgsig", arr(vec![("dlg", dlg(d)), ("signature", bv(s))]))])
        }
    }
}
/// difficulty = [u64]
fn difficulty(v: &byron::Difficulty) -> E {
    list(v, |x| u(*x))
}
/// blockcons = [slotid, pubkey, difficulty, blocksig]
pub fn block_cons(v: &byron::BlockCons) -> E {
    arr(vec![("slot_id", slot_id(&v.0)), ("pubkey", bv(&v.1)), ("difficulty", difficulty(&v.2)), ("block_sig", block_sig(&v.3))])
}
/// blockheadex = [blockVersion : bver, softwareVersion : [text, u32], attributes, extraProof : hash]
pub fn block_head_ex(v: &byron::BlockHeadEx) -> E {
    arr_opt(vec![
        ("block_version", Some(bver(&v.block_version))),
        ("software_version", Some(arr(vec![("name", t(&v.software_version.0)), ("number", u(v.software_version.1 as u64))]))),
        ("attributes", v.attributes.as_ref().map(|_| attributes())),
        ("extra_proof", Some(h(&v.extra_proof))),
    ])
}
/// blockproof = [txProof : [u32, hash, hash], sscProof : sscproof, dlgProof : hash, updProof : hash]
pub fn block_proof(v: &byron::BlockProof) -> E {
    arr(vec![
        ("tx_proof", arr(vec![("count", u(v.tx_proof.0 as u64)), ("root", h(&v.tx_proof.1)), ("witnesses_hash", h(&v.tx_proof.2))])),
        ("ssc_proof", ssc_proof(&v.ssc_proof)),
        ("dlg_proof", h(&v.dlg_proof)),
        ("upd_proof", h(&v.upd_proof)),
    ])
}
/// blockhead = [protocolMagic : u32, prevBlock : blockid, bodyProof : blockproof, consensusData : blockcons,
///              extraData : blockheadex]
pub fn block_head(v: &byron::BlockHead) -> E {
    arr(vec![
        ("protocol_magic", u(v.protocol_magic as u64)),
        ("prev_block", h(&v.prev_block)),
        ("body_proof", block_proof(&v.body_proof)),
        ("consensus_data", block_cons(&v.consensus_data)),
        ("extra_data", block_head_ex(&v.extra_data)),
    ])
}
/// ebbcons = [epochid, difficulty]
pub fn ebb_cons(v: &byron::EbbCons) -> E {
    arr(vec![("epoch_id", u(v.epoch_id)), ("difficulty", difficulty(&v.difficulty))])
}
/// ebbhead = [protocolMagic : u32, prevBlock : blockid, bodyProof : hash, consensusData : ebbcons, extraData : [attributes]]
pub fn ebb_head(v: &byron::EbbHead) -> E {
    arr(vec![
        ("protocol_magic", u(v.protocol_magic as u64)),
        ("prev_block", h(&v.prev_block)),
        ("body_proof", h(&v.body_proof)),
        ("consensus_data", ebb_cons(&v.consensus_data)),
        ("extra_data", arr(vec![("attributes", attributes())])),
    ])
}
/// blockbody = [txPayload : [* [tx, [* twit]]], sscPayload : ssc, dlgPayload : [* dlg], updPayload : up]
pub fn block_body(v: &byron::BlockBody) -> E {
    arr(vec![
        ("tx_payload", list(&v.tx_payload, tx_payload)),
        ("ssc_payload", ssc(&v.ssc_payload)),
        ("dlg_payload", list(&v.dlg_payload, dlg)),
        ("upd_payload", up(&v.upd_payload)),
    ])
}
/// mainblock = [header : blockhead, body : blockbody, extra : [attributes]]
pub fn block(v: &byron::Block) -> E {
    arr(vec![("header", block_head(&v.header)), ("body", block_body(&v.body)), ("extra", list(&v.extra, |_| attributes()))])
}
/// ebblock = [header : ebbhead, body : [+ stakeholderid], extra : [attributes]]
pub fn eb_block(v: &byron::EbBlock) -> E {
    arr(vec![("header", ebb_head(&v.header)), ("body", list(&v.body, h)), ("extra", list(&v.extra, |_| attributes()))])
}
/// block = [0, ebblock] / [1, mainblock]
pub fn wrapped(era: u64, inner: E) -> E {
    arr(vec![("era", u(era)), ("block", inner)])
}
