//! Shape oracle for the post-Byron codecs that are hand-written (or whose decoder accepts more than
//! the encoder writes: any tag where one number is meant, an optional tag, any array length), so
//! that the value round trip cannot see a wrong tag / variant / key number in the encoder.
//! Expectations are written from the ledger CDDL (shelley .. conway) by field name and compared
//! with the encoder's bytes through the engine of `shape.rs`; PlutusData through the model encoder
//! of `pd.rs` (plutus-core `Data` rules). Every skeleton below is also what the accepted chain
//! transactions of test_data carry (the corpus sub-check re-encodes them byte-identically through
//! the same encoders), so a disagreement on the unchanged tree would be a misreading here.
use super::shape::{arr, arr_opt, exact, u, E};
use crate::pd;
use pallas_codec::utils::{Bytes, Nullable};
use pallas_primitives::{
    alonzo, babbage, conway, ExUnitPrices, ExUnits, Hash, Metadata, Metadatum, Nonce, NonceVariant, PlutusData,
    PoolMetadata, RationalNumber, Relay, StakeCredential, TransactionInput,
};
use pvkit::cborx as cx;
use std::collections::BTreeMap;

fn b(v: &[u8]) -> E {
    E::Leaf(cx::bytes(v))
}
fn by(v: &Bytes) -> E {
    E::Leaf(cx::bytes(v))
}
fn h<const N: usize>(v: &Hash<N>) -> E {
    E::Leaf(cx::bytes(v.as_ref()))
}
fn int(v: i128) -> E {
    E::Leaf(cx::int(v))
}
fn t(v: &str) -> E {
    E::Leaf(cx::text(v))
}
fn null() -> E {
    E::Leaf(cx::null())
}
fn vec_of<T>(v: &[T], f: impl Fn(&T) -> E) -> E {
    E::Arr(v.iter().map(|x| ("*", f(x))).collect(), false)
}
fn btree<K, V>(m: &BTreeMap<K, V>, fk: impl Fn(&K) -> E, fv: impl Fn(&V) -> E) -> E {
    E::Map(m.iter().map(|(k, v)| (fk(k), fv(v))).collect(), false)
}
/// a map-encoded record: present fields only, ascending keys, definite
fn record(fields: Vec<(u64, Option<E>)>) -> E {
    E::Map(fields.into_iter().filter_map(|(k, v)| v.map(|v| (u(k), v))).collect(), false)
}
fn opt_or_null<T>(v: &Option<T>, f: impl Fn(&T) -> E) -> E {
    v.as_ref().map(f).unwrap_or_else(null)
}

/// unit_interval / positive_interval = #6.30([uint, uint])
pub fn rational(v: &RationalNumber) -> E {
    E::Tag(30, Box::new(arr(vec![("numerator", u(v.numerator)), ("denominator", u(v.denominator))])))
}
/// pool_metadata = [url, pool_metadata_hash]
pub fn pool_metadata(v: &PoolMetadata) -> E {
    arr(vec![("url", t(&v.url)), ("hash", by(&v.hash))])
}
/// relay = [0, port / null, ipv4 / null, ipv6 / null] / [1, port / null, dns_name] / [2, dns_name]
pub fn relay(v: &Relay) -> E {
    match v {
        Relay::SingleHostAddr(p, v4, v6) => arr(vec![
            ("variant", u(0)),
            ("port", opt_or_null(p, |x| u(*x as u64))),
            ("ipv4", opt_or_null(v4, by)),
            ("ipv6", opt_or_null(v6, by)),
        ]),
        Relay::SingleHostName(p, name) => arr(vec![("variant", u(1)), ("port", opt_or_null(p, |x| u(*x as u64))), ("dns_name", t(name))]),
        Relay::MultiHostName(name) => arr(vec![("variant", u(2)), ("dns_name", t(name))]),
    }
}
/// $nonce = [0] / [1, bytes .size 32]   ((Nonce, None), which only a decoder can produce, is `[1]`)
pub fn nonce(v: &Nonce) -> E {
    let variant = match v.variant {
        NonceVariant::NeutralNonce => 0,
        NonceVariant::Nonce => 1,
    };
    arr_opt(vec![("variant", Some(u(variant))), ("hash", v.hash.as_ref().map(h))])
}
/// ex_units = [mem : uint, steps : uint]
pub fn ex_units(v: &ExUnits) -> E {
    arr(vec![("mem", u(v.mem)), ("steps", u(v.steps))])
}
/// ex_unit_prices = [mem_price : positive_interval, step_price : positive_interval]
pub fn ex_unit_prices(v: &ExUnitPrices) -> E {
    arr(vec![("mem_price", rational(&v.mem_price)), ("step_price", rational(&v.step_price))])
}
/// transaction_input = [transaction_id : $hash32, index : uint]
pub fn input(v: &TransactionInput) -> E {
    arr(vec![("transaction_id", h(&v.transaction_id)), ("index", u(v.index))])
}
/// credential = [0, addr_keyhash] / [1, scripthash]
pub fn stake_credential(v: &StakeCredential) -> E {
    match v {
        StakeCredential::AddrKeyhash(x) => arr(vec![("variant", u(0)), ("hash", h(x))]),
        StakeCredential::ScriptHash(x) => arr(vec![("variant", u(1)), ("hash", h(x))]),
    }
}

/// plutus_data through the model encoder of pd.rs (constr tags 121..127 / 1280..1400 / 102 with
/// [index, fields], big_uint = #6.2, big_nint = #6.3, byte strings > 64 bytes in 64-byte chunks)
pub fn plutus_data(v: &PlutusData) -> E {
    exact(&pd::to_node(&pd::from_pallas(v)))
}

/// native_script = [0, addr_keyhash] / [1, [* native_script]] / [2, [* native_script]] / [3, n, [* native_script]]
///               / [4, uint] / [5, uint]
pub fn native_script(v: &alonzo::NativeScript) -> E {
    use alonzo::NativeScript::*;
    match v {
        ScriptPubkey(k) => arr(vec![("variant", u(0)), ("keyhash", h(k))]),
        ScriptAll(s) => arr(vec![("variant", u(1)), ("scripts", vec_of(s, native_script))]),
        ScriptAny(s) => arr(vec![("variant", u(2)), ("scripts", vec_of(s, native_script))]),
        ScriptNOfK(n, s) => arr(vec![("variant", u(3)), ("n", u(*n as u64)), ("scripts", vec_of(s, native_script))]),
        InvalidBefore(s) => arr(vec![("variant", u(4)), ("slot", u(*s))]),
        InvalidHereafter(s) => arr(vec![("variant", u(5)), ("slot", u(*s))]),
    }
}

/// transaction_metadatum = int / bytes / text / [* metadatum] / {* metadatum => metadatum}
pub fn metadatum(v: &Metadatum) -> E {
    match v {
        Metadatum::Int(x) => int(i128::from(*x)),
        Metadatum::Bytes(x) => by(x),
        Metadatum::Text(x) => t(x),
        Metadatum::Array(x) => vec_of(x, metadatum),
        Metadatum::Map(m) => super::shape::pairs(m, metadatum, metadatum),
    }
}
pub fn metadata(v: &Metadata) -> E {
    btree(v, |k| u(*k), metadatum)
}
/// auxiliary_data = metadata / [metadata, [* native_script]]
///                / #6.259({? 0 => metadata, ? 1 => [* native_script], ? 2 => [* plutus_v1_script]})
pub fn auxiliary_data(v: &alonzo::AuxiliaryData) -> E {
    match v {
        alonzo::AuxiliaryData::Shelley(m) => metadata(m),
        alonzo::AuxiliaryData::ShelleyMa(x) => arr_opt(vec![
            ("transaction_metadata", Some(metadata(&x.transaction_metadata))),
            ("auxiliary_scripts", x.auxiliary_scripts.as_ref().map(|s| vec_of(s, native_script))),
        ]),
        alonzo::AuxiliaryData::PostAlonzo(x) => E::Tag(
            259,
            Box::new(record(vec![
                (0, x.metadata.as_ref().map(metadata)),
                (1, x.native_scripts.as_ref().map(|s| vec_of(s, native_script))),
                (2, x.plutus_scripts.as_ref().map(|s| vec_of(s, |p| by(&p.0)))),
            ])),
        ),
    }
}

/// move_instantaneous_reward = [0 / 1, {* stake_credential => delta_coin} / coin]
pub fn mir(v: &alonzo::MoveInstantaneousReward) -> E {
    let source = match v.source {
        alonzo::InstantaneousRewardSource::Reserves => 0,
        alonzo::InstantaneousRewardSource::Treasury => 1,
    };
    let target = match &v.target {
        alonzo::InstantaneousRewardTarget::StakeCredentials(m) => btree(m, stake_credential, |d| int(*d as i128)),
        alonzo::InstantaneousRewardTarget::OtherAccountingPot(c) => u(*c),
    };
    arr(vec![("source", u(source)), ("target", target)])
}

fn multiasset<A>(m: &BTreeMap<Hash<28>, BTreeMap<Bytes, A>>, f: impl Fn(&A) -> E + Copy) -> E {
    btree(m, h, |assets| btree(assets, by, f))
}
/// value = coin / [coin, multiasset<uint>]
pub fn alonzo_value(v: &alonzo::Value) -> E {
    match v {
        alonzo::Value::Coin(c) => u(*c),
        alonzo::Value::Multiasset(c, m) => arr(vec![("coin", u(*c)), ("multiasset", multiasset(m, |x| u(*x)))]),
    }
}
/// value = coin / [coin, multiasset<positive_coin>]
pub fn conway_value(v: &conway::Value) -> E {
    match v {
        conway::Value::Coin(c) => u(*c),
        conway::Value::Multiasset(c, m) => arr(vec![("coin", u(*c)), ("multiasset", multiasset(m, |x| u(u64::from(x))))]),
    }
}
/// mint = multiasset<int64>
pub fn alonzo_mint(v: &alonzo::Mint) -> E {
    multiasset(v, |x| int(*x as i128))
}
/// mint = multiasset<nonZeroInt64>
pub fn conway_mint(v: &conway::Mint) -> E {
    multiasset(v, |x| int(i64::from(x) as i128))
}

/// datum_option = [0, $hash32] / [1, #6.24(bytes .cbor plutus_data)]
pub fn datum_option(v: &babbage::DatumOption) -> E {
    match v {
        babbage::DatumOption::Hash(x) => arr(vec![("variant", u(0)), ("hash", h(x))]),
        babbage::DatumOption::Data(d) => arr(vec![("variant", u(1)), ("data", E::Cbor24(Box::new(plutus_data(&d.0))))]),
    }
}
/// script = [0, native_script] / [1, plutus_v1_script] / [2, plutus_v2_script]
pub fn babbage_script_ref(v: &babbage::ScriptRef) -> E {
    match v {
        babbage::ScriptRef::NativeScript(n) => arr(vec![("variant", u(0)), ("script", native_script(n))]),
        babbage::ScriptRef::PlutusV1Script(p) => arr(vec![("variant", u(1)), ("script", by(&p.0))]),
        babbage::ScriptRef::PlutusV2Script(p) => arr(vec![("variant", u(2)), ("script", by(&p.0))]),
    }
}
/// script = [0, native_script] / [1, plutus_v1_script] / [2, plutus_v2_script] / [3, plutus_v3_script]
pub fn conway_script_ref(v: &conway::ScriptRef) -> E {
    match v {
        conway::ScriptRef::NativeScript(n) => arr(vec![("variant", u(0)), ("script", native_script(n))]),
        conway::ScriptRef::PlutusV1Script(p) => arr(vec![("variant", u(1)), ("script", by(&p.0))]),
        conway::ScriptRef::PlutusV2Script(p) => arr(vec![("variant", u(2)), ("script", by(&p.0))]),
        conway::ScriptRef::PlutusV3Script(p) => arr(vec![("variant", u(3)), ("script", by(&p.0))]),
    }
}
/// legacy_transaction_output = [address, amount : value, ? datum_hash : $hash32]
pub fn alonzo_output(v: &alonzo::TransactionOutput) -> E {
    arr_opt(vec![("address", Some(by(&v.address))), ("amount", Some(alonzo_value(&v.amount))), ("datum_hash", v.datum_hash.as_ref().map(h))])
}
/// post_alonzo_transaction_output = {0 : address, 1 : value, ? 2 : datum_option, ? 3 : script_ref};
/// script_ref = #6.24(bytes .cbor script)
pub fn babbage_post_alonzo_output(v: &babbage::PostAlonzoTransactionOutput) -> E {
    record(vec![
        (0, Some(by(&v.address))),
        (1, Some(alonzo_value(&v.value))),
        (2, v.datum_option.as_ref().map(|d| datum_option(d))),
        (3, v.script_ref.as_ref().map(|s| E::Cbor24(Box::new(babbage_script_ref(&s.0))))),
    ])
}
pub fn conway_post_alonzo_output(v: &conway::PostAlonzoTransactionOutput) -> E {
    record(vec![
        (0, Some(by(&v.address))),
        (1, Some(conway_value(&v.value))),
        (2, v.datum_option.as_ref().map(|d| datum_option(d))),
        (3, v.script_ref.as_ref().map(|s| E::Cbor24(Box::new(conway_script_ref(&s.0))))),
    ])
}
/// transaction_output = legacy_transaction_output / post_alonzo_transaction_output
pub fn babbage_output(v: &babbage::TransactionOutput) -> E {
    match v {
        babbage::TransactionOutput::Legacy(o) => alonzo_output(o),
        babbage::TransactionOutput::PostAlonzo(o) => babbage_post_alonzo_output(o),
    }
}
pub fn conway_output(v: &conway::TransactionOutput) -> E {
    match v {
        conway::TransactionOutput::Legacy(o) => alonzo_output(o),
        conway::TransactionOutput::PostAlonzo(o) => conway_post_alonzo_output(o),
    }
}

/// redeemer = [tag : 0..3, index : uint, data : plutus_data, ex_units]
pub fn alonzo_redeemer(v: &alonzo::Redeemer) -> E {
    let tag = match v.tag {
        alonzo::RedeemerTag::Spend => 0,
        alonzo::RedeemerTag::Mint => 1,
        alonzo::RedeemerTag::Cert => 2,
        alonzo::RedeemerTag::Reward => 3,
    };
    arr(vec![("tag", u(tag)), ("index", u(v.index as u64)), ("data", plutus_data(&v.data)), ("ex_units", ex_units(&v.ex_units))])
}
fn conway_tag(tag: conway::RedeemerTag) -> u64 {
    match tag {
        conway::RedeemerTag::Spend => 0,
        conway::RedeemerTag::Mint => 1,
        conway::RedeemerTag::Cert => 2,
        conway::RedeemerTag::Reward => 3,
        conway::RedeemerTag::Vote => 4,
        conway::RedeemerTag::Propose => 5,
    }
}
/// redeemer = [tag : 0..5, index : uint, data : plutus_data, ex_units]
pub fn conway_redeemer(v: &conway::Redeemer) -> E {
    arr(vec![
        ("tag", u(conway_tag(v.tag))),
        ("index", u(v.index as u64)),
        ("data", plutus_data(&v.data)),
        ("ex_units", ex_units(&v.ex_units)),
    ])
}
/// redeemers = [* redeemer] / {* [tag, index] => [data, ex_units]}
pub fn conway_redeemers(v: &conway::Redeemers) -> E {
    match v {
        conway::Redeemers::List(l) => vec_of(l, conway_redeemer),
        conway::Redeemers::Map(m) => btree(
            m,
            |k| arr(vec![("tag", u(conway_tag(k.tag))), ("index", u(k.index as u64))]),
            |x| arr(vec![("data", plutus_data(&x.data)), ("ex_units", ex_units(&x.ex_units))]),
        ),
    }
}

fn cost_model(v: &[i64]) -> E {
    vec_of(v, |x| int(*x as i128))
}
/// costmdls = {* language => cost_model}, language 0 = plutus v1
pub fn alonzo_cost_models(v: &alonzo::CostModels) -> E {
    btree(
        v,
        |k| match k {
            alonzo::Language::PlutusV1 => u(0),
        },
        |m| cost_model(m),
    )
}
/// costmdls = {? 0 : [* int], ? 1 : [* int]}
pub fn babbage_cost_models(v: &babbage::CostModels) -> E {
    record(vec![(0, v.plutus_v1.as_ref().map(|m| cost_model(m))), (1, v.plutus_v2.as_ref().map(|m| cost_model(m)))])
}
/// costmdls = {? 0 : [* int64], ? 1 : [* int64], ? 2 : [* int64], * 3 .. 255 => [* int64]}
pub fn conway_cost_models(v: &conway::CostModels) -> E {
    let mut fields = vec![
        (0, v.plutus_v1.as_ref().map(|m| cost_model(m))),
        (1, v.plutus_v2.as_ref().map(|m| cost_model(m))),
        (2, v.plutus_v3.as_ref().map(|m| cost_model(m))),
    ];
    for (k, m) in v.unknown.iter() {
        fields.push((*k, Some(cost_model(m))));
    }
    record(fields)
}

/// set<a> = #6.258([* a]) (the form this library writes; the untagged array is the other legal one)
pub fn set_of<T>(items: &[T], f: impl Fn(&T) -> E) -> E {
    E::Tag(258, Box::new(vec_of(items, f)))
}

/// transaction = [transaction_body, transaction_witness_set, bool, auxiliary_data / null]; body, witness set
/// and auxiliary data are expected verbatim (`raw` = their own bytes), only the envelope is judged here
pub fn tx_envelope(body: &[u8], wits: &[u8], success: bool, aux: Nullable<&[u8]>) -> E {
    let raw = |bytes: &[u8]| match cx::read(bytes) {
        Ok(n) => exact(&n),
        Err(_) => b(bytes),
    };
    arr(vec![
        ("transaction_body", raw(body)),
        ("transaction_witness_set", raw(wits)),
        ("success", E::Leaf(cx::boolean(success))),
        (
            "auxiliary_data",
            match aux {
                Nullable::Some(a) => raw(a),
                Nullable::Null => null(),
                Nullable::Undefined => E::Leaf(cx::undefined()),
            },
        ),
    ])
}
