//! C07 — PlutusData round-trip, byte-string chunking and total order (DESIGN §C07).
use crate::pd::{self, Edit, PD};
use pallas_codec::minicbor;
use pallas_primitives::PlutusData;
use proptest::prelude::*;
use pvkit::cborx::{self, Kind, Node, Str};
use pvkit::{hexs, pv_ensure, pv_fail, Fail, Obs, Session};
use serde::{Deserialize, Serialize};
use std::cmp::Ordering;

// ---------------------------------------------------------------------------------------------
// (1)+(2) round trip and chunking of the library's encoding
// ---------------------------------------------------------------------------------------------

/// every byte string in a cborx tree (pre-order)
fn byte_strings<'a>(n: &'a Node, out: &mut Vec<&'a Str>) {
    match &n.k {
        Kind::Bytes(s) => out.push(s),
        Kind::Array(v, _) => v.iter().for_each(|c| byte_strings(c, out)),
        Kind::Map(v, _) => v.iter().for_each(|(a, b)| {
            byte_strings(a, out);
            byte_strings(b, out)
        }),
        Kind::Tag(_, _, i) => byte_strings(i, out),
        _ => {}
    }
}

fn decode_full(bytes: &[u8]) -> Result<(PlutusData, usize), String> {
    let mut d = minicbor::Decoder::new(bytes);
    let v: PlutusData = d.decode().map_err(|e| e.to_string())?;
    Ok((v, d.position()))
}

fn check_roundtrip(p: &PD, obs: &mut Obs) -> Result<(), Fail> {
    let v = pd::to_pallas(p);
    let bytes = match minicbor::to_vec(&v) {
        Ok(b) => b,
        Err(e) => pv_fail!("encode-error", "to_vec failed: {e}"),
    };
    let mut cl = vec![];
    p.classes(&mut cl);
    cl.sort();
    cl.dedup();
    cl.into_iter().for_each(|c| obs.class(c));
    obs.class(format!("depth:{}", p.depth().min(6)));

    // (1) decode(to_vec(v)) is structurally identical to v, flags included; full consumption
    let (back, used) = match decode_full(&bytes) {
        Ok(x) => x,
        Err(e) => pv_fail!("decode-error", "the library cannot decode its own encoding {}: {e}", hexs(&bytes)),
    };
    let back_pd = pd::from_pallas(&back);
    pv_ensure!(
        &back_pd == p,
        "roundtrip-structural-mismatch",
        "decode(to_vec(v)) differs structurally from v: encoded {} decoded to {:?}, original {:?}",
        hexs(&bytes), back_pd, p
    );
    pv_ensure!(used == bytes.len(), "not-fully-consumed", "decoder stopped at {used} of {} bytes", bytes.len());
    pv_ensure!(back == v, "roundtrip-eq-mismatch", "decoded value is not `==` to the original ({})", hexs(&bytes));

    // (2) cborx view of the encoding: one well-formed item; every byte string <= 64 bytes is one
    // definite string, every longer one an indefinite string of 64-byte chunks + shorter last chunk
    let tree = match cborx::read(&bytes) {
        Ok(t) => t,
        Err(e) => pv_fail!("encoding-not-wellformed", "cborx rejects the encoding {}: {e:?}", hexs(&bytes)),
    };
    let mut strs = vec![];
    byte_strings(&tree, &mut strs);
    for s in strs {
        let data = s.data();
        match s {
            Str::Def(_, d) => pv_ensure!(
                d.len() <= 64,
                "chunking:long-string-not-chunked",
                "a {}-byte string was written as one definite string", d.len()
            ),
            Str::Indef(chunks) => {
                pv_ensure!(
                    data.len() > 64,
                    "chunking:short-string-chunked",
                    "a {}-byte string was written as an indefinite string", data.len()
                );
                let n = chunks.len();
                for (i, (_, c)) in chunks.iter().enumerate() {
                    if i + 1 < n {
                        pv_ensure!(
                            c.len() == 64,
                            "chunking:chunk-size",
                            "chunk {i} of a {}-byte string has {} bytes (expected 64)", data.len(), c.len()
                        );
                    } else {
                        pv_ensure!(
                            (1..=64).contains(&c.len()),
                            "chunking:last-chunk-size",
                            "last chunk of a {}-byte string has {} bytes", data.len(), c.len()
                        );
                    }
                }
            }
        }
    }
    // observation only: agreement with the harness' own model encoder
    obs.class(if pd::model_bytes(p) == bytes { "model-encoding:identical" } else { "model-encoding:differs" });
    if p.max_bytes_len() > 64 {
        obs.class("has-string-gt64");
        obs.nontrivial();
    } else if p.depth() >= 2 {
        obs.nontrivial();
    }
    Ok(())
}

// ---------------------------------------------------------------------------------------------
// (2b) any chunking decodes to the concatenation
// ---------------------------------------------------------------------------------------------

#[derive(Debug, Clone, Serialize, Deserialize)]
pub struct Rechunk {
    pub value: PD,
    /// cut lists consumed in pre-order, one per byte string (cycled); an empty list = definite
    pub cuts: Vec<Vec<u16>>,
}

fn check_rechunk(c: &Rechunk, obs: &mut Obs) -> Result<(), Fail> {
    let mut i = 0usize;
    let mut chunked = 0usize;
    let node = pd::to_node_with(&c.value, &mut |b| {
        let cuts: &[u16] = if c.cuts.is_empty() { &[] } else { &c.cuts[i % c.cuts.len()] };
        i += 1;
        if !cuts.is_empty() {
            chunked += 1;
        }
        pd::bstr_cut(b, cuts)
    });
    let bytes = cborx::write(&node);
    if i == 0 {
        obs.discard();
        return Ok(());
    }
    let (back, used) = match decode_full(&bytes) {
        Ok(x) => x,
        Err(e) => pv_fail!("rechunk:decode-error", "a well-formed chunked encoding was rejected: {} ({e})", hexs(&bytes)),
    };
    let back_pd = pd::from_pallas(&back);
    pv_ensure!(
        back_pd == c.value,
        "rechunk:wrong-concatenation",
        "decoding {} gave {:?}, expected {:?}", hexs(&bytes), back_pd, c.value
    );
    pv_ensure!(used == bytes.len(), "rechunk:not-fully-consumed", "decoder stopped at {used} of {}", bytes.len());
    obs.class(format!("rechunk:strings-chunked:{}", chunked.min(3)));
    obs.nontrivial_if(chunked > 0);
    Ok(())
}

// ---------------------------------------------------------------------------------------------
// (3) order laws
// ---------------------------------------------------------------------------------------------

#[derive(Debug, Clone, Serialize, Deserialize)]
pub struct Triple {
    pub a: PD,
    pub e1: Edit,
    pub e2: Edit,
    /// c is derived from b (true) or from a (false)
    pub chain: bool,
}

fn ord_name(o: Ordering) -> &'static str {
    match o {
        Ordering::Less => "lt",
        Ordering::Equal => "eq",
        Ordering::Greater => "gt",
    }
}

/// Own notion of equality of two recipes, in two strengths. `strict` = false: a *necessary*
/// condition for any equality of PlutusData (same kind, same constructor index, same number of
/// children, same bytes; integers are not judged because the reading of negative bignums is not
/// fixed by the property). `strict` = true: a *sufficient* condition (additionally integers have the
/// same representation and bytes). Def/indef flags and the constructor-tag form never matter.
fn model_eq(a: &PD, b: &PD, strict: bool) -> bool {
    fn cidx(tag: u64, any: Option<u64>) -> u64 {
        match tag {
            121..=127 => tag - 121,
            1280..=1400 => tag - 1280 + 7,
            _ => any.unwrap_or(0),
        }
    }
    match (a, b) {
        (PD::Constr { tag: t1, any: a1, fields: f1, .. }, PD::Constr { tag: t2, any: a2, fields: f2, .. }) => {
            cidx(*t1, *a1) == cidx(*t2, *a2) && f1.len() == f2.len() && f1.iter().zip(f2).all(|(x, y)| model_eq(x, y, strict))
        }
        (PD::Array { items: f1, .. }, PD::Array { items: f2, .. }) => {
            f1.len() == f2.len() && f1.iter().zip(f2).all(|(x, y)| model_eq(x, y, strict))
        }
        (PD::Map { kvs: f1, .. }, PD::Map { kvs: f2, .. }) => {
            f1.len() == f2.len() && f1.iter().zip(f2).all(|((k1, v1), (k2, v2))| model_eq(k1, k2, strict) && model_eq(v1, v2, strict))
        }
        (PD::Bytes(x), PD::Bytes(y)) => x == y,
        (x, y) if x.family() == 3 && y.family() == 3 => !strict || x == y,
        _ => false,
    }
}

fn check_order(t: &Triple, obs: &mut Obs) -> Result<(), Fail> {
    let (bp, ch1) = pd::apply(&t.a, &t.e1);
    let (cp, ch2) = pd::apply(if t.chain { &bp } else { &t.a }, &t.e2);
    let pds = [&t.a, &bp, &cp];
    let vals: Vec<PlutusData> = pds.iter().map(|p| pd::to_pallas(p)).collect();
    let names = ["a", "b", "c"];
    obs.class(format!("edit:{}{}", t.e1.name(), if ch1 { "" } else { "(no-op)" }));
    obs.class(format!("edit:{}{}", t.e2.name(), if ch2 { "" } else { "(no-op)" }));

    let mut m = [[Ordering::Equal; 3]; 3];
    for i in 0..3 {
        for j in 0..3 {
            m[i][j] = vals[i].cmp(&vals[j]);
            // partial_cmp and == agree with cmp
            pv_ensure!(
                vals[i].partial_cmp(&vals[j]) == Some(m[i][j]),
                "order:partial-cmp-disagrees",
                "partial_cmp({0},{1}) != Some(cmp({0},{1})) for {0}={2:?} {1}={3:?}", names[i], names[j], pds[i], pds[j]
            );
            pv_ensure!(
                (vals[i] == vals[j]) == (m[i][j] == Ordering::Equal),
                "order:eq-disagrees-with-cmp",
                "({0} == {1}) = {4} but cmp = {5:?} for {0}={2:?} {1}={3:?}",
                names[i], names[j], pds[i], pds[j], vals[i] == vals[j], m[i][j]
            );
        }
    }
    // equality is an equality of the *data*: it may not identify values of different kind,
    // constructor index, arity or bytes, and it must identify values that differ only in def/indef
    // flags and in the tag form (121.. / 1280.. / 102+index) of the same constructor index
    for i in 0..3 {
        for j in 0..3 {
            if m[i][j] == Ordering::Equal {
                pv_ensure!(
                    model_eq(pds[i], pds[j], false),
                    "order:equal-but-different-data",
                    "{0} == {1} although they differ in kind / constructor index / arity / bytes: {0}={2:?} {1}={3:?}",
                    names[i], names[j], pds[i], pds[j]
                );
            }
            if model_eq(pds[i], pds[j], true) {
                pv_ensure!(
                    m[i][j] == Ordering::Equal,
                    "order:same-data-not-equal",
                    "{0} and {1} differ only in encoding choices but cmp = {4:?}: {0}={2:?} {1}={3:?}",
                    names[i], names[j], pds[i], pds[j], m[i][j]
                );
                if i != j && pds[i] != pds[j] {
                    obs.class("pair:same-data-different-encoding");
                }
            }
        }
    }
    for i in 0..3 {
        pv_ensure!(
            m[i][i] == Ordering::Equal,
            "order:not-reflexive",
            "cmp(x,x) = {:?} for x = {:?}", m[i][i], pds[i]
        );
        for j in 0..3 {
            pv_ensure!(
                m[i][j] == m[j][i].reverse(),
                "order:not-antisymmetric",
                "cmp({0},{1}) = {4:?} but cmp({1},{0}) = {5:?} for {0}={2:?} {1}={3:?}",
                names[i], names[j], pds[i], pds[j], m[i][j], m[j][i]
            );
        }
    }
    // transitivity of <= over every ordered triple of {a,b,c} (this also gives transitivity of
    // Equal and congruence: x == y  =>  cmp(x,z) == cmp(y,z))
    for i in 0..3 {
        for j in 0..3 {
            for k in 0..3 {
                if m[i][j] != Ordering::Greater && m[j][k] != Ordering::Greater {
                    pv_ensure!(
                        m[i][k] != Ordering::Greater,
                        "order:not-transitive",
                        "{0} <= {1} and {1} <= {2} but cmp({0},{2}) = Greater; {0}={3:?} {1}={4:?} {2}={5:?}",
                        names[i], names[j], names[k], pds[i], pds[j], pds[k]
                    );
                }
                if m[i][j] == Ordering::Equal {
                    pv_ensure!(
                        m[i][k] == m[j][k],
                        "order:equal-values-compare-differently",
                        "{0} == {1} but cmp({0},{2}) = {6:?} and cmp({1},{2}) = {7:?}; {0}={3:?} {1}={4:?} {2}={5:?}",
                        names[i], names[j], names[k], pds[i], pds[j], pds[k], m[i][k], m[j][k]
                    );
                }
            }
        }
    }
    // statistics + non-triviality: pairs whose comparison had to look inside same-kind payloads
    let mut same = 0;
    for (i, j) in [(0, 1), (1, 2), (0, 2)] {
        if pds[i].family() == pds[j].family() {
            same += 1;
            obs.class(format!("pair:same-kind:{}:{}", ["constr", "map", "array", "int", "bytes"][pds[i].family() as usize], ord_name(m[i][j])));
            if pds[i].kind() != pds[j].kind() {
                obs.class("pair:mixed-int-representation");
            }
        } else {
            obs.class("pair:cross-kind");
        }
    }
    let distinct_outcomes = [m[0][1], m[1][2], m[0][2]].iter().filter(|o| **o != Ordering::Equal).count();
    obs.class(format!("triple:non-equal-pairs:{distinct_outcomes}"));
    obs.nontrivial_if(same >= 2 && (ch1 || ch2));
    Ok(())
}

// ---------------------------------------------------------------------------------------------
// (4) def/indef flags do not matter
// ---------------------------------------------------------------------------------------------

#[derive(Debug, Clone, Serialize, Deserialize)]
pub struct FlagCase {
    pub a: PD,
    pub mask: u64,
    pub e: Edit,
}

fn check_flags(t: &FlagCase, obs: &mut Obs) -> Result<(), Fail> {
    let mut a2 = t.a.clone();
    let flipped = pd::flip_flags(&mut a2, t.mask);
    let (cp, _) = pd::apply(&t.a, &t.e);
    let a = pd::to_pallas(&t.a);
    let a2v = pd::to_pallas(&a2);
    let c = pd::to_pallas(&cp);
    pv_ensure!(
        a == a2v && a2v == a,
        "flags:not-equal",
        "flipping {flipped} def/indef flags gave an unequal value: {:?} vs {:?}", t.a, a2
    );
    pv_ensure!(
        a.cmp(&a2v) == Ordering::Equal && a2v.cmp(&a) == Ordering::Equal,
        "flags:cmp-not-equal",
        "flipping {flipped} def/indef flags: cmp = {:?}", a.cmp(&a2v)
    );
    pv_ensure!(
        a.cmp(&c) == a2v.cmp(&c) && c.cmp(&a) == c.cmp(&a2v),
        "flags:change-comparison",
        "cmp(a,c) = {:?} but cmp(a',c) = {:?} where a' = a with {flipped} flags flipped; a={:?} c={:?}",
        a.cmp(&c), a2v.cmp(&c), t.a, cp
    );
    // and the flipped value still round-trips with its own flags
    let bytes = minicbor::to_vec(&a2v).map_err(|e| Fail { sig: "encode-error".into(), msg: e.to_string() })?;
    match decode_full(&bytes) {
        Ok((back, _)) => pv_ensure!(
            pd::from_pallas(&back) == a2,
            "roundtrip-structural-mismatch",
            "flag-flipped value does not round-trip structurally: {}", hexs(&bytes)
        ),
        Err(e) => pv_fail!("decode-error", "cannot decode own encoding {}: {e}", hexs(&bytes)),
    }
    obs.class(format!("flags-flipped:{}", flipped.min(4)));
    obs.nontrivial_if(flipped > 0);
    Ok(())
}

// ---------------------------------------------------------------------------------------------

/// Integers from a tiny universe in all three representations (Int, BigUInt, BigNInt with 0..2
/// leading zero bytes) so that equal and adjacent values are frequent.
fn int_focus() -> impl Strategy<Value = PD> {
    let mags: Vec<u128> = vec![
        0, 1, 2, 3, 23, 24, 255, 256, 257, 65535, 65536, (1 << 63) - 1, 1 << 63, (1 << 63) + 1, (1 << 64) - 1, 1 << 64,
        (1 << 64) + 1, 1 << 72,
    ];
    (prop::sample::select(mags), 0u8..3, 0usize..3, any::<bool>()).prop_map(|(m, rep, pad, neg)| {
        let be: Vec<u8> = m.to_be_bytes().iter().copied().skip_while(|b| *b == 0).collect();
        let mut padded = vec![0u8; pad];
        padded.extend(be);
        match rep {
            0 if !neg && m <= u64::MAX as u128 => PD::Int { neg: false, mag: m as u64 },
            0 if neg && m >= 1 && m - 1 <= u64::MAX as u128 => PD::Int { neg: true, mag: (m - 1) as u64 },
            0 | 1 => {
                if neg {
                    PD::BigN(padded)
                } else {
                    PD::BigU(padded)
                }
            }
            _ => {
                if neg {
                    PD::BigN(padded)
                } else {
                    PD::BigU(padded)
                }
            }
        }
    })
}

/// A tiny universe of values of every kind: independent draws are often equal or adjacent.
fn small_world() -> BoxedStrategy<PD> {
    let tiny_bytes = prop::collection::vec(prop::sample::select(vec![0u8, 1, 255]), 0..=3).prop_map(PD::Bytes);
    let leaf = prop_oneof![3 => int_focus(), 1 => tiny_bytes];
    let head = prop_oneof![
        prop::sample::select(vec![121u64, 122, 127, 1280, 1281, 1400]).prop_map(|t| (t, None)),
        prop::sample::select(vec![0u64, 1, 6, 7, 8, 127, 128]).prop_map(|a| (102u64, Some(a))),
    ];
    leaf.prop_recursive(2, 8, 2, move |inner| {
        prop_oneof![
            (head.clone(), any::<bool>(), prop::collection::vec(inner.clone(), 0..=2))
                .prop_map(|((tag, any), indef, fields)| PD::Constr { tag, any, indef, fields }),
            (any::<bool>(), prop::collection::vec(inner.clone(), 0..=2)).prop_map(|(indef, items)| PD::Array { indef, items }),
            (any::<bool>(), prop::collection::vec((inner.clone(), inner), 0..=2)).prop_map(|(indef, kvs)| PD::Map { indef, kvs }),
        ]
    })
    .boxed()
}

fn small_edit() -> impl Strategy<Value = Edit> {
    prop_oneof![
        4 => small_world().prop_map(Edit::Replace),
        2 => (any::<u16>(), 0u8..3, any::<bool>()).prop_map(|(sel, pad, alt)| Edit::ReRep { sel, pad, alt }),
        2 => (any::<u16>(), any::<bool>()).prop_map(|(sel, up)| Edit::Bump { sel, up }),
        1 => (any::<u16>(), int_focus()).prop_map(|(sel, leaf)| Edit::Leaf { sel, leaf }),
        1 => any::<u16>().prop_map(|sel| Edit::Flip { sel }),
    ]
}

fn boundary_values() -> Vec<PD> {
    let mut v = vec![];
    // byte strings (plain and as bignum payload) at every length 0..=200 and a few larger ones
    let lens: Vec<usize> = (0..=200).chain([255, 256, 257, 511, 512, 513, 1000, 4096, 4097]).collect();
    for n in lens {
        let data: Vec<u8> = (0..n).map(|i| (i * 31 + 7) as u8).collect();
        v.push(PD::Bytes(data.clone()));
        v.push(PD::BigU(data.clone()));
        v.push(PD::BigN(data.clone()));
        v.push(PD::Array { indef: n % 2 == 0, items: vec![PD::Bytes(data.clone()), PD::int(n as i128)] });
        v.push(PD::Map { indef: n % 2 == 1, kvs: vec![(PD::Bytes(data.clone()), PD::BigU(data))] });
    }
    // every constructor tag
    for tag in (121..=127).chain(1280..=1400) {
        for indef in [false, true] {
            v.push(PD::Constr { tag, any: None, indef, fields: vec![] });
            v.push(PD::Constr { tag, any: None, indef, fields: vec![PD::int(1), PD::Bytes(vec![1])] });
        }
    }
    for any in [0u64, 1, 6, 7, 23, 24, 127, 128, 255, 256, 65535, 65536, u32::MAX as u64, u32::MAX as u64 + 1, u64::MAX] {
        for indef in [false, true] {
            v.push(PD::Constr { tag: 102, any: Some(any), indef, fields: vec![] });
            v.push(PD::Constr { tag: 102, any: Some(any), indef, fields: vec![PD::int(-1)] });
        }
    }
    // integers at every head-width boundary, both signs
    for k in 0..=64u32 {
        for d in [-1i128, 0, 1] {
            let m = ((1i128 << k) + d).clamp(0, (1i128 << 64) - 1);
            v.push(PD::int(m));
            v.push(PD::int(-1 - m));
        }
    }
    // empty containers
    for indef in [false, true] {
        v.push(PD::Array { indef, items: vec![] });
        v.push(PD::Map { indef, kvs: vec![] });
    }
    v
}

pub fn run(s: &Session) {
    s.set_rule("values: proptest-generated PlutusData recipes to container depth 4 (all constructor-tag ranges incl. 102+index, \
        Int over -2^64..2^64-1, BigUInt/BigNInt 0..130 bytes with/without leading zeros, byte strings biased to lengths \
        {0,1,63,64,65,127,128,129,200,1000}, def/indef arrays/maps/constr fields) plus a bounded family (every string length 0..200, \
        every constructor tag, every integer head-width boundary). Non-trivial value = contains a byte string > 64 bytes or has \
        container depth >= 2. Triples: b and c are small edits of a (leaf replaced, integer +-1, integer/constructor re-represented, \
        container extended/truncated, def/indef flag flipped, or an unrelated value); non-trivial triple = at least one edit changed \
        the value and >= 2 of the 3 pairs have the same top-level kind (so cmp had to look inside the payloads). Distinct = \
        distinct serialised recipe");
    s.assume("only representable values: Constr.tag in 121..=127|1280..=1400 with any_constructor=None, or tag 102 with Some (constr_index panics otherwise, documented as malformed)");
    s.assume("no particular ranking between values is asserted, only the order laws; for equality only a necessary condition (same kind, constructor index, arity, bytes) and a sufficient one (identical up to def/indef flags and constructor-tag form) are asserted; how integers of different representation compare is not judged");

    s.foreach("boundary-values", boundary_values(), false, |p, obs| check_roundtrip(p, obs));
    s.forall("roundtrip-and-chunking", s.pick(100_000, 3_000_000), || pd::pd(4), |p, obs| check_roundtrip(p, obs));
    s.forall(
        "any-chunking-decodes",
        s.pick(50_000, 1_000_000),
        || {
            (pd::pd(3), pd::bytes_leaf(), prop::collection::vec(prop::collection::vec(any::<u16>(), 0..5), 1..4))
                .prop_map(|(v, b, cuts)| Rechunk { value: PD::Array { indef: false, items: vec![b, v] }, cuts })
        },
        check_rechunk,
    );
    s.forall(
        "order-laws",
        s.pick(100_000, 3_000_000),
        || {
            (pd::pd(4), pd::edit(), pd::edit(), any::<bool>()).prop_map(|(a, e1, e2, chain)| Triple { a, e1, e2, chain })
        },
        check_order,
    );
    // the same laws over a tiny universe (integers in all representations with equal/adjacent
    // magnitudes, both constructor-tag forms of the same index, tiny byte strings): independent
    // draws are frequently equal or neighbours, across and within kinds
    s.forall(
        "order-laws-small-world",
        s.pick(100_000, 3_000_000),
        || (small_world(), small_edit(), small_edit(), any::<bool>()).prop_map(|(a, e1, e2, chain)| Triple { a, e1, e2, chain }),
        check_order,
    );
    s.forall(
        "order-laws-integers",
        s.pick(100_000, 2_000_000),
        || {
            let e = || {
                prop_oneof![
                    4 => int_focus().prop_map(Edit::Replace),
                    1 => pd::int_leaf().prop_map(Edit::Replace),
                    2 => (0u8..3, any::<bool>()).prop_map(|(pad, alt)| Edit::ReRep { sel: 0, pad, alt }),
                    2 => any::<bool>().prop_map(|up| Edit::Bump { sel: 0, up }),
                ]
            };
            (prop_oneof![4 => int_focus(), 1 => pd::int_leaf()], e(), e(), any::<bool>())
                .prop_map(|(a, e1, e2, chain)| Triple { a, e1, e2, chain })
        },
        check_order,
    );
    s.forall(
        "flag-invariance",
        s.pick(50_000, 1_000_000),
        || (pd::pd(4), any::<u64>(), pd::edit()).prop_map(|(a, mask, e)| FlagCase { a, mask, e }),
        check_flags,
    );
    if !s.replaying() {
        for c in [
            "pd:constr-121..127", "pd:constr-1280..1400", "pd:constr-102", "pd:constr-indef", "pd:array-indef", "pd:array-def",
            "pd:map-indef", "pd:map-def", "pd:int-neg-beyond-i64", "pd:int-pos-beyond-i64", "pd:biguint-leading-zero",
            "pd:bignint-leading-zero", "pd:bytes-64", "pd:bytes-65", "pd:bytes-gt128", "has-string-gt64",
            "pair:mixed-int-representation", "pair:same-data-different-encoding", "pair:same-kind:constr:eq", "pair:same-kind:constr:lt", "pair:same-kind:int:eq",
            "pair:same-kind:map:gt", "pair:same-kind:array:lt", "pair:same-kind:bytes:gt", "rechunk:strings-chunked:2",
            "flags-flipped:2",
        ] {
            s.health(s.class_count(c) > 0, &format!("generator never produced class {c}"));
        }
        s.health(s.class_count("pair:same-kind:int:eq") > 50, "too few equal integer pairs");
    }
}
