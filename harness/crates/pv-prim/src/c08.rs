//! C08 — script integrity hash follows the ledger formula (DESIGN §C08).
use crate::c08_vectors::{COST_MODEL_PLUTUS_V1, COST_MODEL_PLUTUS_V2, COST_MODEL_PLUTUS_V3};
use crate::pd::{self, PD};
use pallas_codec::minicbor;
use pallas_primitives::conway::{self, LanguageViews, ScriptData};
use proptest::prelude::*;
use pvkit::blake2b::b256;
use pvkit::cborx::{self, hexser, Node};
use pvkit::mutate::{self, MutOp};
use pvkit::{hexs, pv_ensure, pv_fail, Fail, Obs, Session};
use serde::{Deserialize, Serialize};
use std::collections::BTreeMap;
use std::sync::atomic::{AtomicU64, Ordering as AO};

/// end-to-end sub-checks: the phase-1 validators (forge of the sibling group) and pallas-txbuilder
mod txbuilder;
mod validator;

/// why cases were discarded / what was observed outside the claim (reported as evidence notes)
static DISCARD_UNDECODABLE: AtomicU64 = AtomicU64::new(0);
static DISCARD_NONCANONICAL_REDEEMERS: AtomicU64 = AtomicU64::new(0);
static OBS_NONCANONICAL_HASH_DIFFERS: AtomicU64 = AtomicU64::new(0);

// ---------------------------------------------------------------------------------------------
// recipes
// ---------------------------------------------------------------------------------------------

#[derive(Debug, Clone, Serialize, Deserialize)]
pub struct RedeemerR {
    /// 0..=5 (spend, mint, cert, reward, vote, propose)
    pub tag: u8,
    pub index: u32,
    pub data: PD,
    pub mem: u64,
    pub steps: u64,
}

#[derive(Debug, Clone, Serialize, Deserialize)]
pub enum RedeemersR {
    Absent,
    List(Vec<RedeemerR>),
    /// written sorted by (tag, index) without duplicates (the library's canonical form)
    Map(Vec<RedeemerR>),
}

#[derive(Debug, Clone, Serialize, Deserialize)]
pub struct DatumsR {
    pub tag258: bool,
    pub indef: bool,
    /// each datum: a PlutusData recipe plus meaning-preserving re-encodings applied to its bytes
    pub items: Vec<(PD, Vec<MutOp>)>,
}

#[derive(Debug, Clone, Serialize, Deserialize)]
pub struct Views {
    pub v1: Option<Vec<i64>>,
    pub v2: Option<Vec<i64>>,
    pub v3: Option<Vec<i64>>,
}

#[derive(Debug, Clone, Serialize, Deserialize)]
pub struct Case {
    pub redeemers: RedeemersR,
    /// meaning-preserving re-encodings of the redeemer field (usually empty = canonical form)
    pub redeemer_ops: Vec<MutOp>,
    pub datums: Option<DatumsR>,
    /// number of dummy vkey witnesses (key 0) in the witness set
    pub vkeys: u8,
    pub wit_indef: bool,
    /// rotation of the witness-set map entries
    pub rot: u8,
    /// None = the caller passes no language views at all
    pub views: Option<Views>,
}

const DATUM_FORMS: [&str; 3] = ["widen-head", "chunk-string", "widen-len"];

fn coeff() -> impl Strategy<Value = i64> {
    prop_oneof![
        4 => 0i64..100_000,
        2 => -100_000i64..0,
        1 => prop::sample::select(vec![i64::MIN, i64::MAX, -1, 0, 23, 24, -24, -25, 255, 256, -256, -257, 65535, 65536,
            u32::MAX as i64, u32::MAX as i64 + 1, -(u32::MAX as i64) - 1, -(u32::MAX as i64) - 2]),
        1 => any::<i64>(),
    ]
}

fn cost_vec() -> impl Strategy<Value = Vec<i64>> {
    prop_oneof![
        6 => prop::collection::vec(coeff(), 0..12),
        1 => prop::collection::vec(coeff(), 150..300),
    ]
}

fn views() -> impl Strategy<Value = Option<Views>> {
    // every subset of {V1,V2,V3} (the 3 option flags), plus "no views passed"
    prop_oneof![
        1 => Just(None),
        9 => (prop::option::weighted(0.5, cost_vec()), prop::option::weighted(0.5, cost_vec()), prop::option::weighted(0.5, cost_vec()))
            .prop_map(|(v1, v2, v3)| Some(Views { v1, v2, v3 })),
    ]
}

fn redeemer() -> impl Strategy<Value = RedeemerR> {
    (0u8..6, prop_oneof![3 => 0u32..4, 1 => any::<u32>()], pd::pd_small(), prop_oneof![0u64..1000, any::<u64>()], prop_oneof![0u64..1000, any::<u64>()])
        .prop_map(|(tag, index, data, mem, steps)| RedeemerR { tag, index, data, mem, steps })
}

fn redeemers() -> impl Strategy<Value = RedeemersR> {
    prop_oneof![
        2 => Just(RedeemersR::Absent),
        3 => prop::collection::vec(redeemer(), 0..4).prop_map(RedeemersR::List),
        3 => prop::collection::vec(redeemer(), 0..4).prop_map(RedeemersR::Map),
    ]
}

fn datums() -> impl Strategy<Value = Option<DatumsR>> {
    prop_oneof![
        2 => Just(None),
        5 => (any::<bool>(), any::<bool>(), prop::collection::vec((pd::pd_small(), prop_oneof![2 => Just(vec![]), 3 => mutate::mutops(3)]), 1..4))
            .prop_map(|(tag258, indef, items)| Some(DatumsR { tag258, indef, items })),
    ]
}

pub fn case() -> impl Strategy<Value = Case> {
    (
        redeemers(),
        prop_oneof![9 => Just(vec![]), 1 => mutate::mutops(2)],
        datums(),
        0u8..3,
        any::<bool>(),
        any::<u8>(),
        views(),
    )
        .prop_map(|(redeemers, redeemer_ops, datums, vkeys, wit_indef, rot, views)| Case {
            redeemers, redeemer_ops, datums, vkeys, wit_indef, rot, views,
        })
}

// ---------------------------------------------------------------------------------------------
// own encoders
// ---------------------------------------------------------------------------------------------

fn redeemer_key(r: &RedeemerR) -> Node {
    cborx::array(vec![cborx::uint(r.tag as u64), cborx::uint(r.index as u64)])
}
fn redeemer_val(r: &RedeemerR) -> Node {
    cborx::array(vec![pd::to_node(&r.data), cborx::array(vec![cborx::uint(r.mem), cborx::uint(r.steps)])])
}

fn redeemers_node(r: &RedeemersR) -> Option<Node> {
    match r {
        RedeemersR::Absent => None,
        RedeemersR::List(v) => Some(cborx::array(
            v.iter()
                .map(|r| {
                    cborx::array(vec![
                        cborx::uint(r.tag as u64),
                        cborx::uint(r.index as u64),
                        pd::to_node(&r.data),
                        cborx::array(vec![cborx::uint(r.mem), cborx::uint(r.steps)]),
                    ])
                })
                .collect(),
        )),
        RedeemersR::Map(v) => {
            let mut m: BTreeMap<(u8, u32), &RedeemerR> = BTreeMap::new();
            for r in v {
                m.entry((r.tag, r.index)).or_insert(r);
            }
            Some(cborx::map(m.values().map(|r| (redeemer_key(r), redeemer_val(r))).collect()))
        }
    }
}

fn datums_node(d: &DatumsR) -> (Node, usize) {
    let mut applied = 0;
    let items: Vec<Node> = d
        .items
        .iter()
        .map(|(p, ops)| {
            let mut n = pd::to_node(p);
            for op in ops {
                if mutate::apply_form(&mut n, op, &DATUM_FORMS).is_some() {
                    applied += 1;
                }
            }
            n
        })
        .collect();
    let arr = if d.indef { cborx::array_indef(items) } else { cborx::array(items) };
    (if d.tag258 { cborx::tag(258, arr) } else { arr }, applied)
}

/// Language views as the ledger hashes them: a definite map; keys in canonical (length-first)
/// order, i.e. `01` (V2), `02` (V3), then `41 00` (V1); V2/V3: uint key -> definite array of ints;
/// V1: the key is the byte string containing the encoding of 0 and the value is the byte string
/// containing the *indefinite-length* array of ints.
pub fn language_views_bytes(v: &Views) -> Vec<u8> {
    let ints = |c: &Vec<i64>| c.iter().map(|x| cborx::int(*x as i128)).collect::<Vec<_>>();
    let mut entries = vec![];
    if let Some(c) = &v.v2 {
        entries.push((cborx::uint(1), cborx::array(ints(c))));
    }
    if let Some(c) = &v.v3 {
        entries.push((cborx::uint(2), cborx::array(ints(c))));
    }
    if let Some(c) = &v.v1 {
        let inner = cborx::write(&cborx::array_indef(ints(c)));
        entries.push((cborx::bytes(&[0x00]), cborx::bytes(&inner)));
    }
    cborx::write(&cborx::map(entries))
}

fn to_language_views(v: &Option<Views>) -> Option<LanguageViews> {
    v.as_ref().map(|v| {
        let mut m = BTreeMap::new();
        if let Some(c) = &v.v1 {
            m.insert(0u8, c.clone());
        }
        if let Some(c) = &v.v2 {
            m.insert(1u8, c.clone());
        }
        if let Some(c) = &v.v3 {
            m.insert(2u8, c.clone());
        }
        LanguageViews(m)
    })
}

struct Built {
    bytes: Vec<u8>,
    /// redeemer field bytes as written
    r: Option<Vec<u8>>,
    /// datum field bytes as written
    d: Option<Vec<u8>>,
    datum_forms_applied: usize,
}

fn build_witness_set(c: &Case) -> Built {
    let mut entries: Vec<(Node, Node)> = vec![];
    if c.vkeys > 0 {
        let w: Vec<Node> = (0..c.vkeys)
            .map(|i| cborx::array(vec![cborx::bytes(&[i + 1; 32]), cborx::bytes(&[0xa0 + i; 64])]))
            .collect();
        entries.push((cborx::uint(0), cborx::array(w)));
    }
    let mut datum_forms_applied = 0;
    if let Some(d) = &c.datums {
        let (n, a) = datums_node(d);
        datum_forms_applied = a;
        entries.push((cborx::uint(4), n));
    }
    if let Some(mut n) = redeemers_node(&c.redeemers) {
        for op in &c.redeemer_ops {
            // (no "def-indef": it could hit the [index, fields] wrapper of a Constr 102, which the
            // library only accepts in definite form - a decoder matter outside this property)
            mutate::apply_form(&mut n, op, &["widen-head", "widen-len", "chunk-string"]);
        }
        entries.push((cborx::uint(5), n));
    }
    if entries.len() >= 2 {
        let r = c.rot as usize % entries.len();
        entries.rotate_left(r);
    }
    let node = if c.wit_indef { cborx::map_indef(entries) } else { cborx::map(entries) };
    let bytes = cborx::write(&node);
    // spans of the fields "as they appeared", from an independent parse of the written bytes
    let tree = cborx::read(&bytes).expect("own encoding is well-formed");
    let r = tree.map_get(5).map(|n| n.span(&bytes).to_vec());
    let d = tree.map_get(4).map(|n| n.span(&bytes).to_vec());
    Built { bytes, r, d, datum_forms_applied }
}

fn formula(r: Option<&[u8]>, d: Option<&[u8]>, l: Option<&[u8]>) -> [u8; 32] {
    let mut buf = vec![];
    buf.extend_from_slice(r.unwrap_or(&[0xa0]));
    if let Some(d) = d {
        buf.extend_from_slice(d);
    }
    buf.extend_from_slice(l.unwrap_or(&[0xa0]));
    b256(&buf)
}

fn classify(c: &Case, b: &Built, obs: &mut Obs) -> bool {
    let nlang = c.views.as_ref().map(|v| v.v1.is_some() as u8 + v.v2.is_some() as u8 + v.v3.is_some() as u8);
    obs.class(match &c.views {
        None => "views:none".to_string(),
        Some(v) => format!(
            "views:{{{}{}{}}}",
            if v.v1.is_some() { "V1" } else { "" },
            if v.v2.is_some() { "V2" } else { "" },
            if v.v3.is_some() { "V3" } else { "" }
        ),
    });
    obs.class(match &c.redeemers {
        RedeemersR::Absent => "redeemers:absent",
        RedeemersR::List(v) if v.is_empty() => "redeemers:list-empty",
        RedeemersR::List(_) => "redeemers:list",
        RedeemersR::Map(v) if v.is_empty() => "redeemers:map-empty",
        RedeemersR::Map(_) => "redeemers:map",
    });
    obs.class(match &c.datums {
        None => "datums:absent".to_string(),
        Some(d) => format!("datums:{}{}", if d.tag258 { "tag258+" } else { "" }, if d.indef { "indef" } else { "def" }),
    });
    let negative = c.views.as_ref().map_or(false, |v| {
        [&v.v1, &v.v2, &v.v3].iter().any(|c| c.as_ref().map_or(false, |c| c.iter().any(|x| *x < 0)))
    });
    let datum_only = matches!(c.redeemers, RedeemersR::Absent) && c.datums.is_some();
    let noncanon = b.datum_forms_applied > 0
        || c.datums.as_ref().map_or(false, |d| d.indef || !d.tag258 || d.items.iter().any(|(p, _)| p.max_bytes_len() > 64));
    if negative {
        obs.class("views:negative-coefficient");
    }
    if datum_only {
        obs.class("datum-only");
    }
    if b.datum_forms_applied > 0 {
        obs.class("datums:non-canonical-item-encoding");
    }
    b.datum_forms_applied > 0 || noncanon || nlang.unwrap_or(0) >= 2 || negative || datum_only
}

// ---------------------------------------------------------------------------------------------
// build_for + hash
// ---------------------------------------------------------------------------------------------

fn check_build_for(c: &Case, obs: &mut Obs) -> Result<(), Fail> {
    let b = build_witness_set(c);
    let wit: conway::WitnessSet = match minicbor::decode(&b.bytes) {
        Ok(w) => w,
        Err(e) => {
            // outside C08: the property is about witness sets the library decodes
            obs.discard();
            if DISCARD_UNDECODABLE.fetch_add(1, AO::Relaxed) < 3 {
                eprintln!("[C08] note: generated witness set {} not decodable: {e}", hexs(&b.bytes));
            }
            return Ok(());
        }
    };
    // precondition (DESIGN, interpretation): redeemers are in the library's canonical form
    if let (Some(r), Some(red)) = (&b.r, &wit.redeemer) {
        let re = minicbor::to_vec(red.clone().unwrap()).map_err(|e| Fail { sig: "encode-error".into(), msg: e.to_string() })?;
        if &re != r {
            obs.discard();
            DISCARD_NONCANONICAL_REDEEMERS.fetch_add(1, AO::Relaxed);
            // observation outside the listed claim: the library hashes its re-encoding
            if let Some(sd) = ScriptData::build_for(&wit, &to_language_views(&c.views)) {
                let l = c.views.as_ref().map(language_views_bytes);
                if sd.hash()[..] != formula(b.r.as_deref(), b.d.as_deref(), l.as_deref())[..] {
                    OBS_NONCANONICAL_HASH_DIFFERS.fetch_add(1, AO::Relaxed);
                }
            }
            return Ok(());
        }
    }
    let nontrivial = classify(c, &b, obs);
    let lv = to_language_views(&c.views);
    let sd = ScriptData::build_for(&wit, &lv);
    let neither = b.r.is_none() && b.d.is_none();
    pv_ensure!(
        sd.is_none() == neither,
        if neither { "build-for:some-without-script-data" } else { "build-for:none-with-script-data" },
        "build_for returned {} for a witness set with redeemers={} datums={} ({})",
        if sd.is_some() { "Some" } else { "None" }, b.r.is_some(), b.d.is_some(), hexs(&b.bytes)
    );
    let Some(sd) = sd else {
        obs.class("neither-redeemers-nor-datums");
        return Ok(());
    };
    let got = sd.hash();
    let l = c.views.as_ref().map(language_views_bytes);
    // Language views apply only to a transaction that runs scripts, i.e. has redeemers.
    let mut accepted = vec![];
    if b.r.is_some() {
        accepted.push(formula(b.r.as_deref(), b.d.as_deref(), l.as_deref()));
    } else {
        // no redeemers => no script runs => empty language views, whatever the caller passed (the ledger's rule; the
        // real transaction datum-only.tx confirms it against its on-chain hash, see `real-transactions`)
        accepted.push(formula(None, b.d.as_deref(), None));
    }
    pv_ensure!(
        accepted.iter().any(|h| h[..] == got[..]),
        format!(
            "hash-mismatch:{}{}",
            if b.r.is_some() { "redeemers" } else { "no-redeemers" },
            if b.d.is_some() { "+datums" } else { "" }
        ),
        "ScriptData::build_for(..).hash() = {} but the formula gives {} (witness set {}, R={:?}, D={:?}, L={:?})",
        hexs(&got[..]), hexs(&accepted[0]), hexs(&b.bytes), b.r.as_ref().map(|x| hexs(x)), b.d.as_ref().map(|x| hexs(x)),
        l.as_ref().map(|x| hexs(x))
    );
    obs.nontrivial_if(nontrivial);
    Ok(())
}

/// `ScriptData { .. }.hash()` with the fields set directly (as pallas-txbuilder does): every
/// combination of present/absent parts, no interpretation needed.
fn check_hash_direct(c: &Case, obs: &mut Obs) -> Result<(), Fail> {
    let b = build_witness_set(c);
    let wit: conway::WitnessSet = match minicbor::decode(&b.bytes) {
        Ok(w) => w,
        Err(_) => {
            obs.discard();
            return Ok(());
        }
    };
    let redeemers: Option<conway::Redeemers> = wit.redeemer.as_ref().map(|r| r.clone().unwrap());
    // R for a directly-set `redeemers` value is its own encoding; compare with the harness' canonical bytes
    if let (Some(r), Some(red)) = (&b.r, &redeemers) {
        let re = minicbor::to_vec(red).map_err(|e| Fail { sig: "encode-error".into(), msg: e.to_string() })?;
        if &re != r {
            obs.discard();
            return Ok(());
        }
    }
    let nontrivial = classify(c, &b, obs);
    let sd = ScriptData { redeemers, datums: wit.plutus_data.clone(), language_views: to_language_views(&c.views) };
    let got = sd.hash();
    let l = c.views.as_ref().map(language_views_bytes);
    let want = formula(b.r.as_deref(), b.d.as_deref(), l.as_deref());
    pv_ensure!(
        want[..] == got[..],
        format!(
            "direct-hash-mismatch:{}{}{}",
            if b.r.is_some() { "redeemers" } else { "no-redeemers" },
            if b.d.is_some() { "+datums" } else { "" },
            if l.is_some() { "+views" } else { "" }
        ),
        "ScriptData.hash() = {} but the formula gives {} (R={:?}, D={:?}, L={:?})",
        hexs(&got[..]), hexs(&want), b.r.as_ref().map(|x| hexs(x)), b.d.as_ref().map(|x| hexs(x)), l.as_ref().map(|x| hexs(x))
    );
    obs.nontrivial_if(nontrivial || (b.r.is_none() && l.is_some()));
    Ok(())
}

// ---------------------------------------------------------------------------------------------
// language views alone: every subset, exhaustively, with fixed vectors of several shapes
// ---------------------------------------------------------------------------------------------

fn check_views_encoding(v: &Views, obs: &mut Obs) -> Result<(), Fail> {
    let lv = to_language_views(&Some(v.clone())).unwrap();
    let got = minicbor::to_vec(&lv).map_err(|e| Fail { sig: "encode-error".into(), msg: e.to_string() })?;
    let want = language_views_bytes(v);
    let subset = format!(
        "{}{}{}",
        if v.v1.is_some() { "V1" } else { "" },
        if v.v2.is_some() { "V2" } else { "" },
        if v.v3.is_some() { "V3" } else { "" }
    );
    obs.class(format!("subset:{{{subset}}}"));
    pv_ensure!(
        got == want,
        format!("language-views-encoding:{{{subset}}}"),
        "LanguageViews encodes to {} but the ledger form is {}", hexs(&got), hexs(&want)
    );
    obs.nontrivial_if(v.v1.is_some() as u8 + v.v2.is_some() as u8 + v.v3.is_some() as u8 >= 1);
    Ok(())
}

// ---------------------------------------------------------------------------------------------
// the five real transactions of the repo's own test
// ---------------------------------------------------------------------------------------------

#[derive(Debug, Clone, Serialize, Deserialize)]
pub struct RealTx {
    pub name: String,
    /// languages whose (mainnet) cost models are in the views: 0 = V1, 1 = V2, 2 = V3
    pub langs: Vec<u8>,
    #[serde(with = "hexser")]
    pub bytes: Vec<u8>,
}

fn real_views(langs: &[u8]) -> Option<Views> {
    if langs.is_empty() {
        return None;
    }
    Some(Views {
        v1: langs.contains(&0).then(|| COST_MODEL_PLUTUS_V1.to_vec()),
        v2: langs.contains(&1).then(|| COST_MODEL_PLUTUS_V2.to_vec()),
        v3: langs.contains(&2).then(|| COST_MODEL_PLUTUS_V3.to_vec()),
    })
}

fn check_real(t: &RealTx, obs: &mut Obs) -> Result<(), Fail> {
    let tree = match cborx::read(&t.bytes) {
        Ok(x) => x,
        Err(e) => pv_fail!("real-tx:not-wellformed", "{}: {e:?}", t.name),
    };
    let parts = tree.as_array().cloned().unwrap_or_default();
    pv_ensure!(parts.len() == 4, "real-tx:shape", "{}: not a 4-element transaction", t.name);
    let on_chain = parts[0].map_get(11).and_then(|n| n.as_bytes());
    let Some(on_chain) = on_chain else { pv_fail!("real-tx:shape", "{}: no script_data_hash in the body", t.name) };
    let r = parts[1].map_get(5).map(|n| n.span(&t.bytes).to_vec());
    let d = parts[1].map_get(4).map(|n| n.span(&t.bytes).to_vec());
    let views = real_views(&t.langs);
    // no redeemers => no script runs => the views are the empty map, whatever cost models are at hand
    let l = if r.is_some() { views.as_ref().map(language_views_bytes) } else { None };
    let want = formula(r.as_deref(), d.as_deref(), l.as_deref());
    // the reference itself is validated against the chain: the hash in the body was accepted by the ledger
    pv_ensure!(
        want[..] == on_chain[..],
        "oracle-disagrees-with-chain",
        "{}: reference formula gives {} but the accepted transaction carries {}", t.name, hexs(&want), hexs(&on_chain)
    );
    let tx: conway::Tx = match minicbor::decode(&t.bytes) {
        Ok(x) => x,
        Err(e) => pv_fail!("real-tx:decode-error", "{}: {e}", t.name),
    };
    let wit = tx.transaction_witness_set.clone().unwrap();
    let Some(sd) = ScriptData::build_for(&wit, &to_language_views(&views)) else {
        pv_fail!("build-for:none-with-script-data", "{}: build_for returned None", t.name)
    };
    let got = sd.hash();
    pv_ensure!(
        got[..] == want[..],
        format!("hash-mismatch:real:{}", t.name),
        "{}: ScriptData hash {} != ledger formula / on-chain {}", t.name, hexs(&got[..]), hexs(&want)
    );
    obs.class(format!("real:{}", t.name));
    obs.class(format!("real:redeemers-{}", match parts[1].map_get(5).map(|n| n.as_map().is_some()) {
        Some(true) => "map",
        Some(false) => "list",
        None => "absent",
    }));
    obs.nontrivial();
    Ok(())
}

pub fn run(s: &Session) {
    s.set_rule("witness sets written by the harness' own CBOR writer: redeemers absent / list / map (0..3 entries, PlutusData payloads to depth 3), \
        datums absent or 1..3 items in a definite/indefinite array with/without tag 258, each datum arbitrary PlutusData whose bytes are \
        additionally re-encoded (non-minimal heads, chunked strings, wide lengths); 0..2 dummy vkey witnesses, map entries rotated, definite/indefinite \
        witness map; language views: None or any subset of {V1,V2,V3} with cost vectors of 0..11 (sometimes 150..299) i64 coefficients incl. negative and \
        MIN/MAX. Expected hash = own Blake2b-256 over R||D||L with R,D the byte spans of the written fields (independent parse) and L the harness' own \
        encoding. Non-trivial = datum field not in the library's canonical form (untagged, indefinite, re-encoded items, strings > 64), or >= 2 languages, \
        or a negative coefficient, or datum-only. Plus the 8 language subsets x 5 vector shapes exhaustively and the five real transactions of the repo's \
        test (reference validated against the hash in the accepted body). Distinct = distinct serialised recipe. \
        End to end (1) validator-script-integrity: Plutus recipes of the sibling group's transaction forge (Conway: PlutusV1/V2/V3 x script in the witness set / \
        in the script_ref of a reference input x redeemers as list / map x with / without plain reference inputs, plus native-script mints, metadata, \
        collateral return; some Babbage and Alonzo recipes): the hash the forge wrote is first recomputed from the forged bytes (cborx spans of witness-set \
        fields 5 and 4, own view encoding of the cost model of the one language that runs, own Blake2b); the phase-1 validator must not answer ScriptIntegrityHash, \
        also not when the cost model of a language that does not run is altered / removed in the parameters; and an accepted transaction must be rejected with each wrong hash \
        (views of another language, an extra language, all languages, no views, datums left out, redeemers as the empty map, redeemers re-encoded list<->map, datums re-encoded \
        indefinite, hash removed, one bit flipped - body rewritten and signed again with the harness keys) and under parameters whose cost model for the running language is \
        altered / missing. Non-trivial = accepted base with all variants judged. (2) txbuilder-script-data-hash: StagingTransaction with 1..3 inputs, an output, optional Plutus \
        script, 0..3 datums, 0..2 spend and 0..2 mint redeemers, language views unset / set in one call / added one by one in any order for every subset of {V1,V2,V3}; \
        body field 11 of the built bytes must equal the formula over the witness-set fields of the built bytes, and be absent when there are neither redeemers nor datums. \
        Non-trivial = at least one language view");
    s.assume("redeemers are generated in the library's canonical form (precondition to_vec(decoded) == written bytes, otherwise the case is discarded): the statement says 'redeemer bytes' without 'as they appeared'");
    s.assume("for a datum-only witness set with non-empty language views passed anyway build_for must use L = a0 (the ledger's rule: no redeemers, no scripts run; datum-only.tx confirms it against its on-chain hash); `ScriptData{..}.hash()` with fields set directly is checked literally");
    s.assume("language view keys are only the three known languages 0,1,2");
    s.assume("validator-script-integrity: the forged transactions hold exactly one Plutus script, so the languages of the transaction are that one language under the ledger's reading (scripts needed) and under pallas' (scripts present)");
    s.assume("txbuilder-script-data-hash: for a built transaction with datums but no redeemers and non-empty language views given anyway, both L = views and L = a0 are accepted (as in build-for); R is the empty map a0 there");

    // real transactions
    let reals: Vec<RealTx> = [
        ("conway1.tx", vec![1u8]),
        ("conway2.tx", vec![0]),
        ("hydra-init.tx", vec![1]),
        ("datum-only.tx", vec![]),
        // the same transaction with cost models handed in anyway: its on-chain hash is H(a0 || datums || a0), so views
        // passed for a witness set without redeemers must not enter the hash (this settles the reading used below)
        ("datum-only.tx", vec![0]),
        ("datum-only.tx", vec![0, 1, 2]),
        ("conway9.tx", vec![0, 1, 2]),
    ]
    .into_iter()
    .filter_map(|(n, langs)| {
        let txt = std::fs::read_to_string(pvkit::corpus::test_data().join(n)).ok()?;
        Some(RealTx { name: n.to_string(), langs, bytes: hex::decode(txt.trim()).ok()? })
    })
    .collect();
    let n_real = reals.len();
    s.foreach("real-transactions", reals, true, check_real);
    if !s.replaying() {
        s.health(n_real == 7, "the five real transactions of the repo's test could not all be loaded");
    }

    // every subset of languages x vector shapes
    let shapes: Vec<Vec<i64>> = vec![
        vec![],
        vec![0],
        vec![-1, i64::MIN, i64::MAX, 23, 24, -24, -25, 255, 256, 65535, 65536, 4294967295, 4294967296],
        COST_MODEL_PLUTUS_V1.to_vec(),
        COST_MODEL_PLUTUS_V3.to_vec(),
    ];
    let mut fam = vec![];
    for mask in 0..8u8 {
        for (i, sh) in shapes.iter().enumerate() {
            let pick = |bit: u8, k: usize| (mask & bit != 0).then(|| shapes[(i + k) % shapes.len()].clone());
            let _ = sh;
            fam.push(Views { v1: pick(1, 0), v2: pick(2, 1), v3: pick(4, 2) });
        }
    }
    s.foreach("language-views-all-subsets", fam, true, check_views_encoding);

    s.forall("build-for", s.pick(100_000, 2_000_000), case, check_build_for);
    s.forall("hash-direct", s.pick(50_000, 1_000_000), case, check_hash_direct);
    s.forall("validator-script-integrity", s.pick(10_000, 160_000), validator::vcase, validator::check);
    s.forall("validator-hash-without-script-data", s.pick(4_000, 60_000), validator::pcase, validator::check_plain);
    s.forall("txbuilder-script-data-hash", s.pick(40_000, 800_000), txbuilder::tcase, txbuilder::check);

    if !s.replaying() {
        // validator sub-check: every cell of (where the script is) x version x redeemer form reached an accepted base, every variant was judged
        for wher in ["witness", "reference"] {
            for ver in 1..=3 {
                for form in ["list", "map"] {
                    let c = format!("v:verdict:accepted:conway:{wher}:v{ver}:{form}");
                    s.health(s.class_count(&c) > 0, &format!("validator-script-integrity never reached {c}"));
                }
            }
        }
        for c in [
            "v:verdict:accepted:babbage:witness:v1:list", "v:verdict:accepted:babbage:witness:v2:list", "v:verdict:accepted:babbage:reference:v2:list",
            "v:verdict:accepted:alonzo:witness:v1:list", "v:plain-reference-inputs:some", "v:plain-reference-inputs:none",
            "v:unused-language-cost-model-changed:still-accepted",
        ] {
            s.health(s.class_count(c) > 0, &format!("validator-script-integrity never reached {c}"));
        }
        for v in [
            "views-of-another-language", "views-with-extra-language", "views-of-all-languages", "no-views", "datums-left-out", "redeemers-as-empty-map",
            "redeemers-reencoded-as-list", "redeemers-reencoded-as-map", "datums-reencoded-indefinite", "hash-removed", "one-bit-flipped",
            "parameters-cost-model-altered", "parameters-cost-model-missing",
        ] {
            let n = s.class_count(&format!("v:wrong-hash:conway:{v}:rejected-as-ScriptIntegrityHash")) + s.class_count(&format!("v:wrong-hash:conway:{v}:rejected-otherwise"));
            s.health(n > 0, &format!("validator-script-integrity never judged the wrong-hash variant {v} (conway)"));
        }
        for era in ["babbage", "alonzo"] {
            let n = s.class_count(&format!("v:wrong-hash:{era}:one-bit-flipped:rejected-as-ScriptIntegrityHash")) + s.class_count(&format!("v:wrong-hash:{era}:one-bit-flipped:rejected-otherwise"));
            s.health(n > 0, &format!("validator-script-integrity never judged a wrong hash in {era}"));
        }
        // txbuilder sub-check: every shape x every subset (and views never set)
        for shape in ["redeemers+datums", "redeemers-only", "datums-only", "neither"] {
            for sub in ["unset", "{}", "{V1}", "{V2}", "{V3}", "{V1V2}", "{V1V3}", "{V2V3}", "{V1V2V3}"] {
                let c = format!("t:{shape}:views:{sub}");
                s.health(s.class_count(&c) > 0, &format!("txbuilder-script-data-hash never built {c}"));
            }
        }
        for c in ["t:redeemer:spend", "t:redeemer:mint", "t:views-through:language_views", "t:views-through:add_language", "t:views-through:unset",
            "t:script:none", "t:script:v1", "t:script:v2", "t:script:v3", "t:field-11:present", "t:field-11:absent"] {
            s.health(s.class_count(c) > 0, &format!("txbuilder-script-data-hash never reached {c}"));
        }
    }

    s.note("discarded_undecodable_witness_sets", serde_json::json!(DISCARD_UNDECODABLE.load(AO::Relaxed)));
    s.note("discarded_noncanonical_redeemers", serde_json::json!(DISCARD_NONCANONICAL_REDEEMERS.load(AO::Relaxed)));
    s.note(
        "observation_noncanonical_redeemers_hashed_as_reencoding",
        serde_json::json!(OBS_NONCANONICAL_HASH_DIFFERS.load(AO::Relaxed)),
    );
    if !s.replaying() {
        s.health(DISCARD_UNDECODABLE.load(AO::Relaxed) == 0, "some generated witness sets were not decodable by the library (generator outside the domain?)");
        for c in [
            "views:none", "views:{}", "views:{V1}", "views:{V2}", "views:{V3}", "views:{V1V2}", "views:{V1V3}", "views:{V2V3}", "views:{V1V2V3}",
            "redeemers:absent", "redeemers:list", "redeemers:map", "redeemers:list-empty", "redeemers:map-empty",
            "datums:absent", "datums:def", "datums:indef", "datums:tag258+def", "datums:tag258+indef",
            "datums:non-canonical-item-encoding", "views:negative-coefficient", "datum-only", "neither-redeemers-nor-datums",
        ] {
            s.health(s.class_count(c) > 0, &format!("generator never produced class {c}"));
        }
    }
}
