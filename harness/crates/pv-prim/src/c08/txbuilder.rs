//! C08 sub-check `txbuilder-script-data-hash`: the script-data hash pallas-txbuilder writes into built Conway
//! transactions, judged on the *built bytes* only: R and D are the spans of witness-set fields 5 and 4 of the
//! built transaction (independent cborx parse), L is the harness' own encoding of the language views handed to the
//! builder, the hash is the harness' Blake2b-256, and the result is compared with body field 11.
use super::{cost_vec, formula, language_views_bytes, Views};
use crate::pd::{self, PD};
use pallas_crypto::hash::Hash;
use pallas_primitives::conway::LanguageViews;
use pallas_txbuilder::{BuildConway, ExUnits, Input, Output, ScriptKind, StagingTransaction};
use proptest::prelude::*;
use pvkit::blake2b::b256;
use pvkit::cborx;
use pvkit::{hexs, pv_ensure, pv_fail, Fail, Obs};
use serde::{Deserialize, Serialize};
use std::collections::BTreeMap;

#[derive(Debug, Clone, Serialize, Deserialize)]
pub enum ViewsHow {
    /// no language-view call at all
    Unset,
    /// one `.language_views(map)` call (an empty subset gives an empty map)
    Whole(Views),
    /// one `.add_language(..)` call per language of the subset, in the order given by the permutation number
    Each(Views, u8),
}

#[derive(Debug, Clone, Serialize, Deserialize)]
pub struct TCase {
    /// inputs: (byte the transaction id is filled with, output index)
    pub inputs: Vec<(u8, u8)>,
    /// spend redeemers: (selector into `inputs`, data, mem, steps)
    pub spend: Vec<(u16, PD, u64, u64)>,
    /// minted policies: (byte the policy id is filled with, amount, redeemer (data, mem, steps))
    pub mint: Vec<(u8, i64, Option<(PD, u64, u64)>)>,
    pub datums: Vec<PD>,
    /// Plutus script attached to the witness set (version 1..=3)
    pub script: Option<u8>,
    pub views: ViewsHow,
    pub lovelace: u64,
    pub fee: u64,
    /// a value put into the public `script_data_hash` field of the staging transaction beforehand (documented as a cache that
    /// is recomputed at build time): the built hash must not depend on it
    #[serde(default)]
    pub stale_hash: Option<u8>,
}

fn subset() -> impl Strategy<Value = Views> {
    // every subset of {V1,V2,V3}: three independent flags
    (prop::option::weighted(0.5, cost_vec()), prop::option::weighted(0.5, cost_vec()), prop::option::weighted(0.5, cost_vec()))
        .prop_map(|(v1, v2, v3)| Views { v1, v2, v3 })
}

pub fn tcase() -> impl Strategy<Value = TCase> {
    let exu = || prop_oneof![3 => 0u64..5_000_000, 1 => any::<u64>()];
    (
        prop::collection::vec((0u8..6, 0u8..4), 1..4),
        prop_oneof![2 => Just(vec![]), 3 => prop::collection::vec((any::<u16>(), pd::pd_small(), exu(), exu()), 1..3)],
        prop_oneof![
            3 => Just(vec![]),
            2 => prop::collection::vec((0u8..4, prop_oneof![1i64..1000, -1000i64..-1], prop::option::weighted(0.7, (pd::pd_small(), exu(), exu()))), 1..3)
        ],
        prop_oneof![2 => Just(vec![]), 3 => prop::collection::vec(pd::pd_small(), 1..4)],
        prop::option::weighted(0.8, 1u8..=3),
        prop_oneof![2 => Just(ViewsHow::Unset), 5 => subset().prop_map(ViewsHow::Whole), 5 => (subset(), 0u8..6).prop_map(|(v, o)| ViewsHow::Each(v, o))],
        1_000_000u64..50_000_000,
        150_000u64..2_000_000,
    )
        .prop_map(|(inputs, spend, mint, datums, script, views, lovelace, fee)| TCase { inputs, spend, mint, datums, script, views, lovelace, fee, stale_hash: None })
        .prop_flat_map(|c| prop::option::weighted(0.35, any::<u8>()).prop_map(move |stale_hash| TCase { stale_hash, ..c.clone() }))
}

fn kind(v: u8) -> ScriptKind {
    match v {
        1 => ScriptKind::PlutusV1,
        2 => ScriptKind::PlutusV2,
        _ => ScriptKind::PlutusV3,
    }
}

const PERMS: [[u8; 3]; 6] = [[1, 2, 3], [1, 3, 2], [2, 1, 3], [2, 3, 1], [3, 1, 2], [3, 2, 1]];

fn stage(c: &TCase) -> Result<StagingTransaction, String> {
    let mut tx = StagingTransaction::new();
    for (h, i) in &c.inputs {
        tx = tx.input(Input::new(Hash::from([*h; 32]), *i as u64));
    }
    let mut ab = vec![0x61u8];
    ab.extend([0x5a; 28]);
    let addr = pallas_addresses::Address::from_bytes(&ab).map_err(|e| e.to_string())?;
    tx = tx.output(Output::new(addr, c.lovelace)).fee(c.fee);
    if let Some(v) = c.script {
        tx = tx.script(kind(v), vec![0x46, 0x01, 0x00, 0x00, 0x22, 0x20, v]);
    }
    for d in &c.datums {
        tx = tx.datum(cborx::write(&pd::to_node(d)));
    }
    for (sel, data, mem, steps) in &c.spend {
        let (h, i) = c.inputs[pvkit::pick_idx(*sel, c.inputs.len())];
        tx = tx.add_spend_redeemer(Input::new(Hash::from([h; 32]), i as u64), cborx::write(&pd::to_node(data)), Some(ExUnits { mem: *mem, steps: *steps }));
    }
    for (p, amount, red) in &c.mint {
        let policy: Hash<28> = Hash::from([0xb0 + *p; 28]);
        tx = tx.mint_asset(policy, vec![b't', *p], *amount).map_err(|e| e.to_string())?;
        if let Some((data, mem, steps)) = red {
            tx = tx.add_mint_redeemer(policy, cborx::write(&pd::to_node(data)), Some(ExUnits { mem: *mem, steps: *steps }));
        }
    }
    let vec_of = |v: &Views, lang: u8| match lang {
        1 => v.v1.clone(),
        2 => v.v2.clone(),
        _ => v.v3.clone(),
    };
    match &c.views {
        ViewsHow::Unset => {}
        ViewsHow::Whole(v) => {
            let mut m = BTreeMap::new();
            for lang in 1u8..=3 {
                if let Some(cm) = vec_of(v, lang) {
                    m.insert(lang - 1, cm);
                }
            }
            tx = tx.language_views(LanguageViews(m));
        }
        ViewsHow::Each(v, order) => {
            for lang in PERMS[*order as usize % 6] {
                if let Some(cm) = vec_of(v, lang) {
                    tx = tx.add_language(kind(lang), cm);
                }
            }
        }
    }
    Ok(tx)
}

pub fn check(c: &TCase, obs: &mut Obs) -> Result<(), Fail> {
    let staged = match stage(c) {
        Ok(t) => t,
        Err(_) => {
            obs.discard();
            return Ok(());
        }
    };
    let mut staged = staged;
    if let Some(b) = c.stale_hash {
        staged.script_data_hash = Some(pallas_txbuilder::Bytes32([b; 32]));
        obs.class("txbuilder:stale-cached-hash-set");
    }
    let built = match staged.build_conway_raw() {
        Ok(b) => b,
        Err(_) => {
            // e.g. mint amounts of one policy that cancel: its redeemer has no target (C40's subject, not C08's)
            obs.discard();
            return Ok(());
        }
    };
    let bytes: &[u8] = built.tx_bytes.as_ref();
    let tree = match cborx::read(bytes) {
        Ok(t) => t,
        Err(e) => pv_fail!("txbuilder:built-tx-not-wellformed", "{e:?}: {}", hexs(bytes)),
    };
    let items = tree.as_array().cloned().unwrap_or_default();
    pv_ensure!(items.len() == 4, "txbuilder:built-tx-not-wellformed", "not a 4-element transaction: {}", hexs(bytes));
    let (body, wits) = (&items[0], &items[1]);
    let r = wits.map_get(5).map(|n| n.span(bytes).to_vec());
    let d = wits.map_get(4).map(|n| n.span(bytes).to_vec());
    let field11 = body.map_get(11).and_then(|n| n.as_bytes());
    // what the caller handed over must be what the witness set carries (otherwise the shape classes below lie)
    let gave_redeemers = !c.spend.is_empty() || c.mint.iter().any(|m| m.2.is_some());
    pv_ensure!(r.is_some() == gave_redeemers, "txbuilder:redeemers-given-vs-witness-set", "redeemers given: {gave_redeemers}, witness set field 5 present: {}", r.is_some());
    pv_ensure!(d.is_some() == !c.datums.is_empty(), "txbuilder:datums-given-vs-witness-set", "datums given: {}, witness set field 4 present: {}", c.datums.len(), d.is_some());

    let (views, how) = match &c.views {
        ViewsHow::Unset => (None, "unset"),
        ViewsHow::Whole(v) => (Some(v), "language_views"),
        ViewsHow::Each(v, _) => (Some(v), "add_language"),
    };
    let sub = match views {
        None => "unset".to_string(),
        Some(v) => format!("{{{}{}{}}}", if v.v1.is_some() { "V1" } else { "" }, if v.v2.is_some() { "V2" } else { "" }, if v.v3.is_some() { "V3" } else { "" }),
    };
    let nlang = views.map_or(0, |v| v.v1.is_some() as u8 + v.v2.is_some() as u8 + v.v3.is_some() as u8);
    // `add_language` never called = nothing set
    let unset = views.is_none() || (how == "add_language" && nlang == 0);
    let shape = match (r.is_some(), d.is_some()) {
        (true, true) => "redeemers+datums",
        (true, false) => "redeemers-only",
        (false, true) => "datums-only",
        (false, false) => "neither",
    };
    obs.class(format!("t:{shape}:views:{}", if unset { "unset" } else { &sub }));
    obs.class(format!("t:views-through:{}", if unset { "unset" } else { how }));
    obs.class(format!("t:script:{}", c.script.map_or("none".to_string(), |v| format!("v{v}"))));
    if !c.spend.is_empty() {
        obs.class("t:redeemer:spend");
    }
    if c.mint.iter().any(|m| m.2.is_some()) {
        obs.class("t:redeemer:mint");
    }
    obs.class(format!("t:field-11:{}", if field11.is_some() { "present" } else { "absent" }));

    let l = views.map(language_views_bytes);
    let ctx = || {
        format!(
            "views {sub} through {how}; witness set R={:?} D={:?}; L={:?}; body field 11 = {:?}; tx {}",
            r.as_ref().map(|x| hexs(x)), d.as_ref().map(|x| hexs(x)), l.as_ref().map(|x| hexs(x)), field11.as_ref().map(|x| hexs(x)), hexs(bytes)
        )
    };
    if r.is_none() && d.is_none() {
        pv_ensure!(
            field11.is_none(),
            "txbuilder:hash-produced-without-redeemers-or-datums",
            "the built transaction has neither redeemers nor datums but carries a script-data hash; {}", ctx()
        );
        obs.nontrivial_if(nlang > 0);
        return Ok(());
    }
    let Some(got) = field11.clone() else {
        pv_fail!(
            if unset { "txbuilder:no-hash-although-redeemers-or-datums:views-unset" } else { "txbuilder:no-hash-although-redeemers-or-datums" },
            "the built transaction has {shape} but no script-data hash (expected {}); {}", hexs(&formula(r.as_deref(), d.as_deref(), l.as_deref())), ctx()
        )
    };
    if r.is_some() {
        let want = formula(r.as_deref(), d.as_deref(), l.as_deref());
        pv_ensure!(
            got[..] == want[..],
            format!("txbuilder:hash-mismatch:{shape}"),
            "body field 11 is not Blake2b-256(R||D||L) = {}; {}", hexs(&want), ctx()
        );
    } else {
        // no redeemers: R is the empty map; language views given anyway are read either way (ledger: no script runs => a0)
        let accepted = [formula(None, d.as_deref(), l.as_deref()), formula(None, d.as_deref(), None)];
        if !accepted.iter().any(|h| h[..] == got[..]) {
            // root cause known on this tree: the (empty) redeemer *list* `80` is hashed where the witness set has no redeemers
            let mut pre = vec![0x80];
            pre.extend(d.as_deref().unwrap_or_default());
            pre.extend(l.as_deref().unwrap_or(&[0xa0]));
            let sig = if b256(&pre)[..] == got[..] { "txbuilder:datums-only:absent-redeemers-hashed-as-empty-list-80" } else { "txbuilder:hash-mismatch:datums-only" };
            pv_fail!(sig, "body field 11 is neither Blake2b-256(a0||D||L) = {} nor Blake2b-256(a0||D||a0) = {}; {}", hexs(&accepted[0]), hexs(&accepted[1]), ctx());
        }
    }
    obs.nontrivial_if(nlang > 0);
    Ok(())
}
