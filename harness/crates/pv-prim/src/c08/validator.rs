//! C08 sub-check `validator-script-integrity`: the phase-1 validators end to end.
//!
//! Transactions come from the forge of the sibling group (`pv_validate::forge`), which writes a script-data hash
//! of its own into body field 11. Nothing of that is trusted here: the expected hash is recomputed from the forged
//! *bytes* (independent cborx parse: witness-set fields 5 and 4 as they appear; the harness' own language-view
//! encoder of c08.rs applied to the cost model of the one language that runs; the harness' Blake2b) and the forge
//! is first cross-checked against it. Then (b) the validator must not reject that hash, and (c) it must reject
//! every wrong one. Wrong hashes are written into the body with cborx and the transaction is signed again here
//! (harness keys), so that in an accepted base the hash is the only thing that is wrong.
use super::{formula, language_views_bytes, Views};
use ed25519_dalek::Signer;
use proptest::prelude::*;
use pv_validate::forge::{self, EraK, Forged, Spec, Tweaks};
use pv_validate::run::Outcome;
use pv_validate::{gen, pp, run};
use pvkit::blake2b::b256;
use pvkit::cborx::{self, Node};
use pvkit::{hexs, pv_ensure, pv_fail, Fail, Obs};
use serde::{Deserialize, Serialize};

#[derive(Debug, Clone, Serialize, Deserialize)]
pub struct VCase {
    pub spec: Spec,
    /// selects the "other" language of the wrong-hash variants
    pub other: u8,
}

pub fn vcase() -> impl Strategy<Value = VCase> {
    prop_oneof![10 => Just(EraK::Conway), 1 => Just(EraK::Babbage), 1 => Just(EraK::Alonzo)]
        .prop_flat_map(|era| {
            (
                gen::spec_for(era),
                gen::plutus_s(),
                1u8..=3,
                any::<bool>(),
                any::<bool>(),
                prop_oneof![2 => Just(0u8), 1 => 1u8..3],
                any::<u8>(),
            )
        })
        .prop_map(|(mut spec, spare, version, via_reference, redeemer_map, ref_inputs, other)| {
            let mut p = spec.plutus.take().unwrap_or(spare);
            p.version = version;
            p.via_reference = via_reference;
            p.redeemer_map = redeemer_map;
            spec.plutus = Some(p);
            spec.ref_inputs = ref_inputs;
            // keep the recipe forgeable (nothing C08 is about): no burns of assets the inputs may not hold, enough lovelace
            spec.mint.retain(|m| m.2 > 0);
            if let Some(i) = spec.inputs.first_mut() {
                i.coin = i.coin.max(150_000_000);
            }
            VCase { spec, other }
        })
}

/// canonical language views of the given Plutus versions (1, 2, 3) with the cost models of the harness' parameter set
fn views_of(versions: &[u8]) -> Vec<u8> {
    let cm = |v: u8| versions.contains(&v).then(|| pp::cost_model(v));
    language_views_bytes(&Views { v1: cm(1), v2: cm(2), v3: cm(3) })
}

struct Parts {
    body: Node,
    wits: Node,
    body_bytes: Vec<u8>,
    /// redeemer / datum fields of the witness set as they appear
    r: Option<Vec<u8>>,
    d: Option<Vec<u8>>,
    field11: Option<Vec<u8>>,
    form: &'static str,
    n_refs: usize,
}

fn parts(tx: &[u8]) -> Result<Parts, Fail> {
    let tree = match cborx::read(tx) {
        Ok(t) => t,
        Err(e) => pv_fail!("harness:forged-tx-not-wellformed", "{e:?}: {}", hexs(tx)),
    };
    let items = tree.as_array().cloned().unwrap_or_default();
    pv_ensure!(items.len() == 4, "harness:forged-tx-not-wellformed", "not a 4-element transaction: {}", hexs(tx));
    let body = items[0].clone();
    let wits = items[1].clone();
    let r = wits.map_get(5).map(|n| n.span(tx).to_vec());
    let d = wits.map_get(4).map(|n| n.span(tx).to_vec());
    let form = match wits.map_get(5) {
        Some(n) if n.as_map().is_some() => "map",
        Some(_) => "list",
        None => "absent",
    };
    let n_refs = body.map_get(18).and_then(|n| n.untagged().as_array().map(|a| a.len())).unwrap_or(0);
    Ok(Parts {
        body_bytes: body.span(tx).to_vec(),
        field11: body.map_get(11).and_then(|n| n.as_bytes()),
        body,
        wits,
        r,
        d,
        form,
        n_refs,
    })
}

/// The forged transaction with another body, signed again by the same harness keys in the same order.
fn resign(f: &Forged, p: &Parts, new_body: &[u8]) -> Vec<u8> {
    let id = b256(new_body);
    let vk: Vec<Node> = f
        .signers
        .iter()
        .map(|s| {
            let k = forge::key(*s);
            let sig = k.sk.sign(&id).to_bytes();
            cborx::array(vec![cborx::bytes(&k.pk), cborx::bytes(&sig)])
        })
        .collect();
    let mut w = p.wits.clone();
    if !vk.is_empty() {
        w.map_set(0, cborx::array(vk));
    }
    pv_validate::view::assemble(new_body, &cborx::write(&w), true, f.aux.as_deref())
}

fn with_field11(p: &Parts, h: Option<&[u8; 32]>) -> Vec<u8> {
    let mut b = p.body.clone();
    match h {
        Some(h) => b.map_set(11, cborx::bytes(h)),
        None => {
            b.map_remove(11);
        }
    }
    cborx::write(&b)
}

/// the redeemer field re-encoded in the other of the two Conway forms (same entries)
fn redeemers_other_form(p: &Parts) -> Option<Vec<u8>> {
    let n = p.wits.map_get(5)?;
    if let Some(entries) = n.as_map() {
        let mut items = vec![];
        for (k, v) in entries {
            let (k, v) = (k.as_array()?, v.as_array()?);
            items.push(cborx::array(vec![k.first()?.clone(), k.get(1)?.clone(), v.first()?.clone(), v.get(1)?.clone()]));
        }
        Some(cborx::write(&cborx::array(items)))
    } else {
        let mut entries = vec![];
        for it in n.as_array()? {
            let it = it.as_array()?;
            entries.push((cborx::array(vec![it.first()?.clone(), it.get(1)?.clone()]), cborx::array(vec![it.get(2)?.clone(), it.get(3)?.clone()])));
        }
        Some(cborx::write(&cborx::map(entries)))
    }
}

/// the datum field with the same items in an indefinite-length array
fn datums_indefinite(p: &Parts) -> Option<Vec<u8>> {
    let n = p.wits.map_get(4)?;
    let items = n.untagged().as_array()?.clone();
    Some(cborx::write(&cborx::array_indef(items)))
}

fn short(t: &str) -> String {
    let t: String = t.chars().filter(|c| !c.is_whitespace()).collect();
    t.chars().take(48).collect()
}

pub fn check(c: &VCase, obs: &mut Obs) -> Result<(), Fail> {
    let era = c.spec.era;
    let Some(ps) = &c.spec.plutus else {
        obs.discard();
        return Ok(());
    };
    let f = match forge::forge(&c.spec) {
        Ok(f) => f,
        Err(_) => {
            // the recipe does not balance (inputs too small for outputs + fee): nothing was built
            obs.discard();
            return Ok(());
        }
    };
    let ver = forge::plutus_version(era, ps.version);
    let wher = if f.script_by_reference { "reference" } else { "witness" };
    let p = parts(&f.tx)?;
    let plain_refs = p.n_refs - f.script_by_reference as usize;
    let cell = format!("{}:{wher}:v{ver}:{}", era.name(), p.form);
    obs.class(format!("v:{cell}"));
    obs.class(format!("v:plain-reference-inputs:{}", if plain_refs > 0 { "some" } else { "none" }));
    pv_ensure!(p.r.is_some() && p.d.is_some() && p.field11.is_some(), "harness:forged-plutus-tx-lacks-script-data", "{}", hexs(&f.tx));

    // (a) the forge against the formula (Conway: language views from the protocol parameters)
    if era == EraK::Conway {
        let want = formula(p.r.as_deref(), p.d.as_deref(), Some(&views_of(&[ver])));
        pv_ensure!(
            p.field11.as_deref() == Some(&want[..]),
            "harness:forge-hash-differs-from-formula",
            "forged {cell}: body field 11 = {} but R||D||L of the forged bytes hashes to {}",
            hexs(p.field11.as_deref().unwrap_or_default()), hexs(&want)
        );
        // the signing helper of this file reproduces the forged transaction exactly
        pv_ensure!(resign(&f, &p, &p.body_bytes) == f.tx, "harness:resign-differs-from-forge", "{}", hexs(&f.tx));
    }

    // (b) the correct hash is not rejected
    let env0 = pp::env(era, &pp::PpTweak::default());
    let base = run::validate(era, &f.tx, &f.utxos, &env0);
    let sig_where = if era == EraK::Conway { format!("{wher}:v{ver}:{}", p.form) } else { cell.clone() };
    match &base {
        Outcome::Accepted => obs.class(format!("v:verdict:accepted:{cell}")),
        Outcome::Rejected(t) => {
            pv_ensure!(
                !t.contains("ScriptIntegrityHash"),
                format!("validator-rejects-correct-hash:{sig_where}"),
                "{} transaction (script in the {wher}, PlutusV{ver}, redeemers as {}, {plain_refs} plain reference inputs) carries the hash the formula gives \
                 ({}) and is rejected with {t}; tx {}", era.name(), p.form, hexs(p.field11.as_deref().unwrap_or_default()), hexs(&f.tx)
            );
            obs.class(format!("v:verdict:rejected-otherwise:{}:{}", era.name(), short(t)));
            return Ok(());
        }
        Outcome::Undecodable(e) => pv_fail!("harness:forged-tx-undecodable", "{e}: {}", hexs(&f.tx)),
    }

    // (b') the cost model of a language that does not run is irrelevant (Conway: views come from the parameters)
    if era == EraK::Conway {
        let other = 1 + (ver - 1 + 1 + c.other % 2) % 3;
        for (what, t) in [
            ("altered", pp::PpTweak { alter_cost_model: Some(other), ..Default::default() }),
            ("dropped", pp::PpTweak { drop_cost_model: Some(other), ..Default::default() }),
        ] {
            if let Outcome::Rejected(t) = run::validate(era, &f.tx, &f.utxos, &pp::env(era, &t)) {
                pv_ensure!(
                    !t.contains("ScriptIntegrityHash"),
                    format!("validator-rejects-correct-hash:cost-model-of-unused-language-{what}:{wher}:v{ver}"),
                    "only PlutusV{ver} runs (script in the {wher}); with the PlutusV{other} cost model {what} in the parameters the correct hash is rejected with {t}; tx {}",
                    hexs(&f.tx)
                );
            }
        }
        obs.class("v:unused-language-cost-model-changed:still-accepted");
    }

    // (c) wrong hashes in an accepted transaction must be rejected
    let mut variants: Vec<(String, Vec<u8>, pp::PpTweak, Vec<forge::Utxo>)> = vec![];
    let dflt = pp::PpTweak::default;
    if era == EraK::Conway {
        let other = 1 + (ver - 1 + 1 + c.other % 2) % 3;
        let mut wrong: Vec<(String, [u8; 32])> = vec![
            (format!("views-of-v{other}"), formula(p.r.as_deref(), p.d.as_deref(), Some(&views_of(&[other])))),
            ("views-with-extra-language".into(), formula(p.r.as_deref(), p.d.as_deref(), Some(&views_of(&[ver, other])))),
            ("views-of-all-languages".into(), formula(p.r.as_deref(), p.d.as_deref(), Some(&views_of(&[1, 2, 3])))),
            ("no-views".into(), formula(p.r.as_deref(), p.d.as_deref(), None)),
            ("datums-left-out".into(), formula(p.r.as_deref(), None, Some(&views_of(&[ver])))),
            ("redeemers-as-empty-map".into(), formula(None, p.d.as_deref(), Some(&views_of(&[ver])))),
        ];
        if let Some(r2) = redeemers_other_form(&p) {
            if Some(&r2) != p.r.as_ref() {
                wrong.push((format!("redeemers-reencoded-as-{}", if p.form == "map" { "list" } else { "map" }), formula(Some(&r2), p.d.as_deref(), Some(&views_of(&[ver])))));
            }
        }
        if let Some(d2) = datums_indefinite(&p) {
            if Some(&d2) != p.d.as_ref() {
                wrong.push(("datums-reencoded-indefinite".into(), formula(p.r.as_deref(), Some(&d2), Some(&views_of(&[ver])))));
            }
        }
        for (name, h) in wrong {
            if Some(&h[..]) == p.field11.as_deref() {
                continue;
            }
            variants.push((name, resign(&f, &p, &with_field11(&p, Some(&h))), dflt(), f.utxos.clone()));
        }
        variants.push(("hash-removed".into(), resign(&f, &p, &with_field11(&p, None)), dflt(), f.utxos.clone()));
        // the same transaction under parameters whose cost model for the running language differs / is missing
        variants.push(("parameters-cost-model-altered".into(), f.tx.clone(), pp::PpTweak { alter_cost_model: Some(ver), ..Default::default() }, f.utxos.clone()));
        variants.push(("parameters-cost-model-missing".into(), f.tx.clone(), pp::PpTweak { drop_cost_model: Some(ver), ..Default::default() }, f.utxos.clone()));
    }
    match forge::forge_with(&c.spec, &Tweaks { wrong_script_data_hash: true, ..Default::default() }) {
        Ok(g) => variants.push(("one-bit-flipped".into(), g.tx.clone(), dflt(), g.utxos.clone())),
        Err(e) => pv_fail!("harness:reforge-failed", "{e}"),
    }
    for (name, tx, ppt, utxos) in variants {
        let r = run::validate(era, &tx, &utxos, &pp::env(era, &ppt));
        let variant_class = if name.starts_with("views-of-v") { "views-of-another-language".to_string() } else { name.clone() };
        match r {
            Outcome::Rejected(t) => {
                obs.class(format!("v:wrong-hash:{}:{variant_class}:{}", era.name(), if t.contains("ScriptIntegrityHash") { "rejected-as-ScriptIntegrityHash" } else { "rejected-otherwise" }));
            }
            Outcome::Accepted => pv_fail!(
                format!("validator-accepts-wrong-hash:{variant_class}:{}", if era == EraK::Conway { format!("{wher}:v{ver}") } else { format!("{}:{wher}:v{ver}", era.name()) }),
                "{} transaction (script in the {wher}, PlutusV{ver}, redeemers as {}) is accepted with the correct hash and still accepted with variant {name}; tx {}",
                era.name(), p.form, hexs(&tx)
            ),
            Outcome::Undecodable(e) => pv_fail!("harness:variant-undecodable", "{name}: {e}: {}", hexs(&tx)),
        }
    }
    obs.nontrivial();
    Ok(())
}

/// A transaction without any script data (no redeemers, no datums, no Plutus script) that nevertheless announces a
/// script-data hash: "no hash is produced when there are neither redeemers nor datums", so no value of field 11 can
/// be the right one and the validator must not accept the transaction.
#[derive(Debug, Clone, Serialize, Deserialize)]
pub struct PCase {
    pub spec: Spec,
    pub hash: [u8; 32],
    /// 0: arbitrary bytes; 1: hash of the empty redeemer map + views; 2: hash of nothing
    pub kind: u8,
}

pub fn pcase() -> impl Strategy<Value = PCase> {
    (prop_oneof![3 => Just(EraK::Conway), 1 => Just(EraK::Babbage), 1 => Just(EraK::Alonzo)].prop_flat_map(gen::spec_for), any::<[u8; 32]>(), 0u8..3).prop_map(|(mut spec, hash, kind)| {
        spec.plutus = None;
        spec.mint.retain(|m| m.2 > 0);
        // room for the 35 bytes the extra body field adds to the size the fee is computed on
        spec.extra_fee = spec.extra_fee.max(5_000);
        if let Some(i) = spec.inputs.first_mut() {
            i.coin = i.coin.max(150_000_000);
        }
        PCase { spec, hash, kind }
    })
}

pub fn check_plain(c: &PCase, obs: &mut Obs) -> Result<(), Fail> {
    let era = c.spec.era;
    let f = match forge::forge(&c.spec) {
        Ok(f) => f,
        Err(_) => {
            obs.discard();
            return Ok(());
        }
    };
    let p = parts(&f.tx)?;
    if p.r.is_some() || p.d.is_some() || p.field11.is_some() {
        obs.discard();
        return Ok(());
    }
    let env0 = pp::env(era, &pp::PpTweak::default());
    if run::validate(era, &f.tx, &f.utxos, &env0) != Outcome::Accepted {
        obs.class(format!("v:plain:{}:base-not-accepted", era.name()));
        return Ok(());
    }
    let h: [u8; 32] = match c.kind {
        0 => c.hash,
        1 => formula(None, None, Some(&views_of(&[]))),
        _ => b256(&[]),
    };
    let tx = resign(&f, &p, &with_field11(&p, Some(&h)));
    let what = ["arbitrary", "hash-of-empty-script-data", "hash-of-nothing"][c.kind as usize % 3];
    match run::validate(era, &tx, &f.utxos, &env0) {
        Outcome::Rejected(t) => obs.class(format!("v:plain:{}:{what}:{}", era.name(), if t.contains("ScriptIntegrityHash") { "rejected-as-ScriptIntegrityHash" } else { "rejected-otherwise" })),
        Outcome::Accepted => pv_fail!(
            format!("validator-accepts-hash-without-script-data:{}", era.name()),
            "{} transaction without redeemers, datums or scripts is accepted, and still accepted when its body announces the script-data hash {} ({what}); tx {}",
            era.name(), hexs(&h), hexs(&tx)
        ),
        Outcome::Undecodable(e) => pv_fail!("harness:variant-undecodable", "hash-without-script-data: {e}: {}", hexs(&tx)),
    }
    obs.nontrivial();
    Ok(())
}
