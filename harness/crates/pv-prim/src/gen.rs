//! Builders of era ledger values from a choice sequence (`util::Src`). Only *representable* values
//! are built: values that the type's own encoder can express unambiguously (see the notes at each
//! builder). `KeepRaw` fields are produced by decoding the encoding of the inner value from an
//! arena buffer, so that they carry the raw bytes a decoded value carries.
use crate::pd::{self, PD};
use crate::util::{Arena, Src};
use pallas_codec::minicbor::{self, bytes::ByteVec, Decode, Encode};
use pallas_codec::utils::{
    Bytes, CborWrap, EmptyMap, Int, KeepRaw, KeyValuePairs, MaybeIndefArray, NonEmptySet, NonZeroInt, Nullable,
    PositiveCoin, Set, TagWrap, ZeroOrOneArray,
};
use pallas_primitives::{
    alonzo, babbage, byron, conway, ExUnitPrices, ExUnits, Hash, Metadata, Metadatum, Nonce, NonceVariant,
    PlutusData, PlutusScript, PoolMetadata, RationalNumber, Relay, StakeCredential, TransactionInput, VrfCert,
};
use pvkit::Fail;
use std::collections::BTreeMap;
use std::fmt::Debug;

/// The block structs hold their transaction sequences as `Vec` today; a repair of the
/// indefinite-length finding turns them into `MaybeIndefArray`. The builders work with either.
pub trait TxSeq<T> {
    fn tx_seq(v: Vec<T>, indef: bool) -> Self;
}
impl<T> TxSeq<T> for Vec<T> {
    fn tx_seq(v: Vec<T>, _indef: bool) -> Self {
        v
    }
}
impl<T> TxSeq<T> for MaybeIndefArray<T> {
    fn tx_seq(v: Vec<T>, indef: bool) -> Self {
        if indef {
            MaybeIndefArray::Indef(v)
        } else {
            MaybeIndefArray::Def(v)
        }
    }
}

pub struct G<'a, 'c> {
    pub s: Src<'c>,
    pub arena: &'a Arena,
    /// first failure seen while building a nested `KeepRaw` (the nested value did not round-trip)
    pub nested_fail: Option<Fail>,
}

macro_rules! opt {
    ($g:expr, $e:expr) => {
        if $g.s.bool() {
            Some($e)
        } else {
            None
        }
    };
}

impl<'a, 'c> G<'a, 'c> {
    pub fn new(choices: &'c [u64], arena: &'a Arena) -> Self {
        G { s: Src::new(choices), arena, nested_fail: None }
    }

    /// Wrap `v` the way a decoder would: KeepRaw with raw = the encoding of `v`.
    pub fn keep<T>(&mut self, label: &str, v: T) -> KeepRaw<'a, T>
    where
        T: Encode<()> + Decode<'a, ()> + PartialEq + Debug,
    {
        self.s.hand("KeepRaw");
        let bytes = match minicbor::to_vec(&v) {
            Ok(b) => b,
            Err(e) => {
                self.fail(format!("encode-error:{label}(nested)"), format!("{e}"));
                return KeepRaw::from(v);
            }
        };
        let buf: &'a [u8] = self.arena.keep(bytes);
        match minicbor::decode::<KeepRaw<'a, T>>(buf) {
            Ok(k) => {
                if *k != v {
                    self.fail(
                        format!("roundtrip-mismatch:{label}(nested)"),
                        format!("nested value {:?} encoded as {} decodes to {:?}", v, hex::encode(buf), *k),
                    );
                }
                if k.raw_cbor().len() != buf.len() {
                    self.fail(
                        format!("not-fully-consumed:{label}(nested)"),
                        format!("nested value encoded as {} consumed only {} bytes", hex::encode(buf), k.raw_cbor().len()),
                    );
                }
                k
            }
            Err(e) => {
                self.fail(
                    format!("decode-error:{label}(nested)"),
                    format!("nested value {:?} encoded as {} does not decode: {e}", v, hex::encode(buf)),
                );
                KeepRaw::from(v)
            }
        }
    }

    fn fail(&mut self, sig: String, msg: String) {
        if self.nested_fail.is_none() {
            self.nested_fail = Some(Fail { sig, msg });
        }
    }

    // ---- atoms ----
    pub fn hash28(&mut self) -> Hash<28> {
        Hash::from(self.s.arr::<28>())
    }
    pub fn hash32(&mut self) -> Hash<32> {
        Hash::from(self.s.arr::<32>())
    }
    pub fn bytes(&mut self, max: usize) -> Bytes {
        let n = self.s.len(max);
        Bytes::from(self.s.bytes(n))
    }
    pub fn bytes_exact(&mut self, n: usize) -> Bytes {
        Bytes::from(self.s.bytes(n))
    }
    pub fn bytevec(&mut self, max: usize) -> ByteVec {
        let n = self.s.len(max);
        ByteVec::from(self.s.bytes(n))
    }
    pub fn vecn<T>(&mut self, min: usize, max: usize, mut f: impl FnMut(&mut Self) -> T) -> Vec<T> {
        let n = self.s.len_in(min, max);
        (0..n).map(|_| f(self)).collect()
    }
    pub fn coin(&mut self) -> u64 {
        self.s.u64e()
    }
    pub fn reward_account(&mut self) -> Bytes {
        // header byte + 28-byte credential
        let mut v = vec![0xe0 | (self.s.below(2) as u8)];
        v.extend(self.s.bytes(28));
        Bytes::from(v)
    }
    pub fn address(&mut self) -> Bytes {
        match self.s.below(3) {
            0 => {
                let mut v = vec![0x61];
                v.extend(self.s.bytes(28));
                Bytes::from(v)
            }
            1 => {
                let mut v = vec![0x01];
                v.extend(self.s.bytes(56));
                Bytes::from(v)
            }
            _ => self.bytes(70),
        }
    }
    pub fn input(&mut self) -> TransactionInput {
        TransactionInput { transaction_id: self.hash32(), index: if self.s.bool() { self.s.below(4) as u64 } else { self.s.u64e() } }
    }

    // ---- shared ledger types ----
    /// hand-written codec (codec_by_datatype): ints over the whole CBOR range, definite bytes,
    /// text, definite arrays, definite or indefinite maps
    pub fn metadatum(&mut self, depth: usize) -> Metadatum {
        self.s.hand("Metadatum");
        let n = if depth == 0 { 3 } else { 5 };
        match self.s.variant("Metadatum", n) {
            0 => Metadatum::Int(Int::try_from(self.s.cbor_int()).expect("cbor int range")),
            1 => Metadatum::Bytes(self.bytes(70)),
            2 => Metadatum::Text(self.s.text(70)),
            3 => Metadatum::Array(self.vecn(0, 3, |g| g.metadatum(depth - 1))),
            _ => {
                let kv = self.vecn(0, 3, |g| (g.metadatum(depth - 1), g.metadatum(depth - 1)));
                Metadatum::Map(if self.s.bool() {
                    self.s.class("Metadatum::Map-indef");
                    KeyValuePairs::Indef(kv)
                } else {
                    KeyValuePairs::Def(kv)
                })
            }
        }
    }
    pub fn metadata(&mut self) -> Metadata {
        let mut m = BTreeMap::new();
        for _ in 0..self.s.len(3) {
            let k = self.s.u64e();
            let v = self.metadatum(3);
            m.insert(k, v);
        }
        m
    }
    pub fn native_script(&mut self, depth: usize) -> alonzo::NativeScript {
        use alonzo::NativeScript::*;
        let choice = if depth == 0 { [0usize, 4, 5][self.s.below(3)] } else { self.s.below(6) };
        self.s.class(format!("NativeScript#{choice}"));
        if choice > 0 {
            self.s.nontrivial = true;
        }
        match choice {
            0 => ScriptPubkey(self.hash28()),
            1 => ScriptAll(self.vecn(0, 3, |g| g.native_script(depth - 1))),
            2 => ScriptAny(self.vecn(0, 3, |g| g.native_script(depth - 1))),
            3 => ScriptNOfK(self.s.u32e(), self.vecn(0, 3, |g| g.native_script(depth - 1))),
            4 => InvalidBefore(self.s.u64e()),
            _ => InvalidHereafter(self.s.u64e()),
        }
    }
    /// hand-written codec; any pair of u64 — a zero denominator is no number, but it is a value the type holds and the
    /// codec writes, so it has to come back as it was
    pub fn rational(&mut self) -> RationalNumber {
        self.s.hand("RationalNumber");
        let (numerator, denominator) = (self.s.u64e(), self.s.u64e());
        if denominator == 0 {
            self.s.classes.push("RationalNumber:zero-denominator".into());
        }
        RationalNumber { numerator, denominator }
    }
    /// hand-written codec; every variant x every Option combination
    pub fn relay(&mut self) -> Relay {
        self.s.hand("Relay");
        match self.s.variant("Relay", 3) {
            0 => {
                let port = opt!(self, self.s.u32e());
                let v4 = opt!(self, self.bytes_exact(4));
                let v6 = opt!(self, self.bytes_exact(16));
                self.s.class(format!(
                    "Relay::SingleHostAddr({},{},{})",
                    port.is_some() as u8, v4.is_some() as u8, v6.is_some() as u8
                ));
                Relay::SingleHostAddr(port, v4, v6)
            }
            1 => {
                let port = opt!(self, self.s.u32e());
                self.s.class(format!("Relay::SingleHostName({})", port.is_some() as u8));
                Relay::SingleHostName(port, self.s.text(64))
            }
            _ => Relay::MultiHostName(self.s.text(64)),
        }
    }
    pub fn stake_cred(&mut self) -> StakeCredential {
        match self.s.variant("StakeCredential", 2) {
            0 => StakeCredential::AddrKeyhash(self.hash28()),
            _ => StakeCredential::ScriptHash(self.hash28()),
        }
    }
    pub fn pool_metadata(&mut self) -> PoolMetadata {
        PoolMetadata { url: self.s.text(64), hash: self.bytes_exact(32) }
    }
    /// (NeutralNonce, None), (Nonce, Some h) and the on-chain oddity (Nonce, None)
    pub fn nonce(&mut self) -> Nonce {
        match self.s.variant("Nonce", 3) {
            0 => Nonce { variant: NonceVariant::NeutralNonce, hash: None },
            1 => Nonce { variant: NonceVariant::Nonce, hash: Some(self.hash32()) },
            _ => Nonce { variant: NonceVariant::Nonce, hash: None },
        }
    }
    pub fn exunits(&mut self) -> ExUnits {
        ExUnits { mem: self.s.u64e(), steps: self.s.u64e() }
    }
    pub fn exunit_prices(&mut self) -> ExUnitPrices {
        ExUnitPrices { mem_price: self.rational(), step_price: self.rational() }
    }
    pub fn cost_model(&mut self) -> Vec<i64> {
        self.vecn(0, 6, |g| g.s.i64e())
    }
    pub fn vrf_cert(&mut self) -> VrfCert {
        VrfCert(self.bytes_exact(64), self.bytes_exact(80))
    }
    pub fn plutus_script<const V: usize>(&mut self) -> PlutusScript<V> {
        PlutusScript::<V>(self.bytes(40))
    }

    // ---- PlutusData (recipe first, so that the classes are the same as in C07) ----
    pub fn pd(&mut self, depth: usize) -> PD {
        let k = if depth == 0 { self.s.below(4) } else { self.s.below(7) };
        let blen = |g: &mut Self| match g.s.below(6) {
            0 => 0,
            1 => 1 + g.s.below(12),
            2 => 63 + g.s.below(3),
            3 => 1 + g.s.below(40),
            4 => 130,
            _ => g.s.below(9),
        };
        match k {
            0 => PD::Int { neg: self.s.bool(), mag: self.s.u64e() },
            1 => {
                let n = blen(self);
                PD::BigU(self.s.bytes(n))
            }
            2 => {
                let n = blen(self);
                PD::BigN(self.s.bytes(n))
            }
            3 => {
                let n = blen(self);
                PD::Bytes(self.s.bytes(n))
            }
            4 => {
                let (tag, any) = match self.s.below(3) {
                    0 => (121 + self.s.below(7) as u64, None),
                    1 => (1280 + self.s.below(121) as u64, None),
                    _ => (102, Some(self.s.u64e())),
                };
                let indef = self.s.bool();
                PD::Constr { tag, any, indef, fields: self.vecn(0, 3, |g| g.pd(depth - 1)) }
            }
            5 => {
                let indef = self.s.bool();
                PD::Array { indef, items: self.vecn(0, 3, |g| g.pd(depth - 1)) }
            }
            _ => {
                let indef = self.s.bool();
                PD::Map { indef, kvs: self.vecn(0, 2, |g| (g.pd(depth - 1), g.pd(depth - 1))) }
            }
        }
    }
    pub fn plutus_data(&mut self) -> PlutusData {
        self.s.hand("PlutusData");
        let p = self.pd(2);
        pd::to_pallas(&p)
    }

    // ---- values ----
    fn asset_name(&mut self) -> Bytes {
        self.bytes(32)
    }
    /// hand-written codec (codec_by_datatype). Alonzo-family multiassets may be empty.
    pub fn alonzo_value(&mut self) -> alonzo::Value {
        self.s.hand("alonzo::Value");
        match self.s.variant("alonzo::Value", 2) {
            0 => alonzo::Value::Coin(self.coin()),
            _ => {
                let c = self.coin();
                let mut ma: alonzo::Multiasset<u64> = BTreeMap::new();
                for _ in 0..self.s.len(3) {
                    let p = self.hash28();
                    let mut inner = BTreeMap::new();
                    for _ in 0..self.s.len(3) {
                        let k = self.asset_name();
                        inner.insert(k, self.s.u64e());
                    }
                    ma.insert(p, inner);
                }
                alonzo::Value::Multiasset(c, ma)
            }
        }
    }
    pub fn alonzo_mint(&mut self) -> alonzo::Mint {
        let mut ma: alonzo::Mint = BTreeMap::new();
        for _ in 0..self.s.len(3) {
            let p = self.hash28();
            let mut inner = BTreeMap::new();
            for _ in 0..self.s.len(3) {
                let k = self.asset_name();
                inner.insert(k, self.s.i64e());
            }
            ma.insert(p, inner);
        }
        ma
    }
    /// Conway: non-empty maps, PositiveCoin >= 1
    pub fn conway_value(&mut self) -> conway::Value {
        self.s.hand("conway::Value");
        match self.s.variant("conway::Value", 2) {
            0 => conway::Value::Coin(self.coin()),
            _ => {
                let c = self.coin();
                let mut ma: conway::Multiasset<PositiveCoin> = BTreeMap::new();
                for _ in 0..self.s.len_in(1, 3) {
                    let p = self.hash28();
                    let mut inner = BTreeMap::new();
                    for _ in 0..self.s.len_in(1, 3) {
                        let k = self.asset_name();
                        inner.insert(k, PositiveCoin::try_from(self.s.u64e().max(1)).unwrap());
                    }
                    ma.insert(p, inner);
                }
                conway::Value::Multiasset(c, ma)
            }
        }
    }
    /// Conway: non-empty maps, NonZeroInt != 0
    pub fn conway_mint(&mut self) -> conway::Mint {
        self.s.hand("NonZeroInt");
        let mut ma: conway::Mint = BTreeMap::new();
        for _ in 0..self.s.len_in(1, 3) {
            let p = self.hash28();
            let mut inner = BTreeMap::new();
            for _ in 0..self.s.len_in(1, 3) {
                let k = self.asset_name();
                let mut q = self.s.i64e();
                if q == 0 {
                    q = -1;
                }
                inner.insert(k, NonZeroInt::try_from(q).unwrap());
            }
            ma.insert(p, inner);
        }
        ma
    }

    // ---- certificates ----
    pub fn mir(&mut self) -> alonzo::MoveInstantaneousReward {
        self.s.hand("InstantaneousRewardTarget");
        let source = match self.s.variant("InstantaneousRewardSource", 2) {
            0 => alonzo::InstantaneousRewardSource::Reserves,
            _ => alonzo::InstantaneousRewardSource::Treasury,
        };
        let target = match self.s.variant("InstantaneousRewardTarget", 2) {
            0 => {
                let mut m = BTreeMap::new();
                for _ in 0..self.s.len(3) {
                    let k = self.stake_cred();
                    m.insert(k, self.s.i64e());
                }
                alonzo::InstantaneousRewardTarget::StakeCredentials(m)
            }
            _ => alonzo::InstantaneousRewardTarget::OtherAccountingPot(self.coin()),
        };
        alonzo::MoveInstantaneousReward { source, target }
    }
    pub fn alonzo_cert(&mut self) -> alonzo::Certificate {
        use alonzo::Certificate::*;
        match self.s.variant("alonzo::Certificate", 7) {
            0 => StakeRegistration(self.stake_cred()),
            1 => StakeDeregistration(self.stake_cred()),
            2 => StakeDelegation(self.stake_cred(), self.hash28()),
            3 => PoolRegistration {
                operator: self.hash28(),
                vrf_keyhash: self.hash32(),
                pledge: self.coin(),
                cost: self.coin(),
                margin: self.rational(),
                reward_account: self.reward_account(),
                pool_owners: self.vecn(0, 3, |g| g.hash28()),
                relays: self.vecn(0, 3, |g| g.relay()),
                pool_metadata: opt!(self, self.pool_metadata()),
            },
            4 => PoolRetirement(self.hash28(), self.s.u64e()),
            5 => GenesisKeyDelegation(self.bytes_exact(28), self.bytes_exact(28), self.hash32()),
            _ => MoveInstantaneousRewardsCert(self.mir()),
        }
    }
    pub fn drep(&mut self) -> conway::DRep {
        match self.s.variant("DRep", 4) {
            0 => conway::DRep::Key(self.hash28()),
            1 => conway::DRep::Script(self.hash28()),
            2 => conway::DRep::Abstain,
            _ => conway::DRep::NoConfidence,
        }
    }
    pub fn anchor(&mut self) -> conway::Anchor {
        conway::Anchor { url: self.s.text(64), content_hash: self.hash32() }
    }
    pub fn conway_cert(&mut self) -> conway::Certificate {
        use conway::Certificate::*;
        match self.s.variant("conway::Certificate", 17) {
            0 => StakeRegistration(self.stake_cred()),
            1 => StakeDeregistration(self.stake_cred()),
            2 => StakeDelegation(self.stake_cred(), self.hash28()),
            3 => {
                self.s.hand("Set");
                PoolRegistration {
                    operator: self.hash28(),
                    vrf_keyhash: self.hash32(),
                    pledge: self.coin(),
                    cost: self.coin(),
                    margin: self.rational(),
                    reward_account: self.reward_account(),
                    pool_owners: Set::from(self.vecn(0, 3, |g| g.hash28())),
                    relays: self.vecn(0, 3, |g| g.relay()),
                    pool_metadata: opt!(self, self.pool_metadata()),
                }
            }
            4 => PoolRetirement(self.hash28(), self.s.u64e()),
            5 => Reg(self.stake_cred(), self.coin()),
            6 => UnReg(self.stake_cred(), self.coin()),
            7 => VoteDeleg(self.stake_cred(), self.drep()),
            8 => StakeVoteDeleg(self.stake_cred(), self.hash28(), self.drep()),
            9 => StakeRegDeleg(self.stake_cred(), self.hash28(), self.coin()),
            10 => VoteRegDeleg(self.stake_cred(), self.drep(), self.coin()),
            11 => StakeVoteRegDeleg(self.stake_cred(), self.hash28(), self.drep(), self.coin()),
            12 => AuthCommitteeHot(self.stake_cred(), self.stake_cred()),
            13 => ResignCommitteeCold(self.stake_cred(), opt!(self, self.anchor())),
            14 => RegDRepCert(self.stake_cred(), self.coin(), opt!(self, self.anchor())),
            15 => UnRegDRepCert(self.stake_cred(), self.coin()),
            _ => UpdateDRepCert(self.stake_cred(), opt!(self, self.anchor())),
        }
    }

    // ---- governance ----
    pub fn voter(&mut self) -> conway::Voter {
        use conway::Voter::*;
        match self.s.variant("Voter", 5) {
            0 => ConstitutionalCommitteeKey(self.hash28()),
            1 => ConstitutionalCommitteeScript(self.hash28()),
            2 => DRepKey(self.hash28()),
            3 => DRepScript(self.hash28()),
            _ => StakePoolKey(self.hash28()),
        }
    }
    pub fn gov_action_id(&mut self) -> conway::GovActionId {
        conway::GovActionId { transaction_id: self.hash32(), action_index: self.s.u32e() }
    }
    pub fn constitution(&mut self) -> conway::Constitution {
        conway::Constitution { anchor: self.anchor(), guardrail_script: opt!(self, self.hash28()) }
    }
    pub fn withdrawals(&mut self) -> BTreeMap<Bytes, u64> {
        let mut m = BTreeMap::new();
        for _ in 0..self.s.len(3) {
            let k = self.reward_account();
            m.insert(k, self.coin());
        }
        m
    }
    pub fn gov_action(&mut self) -> conway::GovAction {
        use conway::GovAction::*;
        match self.s.variant("GovAction", 7) {
            0 => ParameterChange(
                opt!(self, self.gov_action_id()),
                Box::new(self.conway_ppu(false)),
                opt!(self, self.hash28()),
            ),
            1 => HardForkInitiation(opt!(self, self.gov_action_id()), (self.s.u64e(), self.s.u64e())),
            2 => TreasuryWithdrawals(self.withdrawals(), opt!(self, self.hash28())),
            3 => NoConfidence(opt!(self, self.gov_action_id())),
            4 => {
                self.s.hand("Set");
                let id = opt!(self, self.gov_action_id());
                let remove = Set::from(self.vecn(0, 3, |g| g.stake_cred()));
                let mut add = BTreeMap::new();
                for _ in 0..self.s.len(3) {
                    let k = self.stake_cred();
                    add.insert(k, self.s.u64e());
                }
                UpdateCommittee(id, remove, add, self.rational())
            }
            5 => NewConstitution(opt!(self, self.gov_action_id()), self.constitution()),
            _ => Information,
        }
    }
    pub fn proposal(&mut self) -> conway::ProposalProcedure {
        conway::ProposalProcedure {
            deposit: self.coin(),
            reward_account: self.reward_account(),
            gov_action: self.gov_action(),
            anchor: self.anchor(),
        }
    }
    pub fn voting_procedures(&mut self) -> conway::VotingProcedures {
        let mut m = BTreeMap::new();
        for _ in 0..self.s.len_in(1, 3) {
            let voter = self.voter();
            let mut inner = BTreeMap::new();
            for _ in 0..self.s.len_in(1, 3) {
                let id = self.gov_action_id();
                let vote = match self.s.variant("Vote", 3) {
                    0 => conway::Vote::No,
                    1 => conway::Vote::Yes,
                    _ => conway::Vote::Abstain,
                };
                inner.insert(id, conway::VotingProcedure { vote, anchor: opt!(self, self.anchor()) });
            }
            m.insert(voter, inner);
        }
        m
    }

    // ---- protocol parameter updates ----
    pub fn alonzo_cost_models(&mut self) -> alonzo::CostModels {
        let mut m = BTreeMap::new();
        if self.s.bool() {
            m.insert(alonzo::Language::PlutusV1, self.cost_model());
        }
        m
    }
    pub fn babbage_cost_models(&mut self) -> babbage::CostModels {
        babbage::CostModels { plutus_v1: opt!(self, self.cost_model()), plutus_v2: opt!(self, self.cost_model()) }
    }
    /// hand-written decoder; `unknown` (cost models of languages > 2) only when asked for
    pub fn conway_cost_models(&mut self, with_unknown: bool) -> conway::CostModels {
        self.s.hand("conway::CostModels");
        let mut unknown = BTreeMap::new();
        if with_unknown {
            for _ in 0..self.s.len(2) {
                let k = 3 + self.s.below(20) as u64;
                unknown.insert(k, self.cost_model());
            }
            if !unknown.is_empty() {
                self.s.class("conway::CostModels:unknown-nonempty");
            }
        }
        conway::CostModels {
            plutus_v1: opt!(self, self.cost_model()),
            plutus_v2: opt!(self, self.cost_model()),
            plutus_v3: opt!(self, self.cost_model()),
            unknown,
        }
    }
    pub fn alonzo_ppu(&mut self) -> alonzo::ProtocolParamUpdate {
        alonzo::ProtocolParamUpdate {
            minfee_a: opt!(self, self.s.u32e()),
            minfee_b: opt!(self, self.s.u32e()),
            max_block_body_size: opt!(self, self.s.u32e()),
            max_transaction_size: opt!(self, self.s.u32e()),
            max_block_header_size: opt!(self, self.s.u32e()),
            key_deposit: opt!(self, self.coin()),
            pool_deposit: opt!(self, self.coin()),
            maximum_epoch: opt!(self, self.s.u64e()),
            desired_number_of_stake_pools: opt!(self, self.s.u32e()),
            pool_pledge_influence: opt!(self, self.rational()),
            expansion_rate: opt!(self, self.rational()),
            treasury_growth_rate: opt!(self, self.rational()),
            decentralization_constant: opt!(self, self.rational()),
            extra_entropy: opt!(self, self.nonce()),
            protocol_version: opt!(self, (self.s.u64e(), self.s.u64e())),
            min_pool_cost: opt!(self, self.coin()),
            ada_per_utxo_byte: opt!(self, self.coin()),
            cost_models_for_script_languages: opt!(self, self.alonzo_cost_models()),
            execution_costs: opt!(self, self.exunit_prices()),
            max_tx_ex_units: opt!(self, self.exunits()),
            max_block_ex_units: opt!(self, self.exunits()),
            max_value_size: opt!(self, self.s.u32e()),
            collateral_percentage: opt!(self, self.s.u32e()),
            max_collateral_inputs: opt!(self, self.s.u32e()),
        }
    }
    pub fn babbage_ppu(&mut self) -> babbage::ProtocolParamUpdate {
        babbage::ProtocolParamUpdate {
            minfee_a: opt!(self, self.s.u32e()),
            minfee_b: opt!(self, self.s.u32e()),
            max_block_body_size: opt!(self, self.s.u32e()),
            max_transaction_size: opt!(self, self.s.u32e()),
            max_block_header_size: opt!(self, self.s.u32e()),
            key_deposit: opt!(self, self.coin()),
            pool_deposit: opt!(self, self.coin()),
            maximum_epoch: opt!(self, self.s.u64e()),
            desired_number_of_stake_pools: opt!(self, self.s.u32e()),
            pool_pledge_influence: opt!(self, self.rational()),
            expansion_rate: opt!(self, self.rational()),
            treasury_growth_rate: opt!(self, self.rational()),
            protocol_version: opt!(self, (self.s.u64e(), self.s.u64e())),
            min_pool_cost: opt!(self, self.coin()),
            ada_per_utxo_byte: opt!(self, self.coin()),
            cost_models_for_script_languages: opt!(self, self.babbage_cost_models()),
            execution_costs: opt!(self, self.exunit_prices()),
            max_tx_ex_units: opt!(self, self.exunits()),
            max_block_ex_units: opt!(self, self.exunits()),
            max_value_size: opt!(self, self.s.u32e()),
            collateral_percentage: opt!(self, self.s.u32e()),
            max_collateral_inputs: opt!(self, self.s.u32e()),
        }
    }
    pub fn conway_ppu(&mut self, with_unknown: bool) -> conway::ProtocolParamUpdate {
        conway::ProtocolParamUpdate {
            minfee_a: opt!(self, self.s.u64e()),
            minfee_b: opt!(self, self.s.u64e()),
            max_block_body_size: opt!(self, self.s.u64e()),
            max_transaction_size: opt!(self, self.s.u64e()),
            max_block_header_size: opt!(self, self.s.u64e()),
            key_deposit: opt!(self, self.coin()),
            pool_deposit: opt!(self, self.coin()),
            maximum_epoch: opt!(self, self.s.u64e()),
            desired_number_of_stake_pools: opt!(self, self.s.u64e()),
            pool_pledge_influence: opt!(self, self.rational()),
            expansion_rate: opt!(self, self.rational()),
            treasury_growth_rate: opt!(self, self.rational()),
            min_pool_cost: opt!(self, self.coin()),
            ada_per_utxo_byte: opt!(self, self.coin()),
            cost_models_for_script_languages: opt!(self, self.conway_cost_models(with_unknown)),
            execution_costs: opt!(self, conway::ExUnitPrices { mem_price: self.rational(), step_price: self.rational() }),
            max_tx_ex_units: opt!(self, self.exunits()),
            max_block_ex_units: opt!(self, self.exunits()),
            max_value_size: opt!(self, self.s.u64e()),
            collateral_percentage: opt!(self, self.s.u64e()),
            max_collateral_inputs: opt!(self, self.s.u64e()),
            pool_voting_thresholds: opt!(self, conway::PoolVotingThresholds {
                motion_no_confidence: self.rational(),
                committee_normal: self.rational(),
                committee_no_confidence: self.rational(),
                hard_fork_initiation: self.rational(),
                security_voting_threshold: self.rational(),
            }),
            drep_voting_thresholds: opt!(self, conway::DRepVotingThresholds {
                motion_no_confidence: self.rational(),
                committee_normal: self.rational(),
                committee_no_confidence: self.rational(),
                update_constitution: self.rational(),
                hard_fork_initiation: self.rational(),
                pp_network_group: self.rational(),
                pp_economic_group: self.rational(),
                pp_technical_group: self.rational(),
                pp_governance_group: self.rational(),
                treasury_withdrawal: self.rational(),
            }),
            min_committee_size: opt!(self, self.s.u64e()),
            committee_term_limit: opt!(self, self.s.u64e()),
            governance_action_validity_period: opt!(self, self.s.u64e()),
            governance_action_deposit: opt!(self, self.coin()),
            drep_deposit: opt!(self, self.coin()),
            drep_inactivity_period: opt!(self, self.s.u64e()),
            minfee_refscript_cost_per_byte: opt!(self, self.rational()),
        }
    }
    pub fn alonzo_update(&mut self) -> alonzo::Update {
        let mut m = BTreeMap::new();
        for _ in 0..self.s.len(2) {
            let k = self.bytes_exact(28);
            m.insert(k, self.alonzo_ppu());
        }
        alonzo::Update { proposed_protocol_parameter_updates: m, epoch: self.s.u64e() }
    }
    pub fn babbage_update(&mut self) -> babbage::Update {
        let mut m = BTreeMap::new();
        for _ in 0..self.s.len(2) {
            let k = self.bytes_exact(28);
            m.insert(k, self.babbage_ppu());
        }
        babbage::Update { proposed_protocol_parameter_updates: m, epoch: self.s.u64e() }
    }

    // ---- redeemers ----
    pub fn alonzo_redeemer(&mut self) -> alonzo::Redeemer {
        let tag = match self.s.variant("alonzo::RedeemerTag", 4) {
            0 => alonzo::RedeemerTag::Spend,
            1 => alonzo::RedeemerTag::Mint,
            2 => alonzo::RedeemerTag::Cert,
            _ => alonzo::RedeemerTag::Reward,
        };
        alonzo::Redeemer { tag, index: self.s.u32e(), data: self.plutus_data(), ex_units: self.exunits() }
    }
    fn conway_redeemer_tag(&mut self) -> conway::RedeemerTag {
        use conway::RedeemerTag::*;
        match self.s.variant("conway::RedeemerTag", 6) {
            0 => Spend,
            1 => Mint,
            2 => Cert,
            3 => Reward,
            4 => Vote,
            _ => Propose,
        }
    }
    pub fn conway_redeemer(&mut self) -> conway::Redeemer {
        conway::Redeemer { tag: self.conway_redeemer_tag(), index: self.s.u32e(), data: self.plutus_data(), ex_units: self.exunits() }
    }
    /// hand-written codec: list form or map form (both may be empty)
    pub fn conway_redeemers(&mut self) -> conway::Redeemers {
        self.s.hand("conway::Redeemers");
        match self.s.variant("conway::Redeemers", 2) {
            0 => conway::Redeemers::List(self.vecn(0, 3, |g| g.conway_redeemer())),
            _ => {
                let mut m = BTreeMap::new();
                for _ in 0..self.s.len(3) {
                    let k = conway::RedeemersKey { tag: self.conway_redeemer_tag(), index: self.s.u32e() };
                    m.insert(k, conway::RedeemersValue { data: self.plutus_data(), ex_units: self.exunits() });
                }
                conway::Redeemers::Map(m)
            }
        }
    }

    // ---- outputs ----
    pub fn datum_option(&mut self) -> babbage::DatumOption<'a> {
        match self.s.variant("DatumOption", 2) {
            0 => babbage::DatumOption::Hash(self.hash32()),
            _ => {
                self.s.hand("CborWrap");
                let d = self.plutus_data();
                babbage::DatumOption::Data(CborWrap(self.keep("PlutusData", d)))
            }
        }
    }
    pub fn babbage_script_ref(&mut self) -> babbage::ScriptRef<'a> {
        match self.s.variant("babbage::ScriptRef", 3) {
            0 => {
                let n = self.native_script(2);
                babbage::ScriptRef::NativeScript(self.keep("NativeScript", n))
            }
            1 => babbage::ScriptRef::PlutusV1Script(self.plutus_script::<1>()),
            _ => babbage::ScriptRef::PlutusV2Script(self.plutus_script::<2>()),
        }
    }
    pub fn conway_script_ref(&mut self) -> conway::ScriptRef<'a> {
        match self.s.variant("conway::ScriptRef", 4) {
            0 => {
                let n = self.native_script(2);
                conway::ScriptRef::NativeScript(self.keep("NativeScript", n))
            }
            1 => conway::ScriptRef::PlutusV1Script(self.plutus_script::<1>()),
            2 => conway::ScriptRef::PlutusV2Script(self.plutus_script::<2>()),
            _ => conway::ScriptRef::PlutusV3Script(self.plutus_script::<3>()),
        }
    }
    pub fn alonzo_output(&mut self) -> alonzo::TransactionOutput {
        alonzo::TransactionOutput { address: self.address(), amount: self.alonzo_value(), datum_hash: opt!(self, self.hash32()) }
    }
    /// `GenPostAlonzoTransactionOutput<Value, ScriptRef>` (map-encoded): every present/absent
    /// combination of the two optional fields
    pub fn babbage_post_alonzo_output(&mut self) -> babbage::PostAlonzoTransactionOutput<'a> {
        let datum_option = if self.s.bool() {
            let d = self.datum_option();
            Some(self.keep("DatumOption", d))
        } else {
            None
        };
        let o = babbage::PostAlonzoTransactionOutput {
            address: self.address(),
            value: self.alonzo_value(),
            datum_option,
            script_ref: opt!(self, CborWrap(self.babbage_script_ref())),
        };
        self.s.class(format!(
            "value:babbage::GenPostAlonzoTransactionOutput(datum={},script={})",
            o.datum_option.is_some() as u8, o.script_ref.is_some() as u8
        ));
        o
    }
    pub fn conway_post_alonzo_output(&mut self) -> conway::PostAlonzoTransactionOutput<'a> {
        let datum_option = if self.s.bool() {
            let d = self.datum_option();
            Some(self.keep("DatumOption", d))
        } else {
            None
        };
        let o = conway::PostAlonzoTransactionOutput {
            address: self.address(),
            value: self.conway_value(),
            datum_option,
            script_ref: opt!(self, CborWrap(self.conway_script_ref())),
        };
        self.s.class(format!(
            "value:conway::GenPostAlonzoTransactionOutput(datum={},script={})",
            o.datum_option.is_some() as u8, o.script_ref.is_some() as u8
        ));
        o
    }
    pub fn babbage_output(&mut self) -> babbage::TransactionOutput<'a> {
        self.s.hand("babbage::TransactionOutput");
        match self.s.variant("babbage::TransactionOutput", 2) {
            0 => {
                let o = self.alonzo_output();
                babbage::TransactionOutput::Legacy(self.keep("alonzo::TransactionOutput", o))
            }
            _ => {
                let o = self.babbage_post_alonzo_output();
                babbage::TransactionOutput::PostAlonzo(self.keep("babbage::PostAlonzoTransactionOutput", o))
            }
        }
    }
    pub fn conway_output(&mut self) -> conway::TransactionOutput<'a> {
        self.s.hand("conway::TransactionOutput");
        match self.s.variant("conway::TransactionOutput", 2) {
            0 => {
                let o = self.alonzo_output();
                conway::TransactionOutput::Legacy(self.keep("alonzo::TransactionOutput", o))
            }
            _ => {
                let o = self.conway_post_alonzo_output();
                conway::TransactionOutput::PostAlonzo(self.keep("conway::PostAlonzoTransactionOutput", o))
            }
        }
    }

    // ---- bodies ----
    pub fn alonzo_body(&mut self) -> alonzo::TransactionBody {
        alonzo::TransactionBody {
            inputs: self.vecn(0, 3, |g| g.input()),
            outputs: self.vecn(0, 3, |g| g.alonzo_output()),
            fee: self.coin(),
            ttl: opt!(self, self.s.u64e()),
            certificates: opt!(self, self.vecn(0, 3, |g| g.alonzo_cert())),
            withdrawals: opt!(self, self.withdrawals()),
            update: opt!(self, self.alonzo_update()),
            auxiliary_data_hash: opt!(self, self.hash32()),
            validity_interval_start: opt!(self, self.s.u64e()),
            mint: opt!(self, self.alonzo_mint()),
            script_data_hash: opt!(self, self.hash32()),
            collateral: opt!(self, self.vecn(0, 2, |g| g.input())),
            required_signers: opt!(self, self.vecn(0, 2, |g| g.hash28())),
            network_id: opt!(self, self.network_id()),
        }
    }
    fn network_id(&mut self) -> pallas_primitives::NetworkId {
        match self.s.variant("NetworkId", 2) {
            0 => pallas_primitives::NetworkId::Testnet,
            _ => pallas_primitives::NetworkId::Mainnet,
        }
    }
    pub fn babbage_body(&mut self) -> babbage::TransactionBody<'a> {
        babbage::TransactionBody {
            inputs: self.vecn(0, 3, |g| g.input()),
            outputs: self.vecn(0, 3, |g| {
                let o = g.babbage_output();
                g.keep("babbage::TransactionOutput", o)
            }),
            fee: self.coin(),
            ttl: opt!(self, self.s.u64e()),
            certificates: opt!(self, self.vecn(0, 3, |g| g.alonzo_cert())),
            withdrawals: opt!(self, self.withdrawals()),
            update: opt!(self, self.babbage_update()),
            auxiliary_data_hash: opt!(self, self.bytes_exact(32)),
            validity_interval_start: opt!(self, self.s.u64e()),
            mint: opt!(self, self.alonzo_mint()),
            script_data_hash: opt!(self, self.hash32()),
            collateral: opt!(self, self.vecn(0, 2, |g| g.input())),
            required_signers: opt!(self, self.vecn(0, 2, |g| g.hash28())),
            network_id: opt!(self, self.network_id()),
            collateral_return: if self.s.bool() {
                let o = self.babbage_output();
                Some(self.keep("babbage::TransactionOutput", o))
            } else {
                None
            },
            total_collateral: opt!(self, self.coin()),
            reference_inputs: opt!(self, self.vecn(0, 2, |g| g.input())),
        }
    }
    fn nes<T>(&mut self, max: usize, f: impl FnMut(&mut Self) -> T) -> NonEmptySet<T> {
        self.s.hand("NonEmptySet");
        NonEmptySet::from_vec(self.vecn(1, max, f)).expect("non-empty")
    }
    pub fn conway_body(&mut self) -> conway::TransactionBody<'a> {
        self.s.hand("Set");
        conway::TransactionBody {
            inputs: Set::from(self.vecn(0, 3, |g| g.input())),
            outputs: self.vecn(0, 3, |g| g.conway_output()),
            fee: self.coin(),
            ttl: opt!(self, self.s.u64e()),
            certificates: opt!(self, self.nes(3, |g| g.conway_cert())),
            withdrawals: opt!(self, self.withdrawals()),
            auxiliary_data_hash: opt!(self, self.hash32()),
            validity_interval_start: opt!(self, self.s.u64e()),
            mint: opt!(self, self.conway_mint()),
            script_data_hash: opt!(self, self.hash32()),
            collateral: opt!(self, self.nes(2, |g| g.input())),
            required_signers: opt!(self, self.nes(2, |g| g.hash28())),
            network_id: opt!(self, self.network_id()),
            collateral_return: opt!(self, self.conway_output()),
            total_collateral: opt!(self, self.coin()),
            reference_inputs: opt!(self, self.nes(2, |g| g.input())),
            voting_procedures: opt!(self, self.voting_procedures()),
            proposal_procedures: opt!(self, self.nes(2, |g| g.proposal())),
            treasury_value: opt!(self, self.coin()),
            donation: opt!(self, PositiveCoin::try_from(self.s.u64e().max(1)).unwrap()),
        }
    }

    // ---- witness sets ----
    fn vkey_witness(&mut self) -> alonzo::VKeyWitness {
        alonzo::VKeyWitness { vkey: self.bytes_exact(32), signature: self.bytes_exact(64) }
    }
    fn bootstrap_witness(&mut self) -> alonzo::BootstrapWitness {
        alonzo::BootstrapWitness {
            public_key: self.bytes_exact(32),
            signature: self.bytes_exact(64),
            chain_code: self.bytes_exact(32),
            attributes: self.bytes(8),
        }
    }
    fn kept_native(&mut self) -> KeepRaw<'a, alonzo::NativeScript> {
        let n = self.native_script(2);
        self.keep("NativeScript", n)
    }
    fn kept_pd(&mut self) -> KeepRaw<'a, PlutusData> {
        let d = self.plutus_data();
        self.keep("PlutusData", d)
    }
    pub fn alonzo_witness_set(&mut self) -> alonzo::WitnessSet<'a> {
        alonzo::WitnessSet {
            vkeywitness: opt!(self, self.vecn(0, 2, |g| g.vkey_witness())),
            native_script: opt!(self, self.vecn(0, 2, |g| g.kept_native())),
            bootstrap_witness: opt!(self, self.vecn(0, 2, |g| g.bootstrap_witness())),
            plutus_script: opt!(self, self.vecn(0, 2, |g| g.plutus_script::<1>())),
            plutus_data: opt!(self, self.vecn(0, 2, |g| g.kept_pd())),
            redeemer: opt!(self, self.vecn(0, 2, |g| g.alonzo_redeemer())),
        }
    }
    pub fn babbage_witness_set(&mut self) -> babbage::WitnessSet<'a> {
        babbage::WitnessSet {
            vkeywitness: opt!(self, self.vecn(0, 2, |g| g.vkey_witness())),
            native_script: opt!(self, self.vecn(0, 2, |g| g.kept_native())),
            bootstrap_witness: opt!(self, self.vecn(0, 2, |g| g.bootstrap_witness())),
            plutus_v1_script: opt!(self, self.vecn(0, 2, |g| g.plutus_script::<1>())),
            plutus_data: opt!(self, self.vecn(0, 2, |g| g.kept_pd())),
            redeemer: opt!(self, self.vecn(0, 2, |g| g.alonzo_redeemer())),
            plutus_v2_script: opt!(self, self.vecn(0, 2, |g| g.plutus_script::<2>())),
        }
    }
    pub fn conway_witness_set(&mut self) -> conway::WitnessSet<'a> {
        conway::WitnessSet {
            vkeywitness: opt!(self, self.nes(2, |g| g.vkey_witness())),
            native_script: opt!(self, self.nes(2, |g| g.kept_native())),
            bootstrap_witness: opt!(self, self.nes(2, |g| g.bootstrap_witness())),
            plutus_v1_script: opt!(self, self.nes(2, |g| g.plutus_script::<1>())),
            plutus_data: if self.s.bool() {
                let set = self.nes(2, |g| g.kept_pd());
                Some(self.keep("NonEmptySet<KeepRaw<PlutusData>>", set))
            } else {
                None
            },
            redeemer: if self.s.bool() {
                let r = self.conway_redeemers();
                Some(self.keep("conway::Redeemers", r))
            } else {
                None
            },
            plutus_v2_script: opt!(self, self.nes(2, |g| g.plutus_script::<2>())),
            plutus_v3_script: opt!(self, self.nes(2, |g| g.plutus_script::<3>())),
        }
    }

    // ---- auxiliary data ----
    /// hand-written codec: the three shapes
    pub fn aux_data(&mut self) -> alonzo::AuxiliaryData {
        self.s.hand("AuxiliaryData");
        match self.s.variant("AuxiliaryData", 3) {
            0 => alonzo::AuxiliaryData::Shelley(self.metadata()),
            1 => alonzo::AuxiliaryData::ShelleyMa(alonzo::ShelleyMaAuxiliaryData {
                transaction_metadata: self.metadata(),
                auxiliary_scripts: opt!(self, self.vecn(0, 2, |g| g.native_script(2))),
            }),
            _ => alonzo::AuxiliaryData::PostAlonzo(alonzo::PostAlonzoAuxiliaryData {
                metadata: opt!(self, self.metadata()),
                native_scripts: opt!(self, self.vecn(0, 2, |g| g.native_script(2))),
                plutus_scripts: opt!(self, self.vecn(0, 2, |g| g.plutus_script::<1>())),
            }),
        }
    }
    pub fn babbage_post_alonzo_aux(&mut self) -> babbage::PostAlonzoAuxiliaryData {
        babbage::PostAlonzoAuxiliaryData {
            metadata: opt!(self, self.metadata()),
            native_scripts: opt!(self, self.vecn(0, 2, |g| g.native_script(2))),
            plutus_v1_scripts: opt!(self, self.vecn(0, 2, |g| g.plutus_script::<1>())),
            plutus_v2_scripts: opt!(self, self.vecn(0, 2, |g| g.plutus_script::<2>())),
        }
    }
    pub fn conway_post_alonzo_aux(&mut self) -> conway::PostAlonzoAuxiliaryData {
        conway::PostAlonzoAuxiliaryData {
            metadata: opt!(self, self.metadata()),
            native_scripts: opt!(self, self.vecn(0, 2, |g| g.native_script(2))),
            plutus_v1_scripts: opt!(self, self.vecn(0, 2, |g| g.plutus_script::<1>())),
            plutus_v2_scripts: opt!(self, self.vecn(0, 2, |g| g.plutus_script::<2>())),
            plutus_v3_scripts: opt!(self, self.vecn(0, 2, |g| g.plutus_script::<3>())),
        }
    }

    // ---- headers ----
    pub fn alonzo_header(&mut self) -> alonzo::Header {
        alonzo::Header {
            header_body: alonzo::HeaderBody {
                block_number: self.s.u64e(),
                slot: self.s.u64e(),
                prev_hash: opt!(self, self.hash32()),
                issuer_vkey: self.bytes_exact(32),
                vrf_vkey: self.bytes_exact(32),
                nonce_vrf: self.vrf_cert(),
                leader_vrf: self.vrf_cert(),
                block_body_size: self.s.u64e(),
                block_body_hash: self.hash32(),
                operational_cert_hot_vkey: self.bytes_exact(32),
                operational_cert_sequence_number: self.s.u64e(),
                operational_cert_kes_period: self.s.u64e(),
                operational_cert_sigma: self.bytes_exact(64),
                protocol_major: self.s.u64e(),
                protocol_minor: self.s.u64e(),
            },
            body_signature: self.bytes(448),
        }
    }
    pub fn babbage_header(&mut self) -> babbage::Header {
        babbage::Header {
            header_body: babbage::HeaderBody {
                block_number: self.s.u64e(),
                slot: self.s.u64e(),
                prev_hash: opt!(self, self.hash32()),
                issuer_vkey: self.bytes_exact(32),
                vrf_vkey: self.bytes_exact(32),
                vrf_result: self.vrf_cert(),
                block_body_size: self.s.u64e(),
                block_body_hash: self.hash32(),
                operational_cert: babbage::OperationalCert {
                    operational_cert_hot_vkey: self.bytes_exact(32),
                    operational_cert_sequence_number: self.s.u64e(),
                    operational_cert_kes_period: self.s.u64e(),
                    operational_cert_sigma: self.bytes_exact(64),
                },
                protocol_version: (self.s.u64e(), self.s.u64e()),
            },
            body_signature: self.bytes(448),
        }
    }

    // ---- transactions and blocks ----
    fn nullable_aux(&mut self) -> Nullable<KeepRaw<'a, alonzo::AuxiliaryData>> {
        self.s.hand("Nullable");
        match self.s.variant("Nullable", 3) {
            0 => Nullable::Null,
            1 => {
                let a = self.aux_data();
                Nullable::Some(self.keep("AuxiliaryData", a))
            }
            _ => Nullable::Undefined,
        }
    }
    pub fn alonzo_tx(&mut self) -> alonzo::Tx<'a> {
        let b = self.alonzo_body();
        let w = self.alonzo_witness_set();
        alonzo::Tx {
            transaction_body: self.keep("alonzo::TransactionBody", b),
            transaction_witness_set: self.keep("alonzo::WitnessSet", w),
            success: self.s.bool(),
            auxiliary_data: self.nullable_aux(),
        }
    }
    pub fn babbage_tx(&mut self) -> babbage::Tx<'a> {
        let b = self.babbage_body();
        let w = self.babbage_witness_set();
        babbage::Tx {
            transaction_body: self.keep("babbage::TransactionBody", b),
            transaction_witness_set: self.keep("babbage::WitnessSet", w),
            success: self.s.bool(),
            auxiliary_data: self.nullable_aux(),
        }
    }
    pub fn conway_tx(&mut self) -> conway::Tx<'a> {
        let b = self.conway_body();
        let w = self.conway_witness_set();
        conway::Tx {
            transaction_body: self.keep("conway::TransactionBody", b),
            transaction_witness_set: self.keep("conway::WitnessSet", w),
            success: self.s.bool(),
            auxiliary_data: self.nullable_aux(),
        }
    }
    fn aux_set(&mut self, n: usize) -> BTreeMap<u32, KeepRaw<'a, alonzo::AuxiliaryData>> {
        let mut m = BTreeMap::new();
        for i in 0..n {
            if self.s.bool() {
                let a = self.aux_data();
                m.insert(i as u32, self.keep("AuxiliaryData", a));
            }
        }
        m
    }
    pub fn alonzo_block(&mut self) -> alonzo::Block<'a> {
        let h = self.alonzo_header();
        let n = self.s.len(2);
        let indef = self.s.bool();
        alonzo::Block {
            header: self.keep("alonzo::Header", h),
            transaction_bodies: {
                let v: Vec<_> = (0..n)
                    .map(|_| {
                        let b = self.alonzo_body();
                        self.keep("alonzo::TransactionBody", b)
                    })
                    .collect();
                TxSeq::tx_seq(v, indef)
            },
            transaction_witness_sets: {
                let v: Vec<_> = (0..n)
                    .map(|_| {
                        let w = self.alonzo_witness_set();
                        self.keep("alonzo::WitnessSet", w)
                    })
                    .collect();
                TxSeq::tx_seq(v, indef)
            },
            auxiliary_data_set: self.aux_set(n),
            invalid_transactions: opt!(self, self.vecn(0, 2, |g| g.s.below(4) as u32)),
        }
    }
    pub fn babbage_block(&mut self) -> babbage::Block<'a> {
        let h = self.babbage_header();
        let n = self.s.len(2);
        let indef = self.s.bool();
        babbage::Block {
            header: self.keep("babbage::Header", h),
            transaction_bodies: {
                let v: Vec<_> = (0..n)
                    .map(|_| {
                        let b = self.babbage_body();
                        self.keep("babbage::TransactionBody", b)
                    })
                    .collect();
                TxSeq::tx_seq(v, indef)
            },
            transaction_witness_sets: {
                let v: Vec<_> = (0..n)
                    .map(|_| {
                        let w = self.babbage_witness_set();
                        self.keep("babbage::WitnessSet", w)
                    })
                    .collect();
                TxSeq::tx_seq(v, indef)
            },
            auxiliary_data_set: self.aux_set(n),
            invalid_transactions: opt!(self, self.vecn(0, 2, |g| g.s.below(4) as u32)),
        }
    }
    pub fn conway_block(&mut self) -> conway::Block<'a> {
        let h = self.babbage_header();
        let n = self.s.len(2);
        let indef = self.s.bool();
        conway::Block {
            header: self.keep("babbage::Header", h),
            transaction_bodies: {
                let v: Vec<_> = (0..n)
                    .map(|_| {
                        let b = self.conway_body();
                        self.keep("conway::TransactionBody", b)
                    })
                    .collect();
                TxSeq::tx_seq(v, indef)
            },
            transaction_witness_sets: {
                let v: Vec<_> = (0..n)
                    .map(|_| {
                        let w = self.conway_witness_set();
                        self.keep("conway::WitnessSet", w)
                    })
                    .collect();
                TxSeq::tx_seq(v, indef)
            },
            auxiliary_data_set: self.aux_set(n),
            invalid_transactions: opt!(self, self.vecn(0, 2, |g| g.s.below(4) as u32)),
        }
    }

    // ---- Byron (hand-written codecs) ----
    /// Variant0 or Other(tag != 0, bytes)
    pub fn byron_txin(&mut self) -> byron::TxIn {
        self.s.hand("byron::TxIn");
        match self.s.variant("byron::TxIn", 2) {
            0 => {
                self.val("byron::TxIn::Variant0");
                byron::TxIn::Variant0(CborWrap((self.hash32(), self.s.u32e())))
            }
            _ => {
                self.val("byron::TxIn::Other");
                byron::TxIn::Other(1 + self.s.below(255) as u8, self.bytevec(20))
            }
        }
    }
    /// PkWitness / ScriptWitness / RedeemWitness or Other(tag > 2, bytes)
    pub fn byron_twit(&mut self) -> byron::Twit {
        self.s.hand("byron::Twit");
        match self.s.variant("byron::Twit", 4) {
            0 => {
                self.val("byron::Twit::PkWitness");
                byron::Twit::PkWitness(CborWrap((self.bytevec(64), self.bytevec(64))))
            }
            1 => {
                self.val("byron::Twit::ScriptWitness");
                byron::Twit::ScriptWitness(CborWrap(((self.u16e(), self.bytevec(20)), (self.u16e(), self.bytevec(20)))))
            }
            2 => {
                self.val("byron::Twit::RedeemWitness");
                byron::Twit::RedeemWitness(CborWrap((self.bytevec(32), self.bytevec(64))))
            }
            _ => {
                self.val("byron::Twit::Other");
                byron::Twit::Other(3 + self.s.below(253) as u8, self.bytevec(20))
            }
        }
    }
    pub fn byron_txout(&mut self) -> byron::TxOut {
        self.val("byron::TxOut");
        byron::TxOut { address: self.byron_address(), amount: self.s.u64e() }
    }
    pub fn byron_tx(&mut self) -> byron::Tx {
        self.val("byron::Tx");
        self.s.hand("MaybeIndefArray");
        let ins = self.vecn(0, 3, |g| g.byron_txin());
        let outs = self.vecn(0, 3, |g| g.byron_txout());
        byron::Tx {
            inputs: if self.s.bool() { MaybeIndefArray::Indef(ins) } else { MaybeIndefArray::Def(ins) },
            outputs: if self.s.bool() { MaybeIndefArray::Indef(outs) } else { MaybeIndefArray::Def(outs) },
            attributes: EmptyMap,
        }
    }

    // =========================================================================================
    // Byron: every remaining model type. Classes `value:<Type>[::<Variant>]` record what was built.
    // =========================================================================================
    fn val(&mut self, c: &str) {
        self.s.class(format!("value:{c}"));
    }
    pub fn u16e(&mut self) -> u16 {
        match self.s.below(5) {
            0 => 0,
            1 => self.s.below(24) as u16,
            2 => [23u16, 24, 255, 256, u16::MAX][self.s.below(5)],
            _ => self.s.raw() as u16,
        }
    }
    pub fn u8e(&mut self) -> u8 {
        match self.s.below(4) {
            0 => 0,
            1 => [1u8, 23, 24, u8::MAX][self.s.below(4)],
            _ => self.s.raw() as u8,
        }
    }
    /// byte string of about `typical` bytes, sometimes empty or at a CBOR head-width boundary
    pub fn bv(&mut self, typical: usize) -> ByteVec {
        let n = match self.s.below(10) {
            0 => 0,
            1 => 23 + self.s.below(2),
            2 => self.s.below(typical + 1),
            _ => typical,
        };
        ByteVec::from(self.s.bytes(n))
    }
    /// definite or indefinite array (both are what the encoder of `MaybeIndefArray` can produce)
    pub fn mia<T>(&mut self, what: &str, v: Vec<T>) -> MaybeIndefArray<T> {
        self.s.hand("MaybeIndefArray");
        let indef = self.s.bool();
        self.s.class(format!(
            "value:{what}:{}-{}",
            if indef { "indef" } else { "def" },
            if v.is_empty() { "empty" } else { "nonempty" }
        ));
        if indef {
            MaybeIndefArray::Indef(v)
        } else {
            MaybeIndefArray::Def(v)
        }
    }
    pub fn kvp<K: Clone, V: Clone>(&mut self, what: &str, v: Vec<(K, V)>) -> KeyValuePairs<K, V> {
        self.s.hand("KeyValuePairs");
        let indef = self.s.bool();
        self.s.class(format!(
            "value:{what}:{}-{}",
            if indef { "indef" } else { "def" },
            if v.is_empty() { "empty" } else { "nonempty" }
        ));
        if indef {
            KeyValuePairs::Indef(v)
        } else {
            KeyValuePairs::Def(v)
        }
    }
    /// `ZeroOrOneArray` has a private field and no constructor: the only way to obtain one is to
    /// decode `[]` / `[x]`; the array head is written here, `x` by its own encoder.
    pub fn zoo<T>(&mut self, label: &str, v: Option<T>) -> ZeroOrOneArray<T>
    where
        T: Encode<()> + for<'x> Decode<'x, ()> + Debug,
    {
        self.s.hand("ZeroOrOneArray");
        let empty = || minicbor::decode::<ZeroOrOneArray<T>>(&[0x80]).expect("ZeroOrOneArray: [] decodes");
        let Some(x) = v else {
            return empty();
        };
        let mut bytes = vec![0x81];
        match minicbor::to_vec(&x) {
            Ok(b) => bytes.extend(b),
            Err(e) => {
                self.fail(format!("encode-error:{label}(nested)"), format!("{e}"));
                return empty();
            }
        }
        match minicbor::decode::<ZeroOrOneArray<T>>(&bytes) {
            Ok(z) => {
                let same = match &*z {
                    Some(y) => format!("{:?}", y) == format!("{:?}", x),
                    None => false,
                };
                if !same {
                    self.fail(
                        format!("roundtrip-mismatch:{label}(nested)"),
                        format!("nested value {:?} encoded as {} decodes to {:?}", x, hex::encode(&bytes), *z),
                    );
                }
                z
            }
            Err(e) => {
                self.fail(
                    format!("decode-error:{label}(nested)"),
                    format!("nested value {:?} encoded as {} does not decode: {e}", x, hex::encode(&bytes)),
                );
                empty()
            }
        }
    }
    /// `keep` for types without `PartialEq` (compared through their Debug rendering)
    pub fn keep_dbg<T>(&mut self, label: &str, v: T) -> KeepRaw<'a, T>
    where
        T: Encode<()> + Decode<'a, ()> + Debug,
    {
        self.s.hand("KeepRaw");
        let bytes = match minicbor::to_vec(&v) {
            Ok(b) => b,
            Err(e) => {
                self.fail(format!("encode-error:{label}(nested)"), format!("{e}"));
                return KeepRaw::from(v);
            }
        };
        let buf: &'a [u8] = self.arena.keep(bytes);
        match minicbor::decode::<KeepRaw<'a, T>>(buf) {
            Ok(k) => {
                if format!("{:?}", *k) != format!("{:?}", v) {
                    self.fail(
                        format!("roundtrip-mismatch:{label}(nested)"),
                        format!("nested value {:?} encoded as {} decodes to {:?}", v, hex::encode(buf), *k),
                    );
                }
                if k.raw_cbor().len() != buf.len() {
                    self.fail(
                        format!("not-fully-consumed:{label}(nested)"),
                        format!("nested value encoded as {} consumed only {} bytes", hex::encode(buf), k.raw_cbor().len()),
                    );
                }
                k
            }
            Err(e) => {
                self.fail(
                    format!("decode-error:{label}(nested)"),
                    format!("nested value {:?} encoded as {} does not decode: {e}", v, hex::encode(buf)),
                );
                KeepRaw::from(v)
            }
        }
    }

    pub fn byron_slot_id(&mut self) -> byron::SlotId {
        self.val("byron::SlotId");
        byron::SlotId { epoch: self.s.u64e(), slot: self.s.u64e() }
    }
    /// `[#6.24(bytes), u32]`: the payload is a black box for this crate; built either as arbitrary
    /// bytes or as the CBOR of `[addressid, addrattr, addrtype]` with its real CRC-32
    pub fn byron_address(&mut self) -> byron::Address {
        use pvkit::cborx as cx;
        self.s.hand("TagWrap");
        self.val("byron::Address");
        if self.s.below(3) == 0 {
            self.val("byron::Address:payload-opaque");
            return byron::Address { payload: TagWrap::new(self.bytevec(60)), crc: self.s.u32e() };
        }
        self.val("byron::Address:payload-structured");
        let mut attrs = vec![];
        match self.s.below(3) {
            0 => {}
            1 => {
                self.val("byron::AddrAttr:distr-bootstrap");
                attrs.push((cx::uint(0), cx::bytes(&cx::write(&cx::array(vec![cx::uint(1)])))));
            }
            _ => {
                self.val("byron::AddrAttr:distr-single-key");
                let id = self.s.bytes(28);
                attrs.push((cx::uint(0), cx::bytes(&cx::write(&cx::array(vec![cx::uint(0), cx::bytes(&id)])))));
            }
        }
        if self.s.bool() {
            self.val("byron::AddrAttr:derivation-path");
            let n = self.s.len(30);
            let path = self.s.bytes(n);
            attrs.push((cx::uint(1), cx::bytes(&cx::write(&cx::bytes(&path)))));
        }
        if self.s.bool() {
            self.val("byron::AddrAttr:network-magic");
            let magic = self.s.u32e() as u64;
            attrs.push((cx::uint(2), cx::bytes(&cx::write(&cx::uint(magic)))));
        }
        let ty = match self.s.below(4) {
            3 => 3 + self.s.u64e() % 1000,
            x => x as u64,
        };
        let id = self.s.bytes(28);
        let payload = cx::write(&cx::array(vec![cx::bytes(&id), cx::map(attrs), cx::uint(ty)]));
        let crc = if self.s.below(4) == 0 { self.s.u32e() } else { pvkit::crc32::crc32(&payload) };
        byron::Address { payload: TagWrap::new(ByteVec::from(payload)), crc }
    }
    pub fn byron_witnesses(&mut self) -> byron::Witnesses {
        let v = self.vecn(0, 3, |g| g.byron_twit());
        self.mia("byron::Witnesses", v)
    }
    pub fn byron_tx_payload(&mut self) -> byron::TxPayload<'a> {
        self.val("byron::TxPayload");
        let tx = self.byron_tx();
        let w = self.byron_witnesses();
        byron::TxPayload { transaction: self.keep("byron::Tx", tx), witness: self.keep_dbg("byron::Witnesses", w) }
    }

    // ---- shared seed computation ----
    pub fn byron_ssc_proof(&mut self) -> byron::SscProof {
        self.s.hand("byron::SscProof");
        match self.s.variant("byron::SscProof", 4) {
            0 => {
                self.val("byron::SscProof::Variant0");
                byron::SscProof::Variant0(self.hash32(), self.hash32())
            }
            1 => {
                self.val("byron::SscProof::Variant1");
                byron::SscProof::Variant1(self.hash32(), self.hash32())
            }
            2 => {
                self.val("byron::SscProof::Variant2");
                byron::SscProof::Variant2(self.hash32(), self.hash32())
            }
            _ => {
                self.val("byron::SscProof::Variant3");
                byron::SscProof::Variant3(self.hash32())
            }
        }
    }
    /// on chain: an indefinite array with one item
    fn byron_vss_enc(&mut self) -> byron::VssEnc {
        let v = self.vecn(0, 2, |g| g.bv(33));
        self.mia("byron::VssEnc", v)
    }
    fn byron_vss_proof(&mut self) -> byron::VssProof {
        self.val("byron::VssProof");
        let (a, b, c) = (self.bv(33), self.bv(64), self.bv(40));
        let v = self.vecn(0, 3, |g| g.bv(33));
        (a, b, c, self.mia("byron::VssProof.3", v))
    }
    fn byron_ssc_comm(&mut self) -> byron::SscComm {
        self.val("byron::SscComm");
        let pk = self.bv(64);
        let shares = self.vecn(0, 2, |g| (g.bv(35), g.byron_vss_enc()));
        let shares = self.kvp("byron::SscComm.shares", shares);
        let proof = self.byron_vss_proof();
        (pk, (shares, proof), self.bv(64))
    }
    fn byron_ssc_comms(&mut self) -> byron::SscComms {
        self.s.hand("TagWrap");
        let v = self.vecn(0, 2, |g| g.byron_ssc_comm());
        TagWrap::new(self.mia("byron::SscComms", v))
    }
    /// the order pallas decodes (and the chain carries): vsspubkey, epoch, pubkey, signature
    fn byron_ssc_cert(&mut self) -> byron::SscCert {
        self.val("byron::SscCert");
        (self.bv(35), self.s.u64e(), self.bv(64), self.bv(64))
    }
    fn byron_ssc_certs(&mut self) -> byron::SscCerts {
        self.s.hand("TagWrap");
        let v = self.vecn(0, 2, |g| g.byron_ssc_cert());
        TagWrap::new(self.mia("byron::SscCerts", v))
    }
    fn byron_ssc_opens(&mut self) -> byron::SscOpens {
        let v = self.vecn(0, 2, |g| (g.hash28(), g.bv(35)));
        self.kvp("byron::SscOpens", v)
    }
    fn byron_ssc_shares(&mut self) -> byron::SscShares {
        let v = self.vecn(0, 2, |g| {
            let k = g.hash28();
            let inner = g.vecn(0, 2, |g| {
                let k = g.hash28();
                let decs = g.vecn(0, 2, |g| g.bv(99));
                (k, g.mia("byron::VssDec-list", decs))
            });
            (k, g.kvp("byron::SscShares.inner", inner))
        });
        self.kvp("byron::SscShares", v)
    }
    pub fn byron_ssc(&mut self) -> byron::Ssc {
        self.s.hand("byron::Ssc");
        match self.s.variant("byron::Ssc", 4) {
            0 => {
                self.val("byron::Ssc::Variant0");
                byron::Ssc::Variant0(self.byron_ssc_comms(), self.byron_ssc_certs())
            }
            1 => {
                self.val("byron::Ssc::Variant1");
                byron::Ssc::Variant1(self.byron_ssc_opens(), self.byron_ssc_certs())
            }
            2 => {
                self.val("byron::Ssc::Variant2");
                byron::Ssc::Variant2(self.byron_ssc_shares(), self.byron_ssc_certs())
            }
            _ => {
                self.val("byron::Ssc::Variant3");
                byron::Ssc::Variant3(self.byron_ssc_certs())
            }
        }
    }

    // ---- delegation ----
    pub fn byron_dlg(&mut self) -> byron::Dlg {
        self.val("byron::Dlg");
        byron::Dlg { epoch: self.s.u64e(), issuer: self.bv(64), delegate: self.bv(64), certificate: self.bv(64) }
    }
    pub fn byron_lwdlg(&mut self) -> byron::Lwdlg {
        self.val("byron::Lwdlg");
        byron::Lwdlg {
            epoch_range: (self.s.u64e(), self.s.u64e()),
            issuer: self.bv(64),
            delegate: self.bv(64),
            certificate: self.bv(64),
        }
    }

    // ---- updates ----
    pub fn byron_bver(&mut self) -> byron::BVer {
        (self.u16e(), self.u16e(), self.u8e())
    }
    /// Variant0 or Other(tag != 0, bytes)
    pub fn byron_tx_fee_pol(&mut self) -> byron::TxFeePol {
        self.s.hand("byron::TxFeePol");
        match self.s.variant("byron::TxFeePol", 2) {
            0 => {
                self.val("byron::TxFeePol::Variant0");
                byron::TxFeePol::Variant0(CborWrap((self.s.i64e(), self.s.i64e())))
            }
            _ => {
                self.val("byron::TxFeePol::Other");
                byron::TxFeePol::Other(1 + self.s.below(255) as u8, self.bytevec(20))
            }
        }
    }
    pub fn byron_bver_mod(&mut self) -> byron::BVerMod {
        self.val("byron::BVerMod");
        macro_rules! z {
            ($name:expr, $e:expr) => {{
                let v = opt!(self, $e);
                self.zoo($name, v)
            }};
        }
        let m = byron::BVerMod {
            script_version: z!("ZeroOrOneArray<u16>", self.u16e()),
            slot_duration: z!("ZeroOrOneArray<u64>", self.s.u64e()),
            max_block_size: z!("ZeroOrOneArray<u64>", self.s.u64e()),
            max_header_size: z!("ZeroOrOneArray<u64>", self.s.u64e()),
            max_tx_size: z!("ZeroOrOneArray<u64>", self.s.u64e()),
            max_proposal_size: z!("ZeroOrOneArray<u64>", self.s.u64e()),
            mpc_thd: z!("ZeroOrOneArray<u64>", self.s.u64e()),
            heavy_del_thd: z!("ZeroOrOneArray<u64>", self.s.u64e()),
            update_vote_thd: z!("ZeroOrOneArray<u64>", self.s.u64e()),
            update_proposal_thd: z!("ZeroOrOneArray<u64>", self.s.u64e()),
            update_implicit: z!("ZeroOrOneArray<u64>", self.s.u64e()),
            soft_fork_rule: z!("ZeroOrOneArray<(u64,u64,u64)>", (self.s.u64e(), self.s.u64e(), self.s.u64e())),
            tx_fee_policy: z!("ZeroOrOneArray<TxFeePol>", self.byron_tx_fee_pol()),
            unlock_stake_epoch: z!("ZeroOrOneArray<u64>", self.s.u64e()),
        };
        self.s.class(format!("value:byron::BVerMod.soft_fork_rule:{}", m.soft_fork_rule.is_some() as u8));
        self.s.class(format!("value:byron::BVerMod.tx_fee_policy:{}", m.tx_fee_policy.is_some() as u8));
        self.s.class(format!("value:byron::BVerMod.script_version:{}", m.script_version.is_some() as u8));
        m
    }
    fn byron_up_data(&mut self) -> byron::UpData {
        (self.hash32(), self.hash32(), self.hash32(), self.hash32())
    }
    /// every field the model declares optional is generated present and absent
    pub fn byron_up_prop(&mut self) -> byron::UpProp {
        self.val("byron::UpProp");
        let data = self.vecn(0, 2, |g| (g.s.text(12), g.byron_up_data()));
        let p = byron::UpProp {
            block_version: opt!(self, self.byron_bver()),
            block_version_mod: opt!(self, self.byron_bver_mod()),
            software_version: opt!(self, (self.s.text(16), self.s.u32e())),
            data: self.kvp("byron::UpProp.data", data),
            attributes: opt!(self, EmptyMap),
            from: opt!(self, self.bv(64)),
            signature: opt!(self, self.bv(64)),
        };
        for (f, present) in [
            ("block_version", p.block_version.is_some()),
            ("block_version_mod", p.block_version_mod.is_some()),
            ("software_version", p.software_version.is_some()),
            ("attributes", p.attributes.is_some()),
            ("from", p.from.is_some()),
            ("signature", p.signature.is_some()),
        ] {
            self.s.class(format!("value:byron::UpProp.{f}:{}", present as u8));
        }
        p
    }
    pub fn byron_up_vote(&mut self) -> byron::UpVote {
        self.val("byron::UpVote");
        let vote = self.s.bool();
        self.s.class(format!("value:byron::UpVote.vote:{vote}"));
        byron::UpVote { voter: self.bv(64), proposal_id: self.hash32(), vote, signature: self.bv(64) }
    }
    pub fn byron_up(&mut self) -> byron::Up {
        self.val("byron::Up");
        let prop = opt!(self, self.byron_up_prop());
        self.s.class(format!("value:byron::Up.proposal:{}", prop.is_some() as u8));
        let votes = self.vecn(0, 2, |g| g.byron_up_vote());
        byron::Up { proposal: self.zoo("ZeroOrOneArray<UpProp>", prop), votes: self.mia("byron::Up.votes", votes) }
    }

    // ---- headers ----
    pub fn byron_block_sig(&mut self) -> byron::BlockSig {
        self.s.hand("byron::BlockSig");
        match self.s.variant("byron::BlockSig", 3) {
            0 => {
                self.val("byron::BlockSig::Signature");
                byron::BlockSig::Signature(self.bv(64))
            }
            1 => {
                self.val("byron::BlockSig::LwdlgSig");
                byron::BlockSig::LwdlgSig((self.byron_lwdlg(), self.bv(64)))
            }
            _ => {
                self.val("byron::BlockSig::DlgSig");
                byron::BlockSig::DlgSig((self.byron_dlg(), self.bv(64)))
            }
        }
    }
    /// on chain: a definite array with one item
    fn byron_difficulty(&mut self) -> byron::Difficulty {
        let v = self.vecn(0, 2, |g| g.s.u64e());
        self.mia("byron::Difficulty", v)
    }
    pub fn byron_block_cons(&mut self) -> byron::BlockCons {
        self.val("byron::BlockCons");
        byron::BlockCons(self.byron_slot_id(), self.bv(64), self.byron_difficulty(), self.byron_block_sig())
    }
    pub fn byron_block_head_ex(&mut self) -> byron::BlockHeadEx {
        self.val("byron::BlockHeadEx");
        let attributes = opt!(self, EmptyMap);
        self.s.class(format!("value:byron::BlockHeadEx.attributes:{}", attributes.is_some() as u8));
        byron::BlockHeadEx {
            block_version: self.byron_bver(),
            software_version: (self.s.text(16), self.s.u32e()),
            attributes,
            extra_proof: self.hash32(),
        }
    }
    pub fn byron_block_proof(&mut self) -> byron::BlockProof {
        self.val("byron::BlockProof");
        byron::BlockProof {
            tx_proof: (self.s.u32e(), self.hash32(), self.hash32()),
            ssc_proof: self.byron_ssc_proof(),
            dlg_proof: self.hash32(),
            upd_proof: self.hash32(),
        }
    }
    pub fn byron_block_head(&mut self) -> byron::BlockHead {
        self.val("byron::BlockHead");
        byron::BlockHead {
            protocol_magic: self.s.u32e(),
            prev_block: self.hash32(),
            body_proof: self.byron_block_proof(),
            consensus_data: self.byron_block_cons(),
            extra_data: self.byron_block_head_ex(),
        }
    }
    pub fn byron_ebb_cons(&mut self) -> byron::EbbCons {
        self.val("byron::EbbCons");
        byron::EbbCons { epoch_id: self.s.u64e(), difficulty: self.byron_difficulty() }
    }
    pub fn byron_ebb_head(&mut self) -> byron::EbbHead {
        self.val("byron::EbbHead");
        byron::EbbHead {
            protocol_magic: self.s.u32e(),
            prev_block: self.hash32(),
            body_proof: self.hash32(),
            consensus_data: self.byron_ebb_cons(),
            extra_data: (EmptyMap,),
        }
    }

    // ---- block bodies and blocks ----
    pub fn byron_block_body(&mut self) -> byron::BlockBody<'a> {
        self.val("byron::BlockBody");
        let txs = self.vecn(0, 2, |g| g.byron_tx_payload());
        let dlg = self.vecn(0, 2, |g| g.byron_dlg());
        byron::BlockBody {
            tx_payload: self.mia("byron::BlockBody.tx_payload", txs),
            ssc_payload: self.byron_ssc(),
            dlg_payload: self.mia("byron::BlockBody.dlg_payload", dlg),
            upd_payload: self.byron_up(),
        }
    }
    fn byron_extra(&mut self) -> MaybeIndefArray<EmptyMap> {
        let v = self.vecn(0, 2, |_| EmptyMap);
        self.mia("byron::Block.extra", v)
    }
    pub fn byron_block(&mut self) -> byron::Block<'a> {
        self.val("byron::Block");
        let h = self.byron_block_head();
        byron::Block { header: self.keep_dbg("byron::BlockHead", h), body: self.byron_block_body(), extra: self.byron_extra() }
    }
    pub fn byron_eb_block(&mut self) -> byron::EbBlock<'a> {
        self.val("byron::EbBlock");
        let h = self.byron_ebb_head();
        let body = self.vecn(0, 3, |g| g.hash28());
        byron::EbBlock {
            header: self.keep_dbg("byron::EbbHead", h),
            body: self.mia("byron::EbBlock.body", body),
            extra: self.byron_extra(),
        }
    }

    // ---- small post-Byron types that no other family reaches ----
    pub fn alonzo_redeemer_pointer(&mut self) -> alonzo::RedeemerPointer {
        let tag = match self.s.variant("alonzo::RedeemerPointer.tag", 4) {
            0 => alonzo::RedeemerTag::Spend,
            1 => alonzo::RedeemerTag::Mint,
            2 => alonzo::RedeemerTag::Cert,
            _ => alonzo::RedeemerTag::Reward,
        };
        self.val(&format!("alonzo::RedeemerPointer::{:?}", tag));
        alonzo::RedeemerPointer { tag, index: self.s.u32e() }
    }
    pub fn conway_update(&mut self) -> conway::Update {
        self.val("conway::Update");
        let mut m = BTreeMap::new();
        for _ in 0..self.s.len(2) {
            let k = self.bytes_exact(28);
            m.insert(k, self.conway_ppu(false));
        }
        conway::Update { proposed_protocol_parameter_updates: m, epoch: self.s.u64e() }
    }
    pub fn set_of_inputs(&mut self) -> Set<TransactionInput> {
        self.s.hand("Set");
        let v = self.vecn(0, 3, |g| g.input());
        self.s.class(format!("value:Set:{}", if v.is_empty() { "empty" } else { "nonempty" }));
        Set::from(v)
    }
    pub fn nonempty_set_of_hashes(&mut self) -> NonEmptySet<Hash<28>> {
        self.s.class("value:NonEmptySet");
        self.nes(3, |g| g.hash28())
    }
    pub fn babbage_language(&mut self) -> babbage::Language {
        match self.s.variant("babbage::Language", 2) {
            0 => babbage::Language::PlutusV1,
            _ => babbage::Language::PlutusV2,
        }
    }
    pub fn conway_language(&mut self) -> conway::Language {
        match self.s.variant("conway::Language", 3) {
            0 => conway::Language::PlutusV1,
            1 => conway::Language::PlutusV2,
            _ => conway::Language::PlutusV3,
        }
    }
}
