mod c06;
mod c07;
mod c08;
mod c08_vectors;
mod gen;
mod pd;
mod placement;
mod util;

use pvkit::session::CheckDef;

fn main() {
    pvkit::main(&[
        CheckDef { id: "C06", level: "exploration", run: c06::run },
        CheckDef { id: "C07", level: "exploration", run: c07::run },
        CheckDef { id: "C08", level: "exploration", run: c08::run },
    ]);
}
