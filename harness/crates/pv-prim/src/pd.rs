//! Plain-data recipe for `PlutusData` (shared by C06, C07, C08): a serialisable tree that keeps
//! every choice the pallas type can express (def/indef flags, integer representation, the
//! constructor-tag form), conversions to/from the pallas type, a proptest strategy, an own
//! *model encoder* to a cborx tree, and small structural edits.
use pallas_codec::utils::{Int, KeyValuePairs, MaybeIndefArray};
use pallas_primitives::{BigInt, BoundedBytes, Constr, PlutusData};
use proptest::prelude::*;
use pvkit::cborx::{self, hexser, Kind, Node, Str, W};
use pvkit::pick_idx;
use serde::{Deserialize, Serialize};

#[derive(Debug, Clone, PartialEq, Eq, Hash, Serialize, Deserialize)]
pub enum PD {
    /// tag in 121..=127 | 1280..=1400 (any = None) or 102 (any = Some)
    Constr { tag: u64, any: Option<u64>, indef: bool, fields: Vec<PD> },
    Map { indef: bool, kvs: Vec<(PD, PD)> },
    Array { indef: bool, items: Vec<PD> },
    /// CBOR major type 0 (neg = false, value = mag) or 1 (neg = true, value = -1 - mag)
    Int { neg: bool, mag: u64 },
    BigU(#[serde(with = "hexser")] Vec<u8>),
    BigN(#[serde(with = "hexser")] Vec<u8>),
    Bytes(#[serde(with = "hexser")] Vec<u8>),
}

impl PD {
    pub fn kind(&self) -> &'static str {
        match self {
            PD::Constr { .. } => "constr",
            PD::Map { .. } => "map",
            PD::Array { .. } => "array",
            PD::Int { .. } => "int",
            PD::BigU(_) => "biguint",
            PD::BigN(_) => "bignint",
            PD::Bytes(_) => "bytes",
        }
    }
    /// coarse kind used by the library's cross-kind ranking (ints of all representations together)
    pub fn family(&self) -> u8 {
        match self {
            PD::Constr { .. } => 0,
            PD::Map { .. } => 1,
            PD::Array { .. } => 2,
            PD::Int { .. } | PD::BigU(_) | PD::BigN(_) => 3,
            PD::Bytes(_) => 4,
        }
    }
    pub fn int(v: i128) -> PD {
        if v >= 0 {
            PD::Int { neg: false, mag: v as u64 }
        } else {
            PD::Int { neg: true, mag: (-1 - v) as u64 }
        }
    }
    pub fn depth(&self) -> usize {
        1 + match self {
            PD::Constr { fields, .. } => fields.iter().map(|f| f.depth()).max().unwrap_or(0),
            PD::Array { items, .. } => items.iter().map(|f| f.depth()).max().unwrap_or(0),
            PD::Map { kvs, .. } => kvs.iter().map(|(k, v)| k.depth().max(v.depth())).max().unwrap_or(0),
            _ => 0,
        }
    }
    pub fn max_bytes_len(&self) -> usize {
        match self {
            PD::Constr { fields, .. } => fields.iter().map(|f| f.max_bytes_len()).max().unwrap_or(0),
            PD::Array { items, .. } => items.iter().map(|f| f.max_bytes_len()).max().unwrap_or(0),
            PD::Map { kvs, .. } => {
                kvs.iter().map(|(k, v)| k.max_bytes_len().max(v.max_bytes_len())).max().unwrap_or(0)
            }
            PD::Int { .. } => 0,
            PD::BigU(b) | PD::BigN(b) | PD::Bytes(b) => b.len(),
        }
    }
    /// classes seen in the tree (for generator statistics)
    pub fn classes(&self, out: &mut Vec<String>) {
        match self {
            PD::Constr { tag, indef, fields, .. } => {
                out.push(format!(
                    "pd:constr-{}",
                    match tag {
                        121..=127 => "121..127",
                        1280..=1400 => "1280..1400",
                        _ => "102",
                    }
                ));
                out.push(format!("pd:constr-{}", if *indef { "indef" } else { "def" }));
                fields.iter().for_each(|f| f.classes(out));
            }
            PD::Array { indef, items } => {
                out.push(format!("pd:array-{}", if *indef { "indef" } else { "def" }));
                items.iter().for_each(|f| f.classes(out));
            }
            PD::Map { indef, kvs } => {
                out.push(format!("pd:map-{}", if *indef { "indef" } else { "def" }));
                kvs.iter().for_each(|(k, v)| {
                    k.classes(out);
                    v.classes(out)
                });
            }
            PD::Int { neg, mag } => out.push(format!(
                "pd:int-{}{}",
                if *neg { "neg" } else { "pos" },
                if *mag > i64::MAX as u64 { "-beyond-i64" } else { "" }
            )),
            PD::BigU(b) | PD::BigN(b) => out.push(format!(
                "pd:{}-{}",
                self.kind(),
                if b.is_empty() {
                    "empty"
                } else if b[0] == 0 {
                    "leading-zero"
                } else if b.len() > 64 {
                    "gt64"
                } else {
                    "plain"
                }
            )),
            PD::Bytes(b) => out.push(format!(
                "pd:bytes-{}",
                match b.len() {
                    0 => "0",
                    1..=63 => "1..63",
                    64 => "64",
                    65 => "65",
                    66..=128 => "66..128",
                    _ => "gt128",
                }
            )),
        }
    }
}

// ---------------------------------------------------------------------------------------------
// conversions
// ---------------------------------------------------------------------------------------------

fn mia<A>(indef: bool, v: Vec<A>) -> MaybeIndefArray<A> {
    if indef {
        MaybeIndefArray::Indef(v)
    } else {
        MaybeIndefArray::Def(v)
    }
}

pub fn to_pallas(p: &PD) -> PlutusData {
    match p {
        PD::Constr { tag, any, indef, fields } => PlutusData::Constr(Constr {
            tag: *tag,
            any_constructor: *any,
            fields: mia(*indef, fields.iter().map(to_pallas).collect()),
        }),
        PD::Map { indef, kvs } => {
            let v: Vec<(PlutusData, PlutusData)> = kvs.iter().map(|(k, v)| (to_pallas(k), to_pallas(v))).collect();
            PlutusData::Map(if *indef { KeyValuePairs::Indef(v) } else { KeyValuePairs::Def(v) })
        }
        PD::Array { indef, items } => PlutusData::Array(mia(*indef, items.iter().map(to_pallas).collect())),
        PD::Int { neg, mag } => {
            let v: i128 = if *neg { -1 - (*mag as i128) } else { *mag as i128 };
            PlutusData::BigInt(BigInt::Int(Int::try_from(v).expect("in CBOR int range")))
        }
        PD::BigU(b) => PlutusData::BigInt(BigInt::BigUInt(BoundedBytes::from(b.clone()))),
        PD::BigN(b) => PlutusData::BigInt(BigInt::BigNInt(BoundedBytes::from(b.clone()))),
        PD::Bytes(b) => PlutusData::BoundedBytes(BoundedBytes::from(b.clone())),
    }
}

pub fn from_pallas(p: &PlutusData) -> PD {
    match p {
        PlutusData::Constr(c) => PD::Constr {
            tag: c.tag,
            any: c.any_constructor,
            indef: matches!(c.fields, MaybeIndefArray::Indef(_)),
            fields: c.fields.iter().map(from_pallas).collect(),
        },
        PlutusData::Map(m) => PD::Map {
            indef: matches!(m, KeyValuePairs::Indef(_)),
            kvs: m.iter().map(|(k, v)| (from_pallas(k), from_pallas(v))).collect(),
        },
        PlutusData::Array(a) => PD::Array {
            indef: matches!(a, MaybeIndefArray::Indef(_)),
            items: a.iter().map(from_pallas).collect(),
        },
        PlutusData::BigInt(BigInt::Int(i)) => PD::int(i128::from(*i)),
        PlutusData::BigInt(BigInt::BigUInt(b)) => PD::BigU(b.to_vec()),
        PlutusData::BigInt(BigInt::BigNInt(b)) => PD::BigN(b.to_vec()),
        PlutusData::BoundedBytes(b) => PD::Bytes(b.to_vec()),
    }
}

// ---------------------------------------------------------------------------------------------
// own model encoder (written from the plutus-core `Data` CBOR encoding rules)
// ---------------------------------------------------------------------------------------------

/// byte string as the Haskell encoder writes it: <= 64 bytes definite, otherwise an indefinite
/// string of 64-byte chunks (last one shorter)
pub fn bstr(data: &[u8]) -> Node {
    if data.len() <= 64 {
        cborx::bytes(data)
    } else {
        let chunks = data.chunks(64).map(|c| (W::min_for(c.len() as u64), c.to_vec())).collect();
        cborx::node(Kind::Bytes(Str::Indef(chunks)))
    }
}

/// byte string cut at arbitrary positions given by `cuts` (each cut is reduced modulo the remaining
/// length + 1; zero-length chunks are allowed). An empty cut list gives a definite string.
pub fn bstr_cut(data: &[u8], cuts: &[u16]) -> Node {
    if cuts.is_empty() {
        return cborx::bytes(data);
    }
    let mut chunks = vec![];
    let mut rest = data;
    for c in cuts {
        let n = (*c as usize) % (rest.len() + 1);
        let (a, b) = rest.split_at(n);
        chunks.push((W::min_for(a.len() as u64), a.to_vec()));
        rest = b;
    }
    if !rest.is_empty() {
        chunks.push((W::min_for(rest.len() as u64), rest.to_vec()));
    }
    cborx::node(Kind::Bytes(Str::Indef(chunks)))
}

/// `bs` decides how each byte string is written (call order = pre-order).
pub fn to_node_with(p: &PD, bs: &mut dyn FnMut(&[u8]) -> Node) -> Node {
    let arr = |indef: bool, v: Vec<Node>| if indef { cborx::array_indef(v) } else { cborx::array(v) };
    match p {
        PD::Constr { tag, any, indef, fields } => {
            let f = arr(*indef, fields.iter().map(|x| to_node_with(x, bs)).collect());
            if *tag == 102 {
                cborx::tag(102, cborx::array(vec![cborx::uint(any.unwrap_or(0)), f]))
            } else {
                cborx::tag(*tag, f)
            }
        }
        PD::Map { indef, kvs } => {
            let v: Vec<(Node, Node)> = kvs.iter().map(|(k, v)| {
                let kn = to_node_with(k, bs);
                let vn = to_node_with(v, bs);
                (kn, vn)
            }).collect();
            if *indef {
                cborx::map_indef(v)
            } else {
                cborx::map(v)
            }
        }
        PD::Array { indef, items } => arr(*indef, items.iter().map(|x| to_node_with(x, bs)).collect()),
        PD::Int { neg, mag } => {
            if *neg {
                cborx::nint(*mag)
            } else {
                cborx::uint(*mag)
            }
        }
        PD::BigU(b) => cborx::tag(2, bs(b)),
        PD::BigN(b) => cborx::tag(3, bs(b)),
        PD::Bytes(b) => bs(b),
    }
}

pub fn to_node(p: &PD) -> Node {
    to_node_with(p, &mut |b| bstr(b))
}

pub fn model_bytes(p: &PD) -> Vec<u8> {
    cborx::write(&to_node(p))
}

// ---------------------------------------------------------------------------------------------
// strategy
// ---------------------------------------------------------------------------------------------

pub fn int_leaf() -> impl Strategy<Value = PD> {
    prop_oneof![
        3 => (-30i128..30).prop_map(PD::int),
        3 => (0u32..=64, -2i128..=2, any::<bool>()).prop_map(|(k, d, neg)| {
            let v = ((1i128 << k) + d).clamp(0, (1i128 << 64) - 1);
            let v = if neg { -1 - v } else { v };
            PD::int(v.clamp(-(1i128 << 64), (1i128 << 64) - 1))
        }),
        1 => Just(PD::Int { neg: false, mag: u64::MAX }),
        1 => Just(PD::Int { neg: true, mag: u64::MAX }),
        2 => (any::<bool>(), any::<u64>()).prop_map(|(neg, mag)| PD::Int { neg, mag }),
    ]
}

fn big_bytes() -> impl Strategy<Value = Vec<u8>> {
    prop_oneof![
        // short, no leading zeros (often comparable with a small Int)
        4 => (0usize..=3, any::<[u8; 3]>()).prop_map(|(n, b)| b[..n].to_vec()),
        // 8..9 bytes: around the u64 boundary
        3 => (7usize..=10, any::<[u8; 10]>()).prop_map(|(n, b)| b[..n].to_vec()),
        // leading zeros
        3 => (0usize..=3, 0usize..=9, any::<[u8; 9]>()).prop_map(|(z, n, b)| {
            let mut v = vec![0u8; z];
            v.extend_from_slice(&b[..n]);
            v
        }),
        2 => prop::collection::vec(any::<u8>(), 0..=40),
        1 => prop::sample::select(vec![63usize, 64, 65, 130]).prop_flat_map(|n| prop::collection::vec(any::<u8>(), n..=n)),
    ]
}

pub fn bytes_len() -> impl Strategy<Value = usize> {
    prop_oneof![
        5 => 0usize..=12,
        4 => prop::sample::select(vec![0usize, 1, 63, 64, 65, 127, 128, 129, 200]),
        1 => Just(1000usize),
        1 => 0usize..=300,
    ]
}

pub fn bytes_leaf() -> impl Strategy<Value = PD> {
    bytes_len().prop_flat_map(|n| prop::collection::vec(any::<u8>(), n..=n)).prop_map(PD::Bytes)
}

pub fn leaf() -> impl Strategy<Value = PD> {
    prop_oneof![
        4 => int_leaf(),
        2 => big_bytes().prop_map(PD::BigU),
        2 => big_bytes().prop_map(PD::BigN),
        3 => bytes_leaf(),
    ]
}

pub fn constr_head() -> impl Strategy<Value = (u64, Option<u64>)> {
    prop_oneof![
        4 => (121u64..=127).prop_map(|t| (t, None)),
        3 => (1280u64..=1400).prop_map(|t| (t, None)),
        1 => prop::sample::select(vec![121u64, 127, 1280, 1400]).prop_map(|t| (t, None)),
        3 => prop_oneof![
            3 => 0u64..=10,
            2 => prop::sample::select(vec![6u64, 7, 8, 126, 127, 128, 129, u64::MAX, u64::MAX - 1, 1u64 << 32]),
            1 => any::<u64>(),
        ].prop_map(|a| (102u64, Some(a))),
    ]
}

/// PlutusData recipes up to `depth` container levels.
pub fn pd(depth: u32) -> impl Strategy<Value = PD> {
    leaf().prop_recursive(depth, 48, 4, |inner| {
        prop_oneof![
            3 => (constr_head(), any::<bool>(), prop::collection::vec(inner.clone(), 0..=4))
                .prop_map(|((tag, any), indef, fields)| PD::Constr { tag, any, indef, fields }),
            2 => (any::<bool>(), prop::collection::vec(inner.clone(), 0..=4))
                .prop_map(|(indef, items)| PD::Array { indef, items }),
            2 => (any::<bool>(), prop::collection::vec((inner.clone(), inner), 0..=3))
                .prop_map(|(indef, kvs)| PD::Map { indef, kvs }),
        ]
    })
}

/// Smaller recipes (used where PlutusData is only a payload: C06 redeemers/datums, C08).
pub fn pd_small() -> impl Strategy<Value = PD> {
    leaf().prop_recursive(3, 16, 3, |inner| {
        prop_oneof![
            3 => (constr_head(), any::<bool>(), prop::collection::vec(inner.clone(), 0..=3))
                .prop_map(|((tag, any), indef, fields)| PD::Constr { tag, any, indef, fields }),
            2 => (any::<bool>(), prop::collection::vec(inner.clone(), 0..=3))
                .prop_map(|(indef, items)| PD::Array { indef, items }),
            2 => (any::<bool>(), prop::collection::vec((inner.clone(), inner), 0..=2))
                .prop_map(|(indef, kvs)| PD::Map { indef, kvs }),
        ]
    })
}

// ---------------------------------------------------------------------------------------------
// edits
// ---------------------------------------------------------------------------------------------

#[derive(Debug, Clone, PartialEq, Eq, Serialize, Deserialize)]
pub enum Edit {
    /// leave the value as it is
    Same,
    /// replace the selected leaf (int / bignum / bytes node) by another leaf
    Leaf { sel: u16, leaf: PD },
    /// +-1 on the selected integer, or on the last byte of the selected bignum / byte string
    Bump { sel: u16, up: bool },
    /// re-represent the selected integer (Int <-> BigUInt/BigNInt with `pad` leading zeros) or
    /// constructor (121..127 / 1280..1400 <-> 102 + index)
    ReRep { sel: u16, pad: u8, alt: bool },
    /// append an item to the selected container
    Extend { sel: u16, item: PD },
    /// drop the last item of the selected container
    Truncate { sel: u16 },
    /// flip the def/indef flag of the selected container
    Flip { sel: u16 },
    /// an unrelated value
    Replace(PD),
}

impl Edit {
    pub fn name(&self) -> &'static str {
        match self {
            Edit::Same => "same",
            Edit::Leaf { .. } => "leaf",
            Edit::Bump { .. } => "bump",
            Edit::ReRep { .. } => "rerep",
            Edit::Extend { .. } => "extend",
            Edit::Truncate { .. } => "truncate",
            Edit::Flip { .. } => "flip",
            Edit::Replace(_) => "replace",
        }
    }
}

pub fn edit() -> impl Strategy<Value = Edit> {
    prop_oneof![
        1 => Just(Edit::Same),
        4 => (any::<u16>(), leaf()).prop_map(|(sel, leaf)| Edit::Leaf { sel, leaf }),
        4 => (any::<u16>(), any::<bool>()).prop_map(|(sel, up)| Edit::Bump { sel, up }),
        4 => (any::<u16>(), 0u8..3, any::<bool>()).prop_map(|(sel, pad, alt)| Edit::ReRep { sel, pad, alt }),
        3 => (any::<u16>(), leaf()).prop_map(|(sel, item)| Edit::Extend { sel, item }),
        2 => any::<u16>().prop_map(|sel| Edit::Truncate { sel }),
        2 => any::<u16>().prop_map(|sel| Edit::Flip { sel }),
        1 => pd_small().prop_map(Edit::Replace),
    ]
}

/// pre-order visit; `f` returns true to stop
fn visit_mut(p: &mut PD, f: &mut dyn FnMut(&mut PD) -> bool) -> bool {
    if f(p) {
        return true;
    }
    match p {
        PD::Constr { fields, .. } => fields.iter_mut().any(|x| visit_mut(x, f)),
        PD::Array { items, .. } => items.iter_mut().any(|x| visit_mut(x, f)),
        PD::Map { kvs, .. } => kvs.iter_mut().any(|(k, v)| visit_mut(k, f) || visit_mut(v, f)),
        _ => false,
    }
}

/// Apply `g` to the `sel`-th node (pre-order) satisfying `pred`. Returns false if there is none.
fn on_selected(p: &mut PD, sel: u16, pred: &dyn Fn(&PD) -> bool, g: &mut dyn FnMut(&mut PD)) -> bool {
    let mut n = 0usize;
    visit_mut(p, &mut |x| {
        if pred(x) {
            n += 1;
        }
        false
    });
    if n == 0 {
        return false;
    }
    let target = pick_idx(sel, n);
    let mut i = 0usize;
    visit_mut(p, &mut |x| {
        if pred(x) {
            if i == target {
                g(x);
                return true;
            }
            i += 1;
        }
        false
    })
}

fn is_leaf(p: &PD) -> bool {
    matches!(p, PD::Int { .. } | PD::BigU(_) | PD::BigN(_) | PD::Bytes(_))
}
fn is_container(p: &PD) -> bool {
    !is_leaf(p)
}

fn be_trim(v: u128) -> Vec<u8> {
    v.to_be_bytes().iter().copied().skip_while(|b| *b == 0).collect()
}

/// Returns the edited value and whether the edit changed anything.
pub fn apply(a: &PD, e: &Edit) -> (PD, bool) {
    let mut p = a.clone();
    let done = match e {
        Edit::Same => false,
        Edit::Replace(x) => {
            p = x.clone();
            true
        }
        Edit::Leaf { sel, leaf } => on_selected(&mut p, *sel, &is_leaf, &mut |x| *x = leaf.clone()),
        Edit::Bump { sel, up } => on_selected(&mut p, *sel, &is_leaf, &mut |x| match x {
            PD::Int { neg, mag } => {
                let v: i128 = if *neg { -1 - (*mag as i128) } else { *mag as i128 };
                let v = (if *up { v + 1 } else { v - 1 }).clamp(-(1i128 << 64), (1i128 << 64) - 1);
                *x = PD::int(v);
            }
            PD::BigU(b) | PD::BigN(b) | PD::Bytes(b) => {
                if let Some(l) = b.last_mut() {
                    *l = if *up { l.wrapping_add(1) } else { l.wrapping_sub(1) };
                } else {
                    b.push(1);
                }
            }
            _ => {}
        }),
        Edit::ReRep { sel, pad, alt } => on_selected(
            &mut p,
            *sel,
            &|x| matches!(x, PD::Int { .. } | PD::BigU(_) | PD::BigN(_) | PD::Constr { .. }),
            &mut |x| match x {
                PD::Int { neg, mag } => {
                    // the magnitude as a big-endian string, in the library's reading of a negative
                    // bignum (-n, `alt` = false) or in RFC 8949's (-1-n, `alt` = true)
                    let m: u128 = if *neg && !*alt { *mag as u128 + 1 } else { *mag as u128 };
                    let mut b = vec![0u8; *pad as usize];
                    b.extend(be_trim(m));
                    *x = if *neg { PD::BigN(b) } else { PD::BigU(b) };
                }
                PD::BigU(_) | PD::BigN(_) => {
                    let neg = matches!(x, PD::BigN(_));
                    let b = match x {
                        PD::BigU(b) | PD::BigN(b) => b,
                        _ => unreachable!(),
                    };
                    let t: Vec<u8> = b.iter().copied().skip_while(|z| *z == 0).collect();
                    if t.len() <= 8 {
                        let mut m = 0u128;
                        for z in &t {
                            m = (m << 8) | *z as u128;
                        }
                        *x = if !neg {
                            PD::Int { neg: false, mag: m as u64 }
                        } else if *alt {
                            PD::Int { neg: true, mag: m as u64 }
                        } else if m == 0 {
                            PD::Int { neg: false, mag: 0 }
                        } else {
                            PD::Int { neg: true, mag: (m - 1) as u64 }
                        };
                    } else {
                        // too large for an Int: change the amount of leading zeros instead
                        let mut nb = vec![0u8; *pad as usize + if *alt { 1 } else { 0 }];
                        nb.extend(t);
                        *b = nb;
                    }
                }
                PD::Constr { tag, any, .. } => match *tag {
                    121..=127 => {
                        *any = Some(*tag - 121);
                        *tag = 102;
                    }
                    1280..=1400 => {
                        *any = Some(*tag - 1280 + 7);
                        *tag = 102;
                    }
                    _ => {
                        let i = any.unwrap_or(0);
                        if i <= 6 {
                            *tag = 121 + i;
                            *any = None;
                        } else if i <= 127 {
                            *tag = 1280 + i - 7;
                            *any = None;
                        } else {
                            *any = Some(if *alt { i - 1 } else { i.wrapping_add(1) });
                        }
                    }
                },
                _ => {}
            },
        ),
        Edit::Extend { sel, item } => on_selected(&mut p, *sel, &is_container, &mut |x| match x {
            PD::Constr { fields, .. } => fields.push(item.clone()),
            PD::Array { items, .. } => items.push(item.clone()),
            PD::Map { kvs, .. } => kvs.push((item.clone(), item.clone())),
            _ => {}
        }),
        Edit::Truncate { sel } => on_selected(&mut p, *sel, &is_container, &mut |x| match x {
            PD::Constr { fields, .. } => {
                fields.pop();
            }
            PD::Array { items, .. } => {
                items.pop();
            }
            PD::Map { kvs, .. } => {
                kvs.pop();
            }
            _ => {}
        }),
        Edit::Flip { sel } => on_selected(&mut p, *sel, &is_container, &mut |x| match x {
            PD::Constr { indef, .. } | PD::Array { indef, .. } | PD::Map { indef, .. } => *indef = !*indef,
            _ => {}
        }),
    };
    let changed = done && &p != a;
    (p, changed)
}

/// Flip the def/indef flag of the i-th container (pre-order) for every set bit i (mod 64) of `mask`.
/// Returns the number of flags flipped.
pub fn flip_flags(p: &mut PD, mask: u64) -> usize {
    let mut i = 0u32;
    let mut n = 0usize;
    visit_mut(p, &mut |x| {
        if let PD::Constr { indef, .. } | PD::Array { indef, .. } | PD::Map { indef, .. } = x {
            if mask >> (i % 64) & 1 == 1 {
                *indef = !*indef;
                n += 1;
            }
            i += 1;
        }
        false
    });
    n
}
