//! Field-placement oracle for the map-encoded transaction bodies and for headers: an independent
//! reading (cborx) of the same bytes must show each scalar field under the key / at the position the
//! ledger CDDL gives it. Round-trip and isomorphism alone cannot see a codec whose encoder and decoder
//! agree with each other but not with the wire format (e.g. two swapped `#[n(..)]` indices).
use pallas_primitives::{alonzo, babbage, conway};
use pvkit::cborx::{self, Node};
use pvkit::{pv_ensure, pv_fail, Fail};

fn read(raw: &[u8], what: &str) -> Result<Node, Fail> {
    match cborx::read(raw) {
        Ok(n) => Ok(n),
        Err(e) => pv_fail!(format!("placement:{what}:not-wellformed"), "{e:?}"),
    }
}

fn scalar(n: &Node, key: u64, want: Option<u64>, what: &str, field: &str) -> Result<(), Fail> {
    let got = n.map_get(key).and_then(|x| x.as_u64());
    let present = n.map_get(key).is_some();
    pv_ensure!(
        got == want && present == want.is_some(),
        format!("placement:{what}.{field}"),
        "{what}.{field}: the bytes carry {:?} under key {key} but the decoded value has {:?}", got, want
    );
    Ok(())
}

fn hash(n: &Node, key: u64, want: Option<&[u8]>, what: &str, field: &str) -> Result<(), Fail> {
    let got = n.map_get(key).and_then(|x| x.as_bytes());
    pv_ensure!(
        got.as_deref() == want,
        format!("placement:{what}.{field}"),
        "{what}.{field}: the bytes carry {:?} under key {key} but the decoded value has {:?}",
        got.as_ref().map(hex::encode), want.map(hex::encode)
    );
    Ok(())
}

fn count(n: &Node, key: u64, want: Option<usize>, what: &str, field: &str) -> Result<(), Fail> {
    let got = n.map_get(key).and_then(|x| x.untagged().as_array().map(|v| v.len()));
    pv_ensure!(
        got == want,
        format!("placement:{what}.{field}"),
        "{what}.{field}: the bytes carry an array of {:?} items under key {key} but the decoded value has {:?}", got, want
    );
    Ok(())
}

pub fn alonzo_body(raw: &[u8], b: &alonzo::TransactionBody) -> Result<(), Fail> {
    let w = "alonzo::TransactionBody";
    let n = read(raw, w)?;
    count(&n, 0, Some(b.inputs.len()), w, "inputs")?;
    count(&n, 1, Some(b.outputs.len()), w, "outputs")?;
    scalar(&n, 2, Some(b.fee), w, "fee")?;
    scalar(&n, 3, b.ttl, w, "ttl")?;
    count(&n, 4, b.certificates.as_ref().map(|x| x.len()), w, "certificates")?;
    hash(&n, 7, b.auxiliary_data_hash.as_ref().map(|h| &h[..]), w, "auxiliary_data_hash")?;
    scalar(&n, 8, b.validity_interval_start, w, "validity_interval_start")?;
    hash(&n, 11, b.script_data_hash.as_ref().map(|h| &h[..]), w, "script_data_hash")?;
    count(&n, 13, b.collateral.as_ref().map(|x| x.len()), w, "collateral")?;
    count(&n, 14, b.required_signers.as_ref().map(|x| x.len()), w, "required_signers")?;
    scalar(&n, 15, b.network_id.map(|x| u8::from(x) as u64), w, "network_id")?;
    Ok(())
}

pub fn babbage_body(raw: &[u8], b: &babbage::TransactionBody) -> Result<(), Fail> {
    let w = "babbage::TransactionBody";
    let n = read(raw, w)?;
    count(&n, 0, Some(b.inputs.len()), w, "inputs")?;
    count(&n, 1, Some(b.outputs.len()), w, "outputs")?;
    scalar(&n, 2, Some(b.fee), w, "fee")?;
    scalar(&n, 3, b.ttl, w, "ttl")?;
    count(&n, 4, b.certificates.as_ref().map(|x| x.len()), w, "certificates")?;
    hash(&n, 7, b.auxiliary_data_hash.as_ref().map(|h| &h[..]), w, "auxiliary_data_hash")?;
    scalar(&n, 8, b.validity_interval_start, w, "validity_interval_start")?;
    hash(&n, 11, b.script_data_hash.as_ref().map(|h| &h[..]), w, "script_data_hash")?;
    count(&n, 13, b.collateral.as_ref().map(|x| x.len()), w, "collateral")?;
    count(&n, 14, b.required_signers.as_ref().map(|x| x.len()), w, "required_signers")?;
    scalar(&n, 15, b.network_id.map(|x| u8::from(x) as u64), w, "network_id")?;
    pv_ensure!(
        n.map_get(16).is_some() == b.collateral_return.is_some(),
        format!("placement:{w}.collateral_return"),
        "{w}.collateral_return presence differs from key 16"
    );
    scalar(&n, 17, b.total_collateral, w, "total_collateral")?;
    count(&n, 18, b.reference_inputs.as_ref().map(|x| x.len()), w, "reference_inputs")?;
    Ok(())
}

pub fn conway_body(raw: &[u8], b: &conway::TransactionBody) -> Result<(), Fail> {
    let w = "conway::TransactionBody";
    let n = read(raw, w)?;
    count(&n, 0, Some(b.inputs.len()), w, "inputs")?;
    count(&n, 1, Some(b.outputs.len()), w, "outputs")?;
    scalar(&n, 2, Some(b.fee), w, "fee")?;
    scalar(&n, 3, b.ttl, w, "ttl")?;
    count(&n, 4, b.certificates.as_ref().map(|x| x.len()), w, "certificates")?;
    hash(&n, 7, b.auxiliary_data_hash.as_ref().map(|h| &h[..]), w, "auxiliary_data_hash")?;
    scalar(&n, 8, b.validity_interval_start, w, "validity_interval_start")?;
    hash(&n, 11, b.script_data_hash.as_ref().map(|h| &h[..]), w, "script_data_hash")?;
    count(&n, 13, b.collateral.as_ref().map(|x| x.len()), w, "collateral")?;
    count(&n, 14, b.required_signers.as_ref().map(|x| x.len()), w, "required_signers")?;
    scalar(&n, 15, b.network_id.map(|x| u8::from(x) as u64), w, "network_id")?;
    pv_ensure!(
        n.map_get(16).is_some() == b.collateral_return.is_some(),
        format!("placement:{w}.collateral_return"),
        "{w}.collateral_return presence differs from key 16"
    );
    scalar(&n, 17, b.total_collateral, w, "total_collateral")?;
    count(&n, 18, b.reference_inputs.as_ref().map(|x| x.len()), w, "reference_inputs")?;
    pv_ensure!(
        n.map_get(19).is_some() == b.voting_procedures.is_some(),
        format!("placement:{w}.voting_procedures"),
        "{w}.voting_procedures presence differs from key 19"
    );
    count(&n, 20, b.proposal_procedures.as_ref().map(|x| x.len()), w, "proposal_procedures")?;
    scalar(&n, 21, b.treasury_value, w, "treasury_value")?;
    scalar(&n, 22, b.donation.map(u64::from), w, "donation")?;
    Ok(())
}

fn nth_u64(n: &Node, path: &[usize]) -> Option<u64> {
    let mut cur = n;
    for i in path {
        cur = cur.as_array()?.get(*i)?;
    }
    cur.as_u64()
}

/// Shelley..Alonzo header: [[block_number, slot, prev, issuer, vrf, nonce_vrf, leader_vrf, size, ...], sig]
pub fn alonzo_header(raw: &[u8], h: &alonzo::Header) -> Result<(), Fail> {
    let w = "alonzo::Header";
    let n = read(raw, w)?;
    for (path, want, field) in [
        (&[0usize, 0][..], h.header_body.block_number, "block_number"),
        (&[0, 1][..], h.header_body.slot, "slot"),
        (&[0, 7][..], h.header_body.block_body_size, "block_body_size"),
        (&[0, 10][..], h.header_body.operational_cert_sequence_number, "operational_cert_sequence_number"),
        (&[0, 11][..], h.header_body.operational_cert_kes_period, "operational_cert_kes_period"),
        (&[0, 13][..], h.header_body.protocol_major, "protocol_major"),
        (&[0, 14][..], h.header_body.protocol_minor, "protocol_minor"),
    ] {
        pv_ensure!(
            nth_u64(&n, path) == Some(want),
            format!("placement:{w}.{field}"),
            "{w}.{field}: the bytes carry {:?} at {:?} but the decoded value has {want}", nth_u64(&n, path), path
        );
    }
    Ok(())
}

/// Babbage/Conway header: [[block_number, slot, prev, issuer, vrf, vrf_result, size, hash, [hot, seq, kes, sigma], [major, minor]], sig]
pub fn babbage_header(raw: &[u8], h: &babbage::Header) -> Result<(), Fail> {
    let w = "babbage::Header";
    let n = read(raw, w)?;
    for (path, want, field) in [
        (&[0usize, 0][..], h.header_body.block_number, "block_number"),
        (&[0, 1][..], h.header_body.slot, "slot"),
        (&[0, 6][..], h.header_body.block_body_size, "block_body_size"),
        (&[0, 8, 1][..], h.header_body.operational_cert.operational_cert_sequence_number, "operational_cert_sequence_number"),
        (&[0, 8, 2][..], h.header_body.operational_cert.operational_cert_kes_period, "operational_cert_kes_period"),
        (&[0, 9, 0][..], h.header_body.protocol_version.0, "protocol_major"),
        (&[0, 9, 1][..], h.header_body.protocol_version.1, "protocol_minor"),
    ] {
        pv_ensure!(
            nth_u64(&n, path) == Some(want),
            format!("placement:{w}.{field}"),
            "{w}.{field}: the bytes carry {:?} at {:?} but the decoded value has {want}", nth_u64(&n, path), path
        );
    }
    Ok(())
}
