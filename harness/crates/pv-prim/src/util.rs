//! Helpers shared by the checks of this group.
use pvkit::cborx::{Kind, Len, Node, Str};

// ---------------------------------------------------------------------------------------------
// structural difference of two cborx trees (used to name the root cause of a non-isomorphic
// re-encoding)
// ---------------------------------------------------------------------------------------------

#[derive(Debug, Clone, PartialEq, Eq, PartialOrd, Ord)]
pub struct Diff {
    /// path with indices kept for the first `KEEP` levels and `*` below
    pub path: String,
    pub what: &'static str,
}

const KEEP: usize = 2;

fn pstr(path: &[usize]) -> String {
    let mut s = String::new();
    for (i, p) in path.iter().enumerate() {
        s.push('/');
        if i < KEEP {
            s.push_str(&p.to_string());
        } else {
            s.push('*');
        }
    }
    if s.is_empty() {
        s.push('/');
    }
    s
}

fn len_diff(a: &Len, b: &Len, kind: &'static str) -> Option<&'static str> {
    match (a, b, kind) {
        (Len::Indef, Len::Def(_), "array") => Some("array-indef-to-def"),
        (Len::Def(_), Len::Indef, "array") => Some("array-def-to-indef"),
        (Len::Def(x), Len::Def(y), "array") if x != y => Some("array-head-width"),
        (Len::Indef, Len::Def(_), _) => Some("map-indef-to-def"),
        (Len::Def(_), Len::Indef, _) => Some("map-def-to-indef"),
        (Len::Def(x), Len::Def(y), _) if x != y => Some("map-head-width"),
        _ => None,
    }
}

fn walk(a: &Node, b: &Node, path: &mut Vec<usize>, out: &mut Vec<Diff>) {
    if out.len() >= 64 {
        return;
    }
    let mut push = |what: &'static str, path: &Vec<usize>| out.push(Diff { path: pstr(path), what });
    match (&a.k, &b.k) {
        (Kind::Array(x, lx), Kind::Array(y, ly)) => {
            if let Some(w) = len_diff(lx, ly, "array") {
                push(w, path);
            }
            if x.len() != y.len() {
                push("array-item-count", path);
                return;
            }
            for (i, (p, q)) in x.iter().zip(y.iter()).enumerate() {
                path.push(i);
                walk(p, q, path, out);
                path.pop();
            }
        }
        (Kind::Map(x, lx), Kind::Map(y, ly)) => {
            if let Some(w) = len_diff(lx, ly, "map") {
                push(w, path);
            }
            if x.len() != y.len() {
                push("map-entry-count", path);
                return;
            }
            for (i, ((pk, pv), (qk, qv))) in x.iter().zip(y.iter()).enumerate() {
                path.push(i);
                if pk.k != qk.k {
                    out.push(Diff { path: pstr(path), what: "map-key" });
                }
                walk(pv, qv, path, out);
                path.pop();
            }
        }
        (Kind::Tag(t, w, x), Kind::Tag(u, v, y)) => {
            if t != u {
                push("tag-number", path);
            } else if w != v {
                push("tag-head-width", path);
            }
            walk(x, y, path, out);
        }
        (Kind::UInt(x, wx), Kind::UInt(y, wy)) | (Kind::NInt(x, wx), Kind::NInt(y, wy)) => {
            if x != y {
                push("int-value", path);
            } else if wx != wy {
                push("int-head-width", path);
            }
        }
        (Kind::Bytes(x), Kind::Bytes(y)) | (Kind::Text(x), Kind::Text(y)) => {
            if x.data() != y.data() {
                push("string-content", path);
            } else if x != y {
                push(
                    match (x, y) {
                        (Str::Indef(_), Str::Def(..)) => "string-indef-to-def",
                        (Str::Def(..), Str::Indef(_)) => "string-def-to-indef",
                        _ => "string-head-width",
                    },
                    path,
                );
            }
        }
        (x, y) => {
            if x != y {
                push("item-kind-or-value", path);
            }
        }
    }
}

/// Sorted, de-duplicated list of differences between two trees.
pub fn tree_diffs(a: &Node, b: &Node) -> Vec<Diff> {
    let mut out = vec![];
    walk(a, b, &mut vec![], &mut out);
    out.sort();
    out.dedup();
    out
}

pub fn diff_signature(d: &[Diff]) -> String {
    d.iter().map(|x| format!("{}:{}", x.path, x.what)).collect::<Vec<_>>().join(",")
}

// ---------------------------------------------------------------------------------------------
// choice sequences: a value is built from a plain list of numbers (the serialisable recipe);
// smaller numbers give simpler values, an exhausted list gives the simplest value.
// ---------------------------------------------------------------------------------------------

pub struct Src<'c> {
    c: &'c [u64],
    i: usize,
    /// classes observed while building (variants chosen, ...)
    pub classes: Vec<String>,
    /// set when a hand-written codec or an enum variant other than the first was exercised
    pub nontrivial: bool,
}

impl<'c> Src<'c> {
    pub fn new(c: &'c [u64]) -> Self {
        Src { c, i: 0, classes: vec![], nontrivial: false }
    }
    pub fn used(&self) -> usize {
        self.i
    }
    pub fn raw(&mut self) -> u64 {
        let v = self.c.get(self.i).copied().unwrap_or(0);
        self.i += 1;
        v
    }
    /// uniform in 0..n, monotone in the underlying choice
    pub fn below(&mut self, n: usize) -> usize {
        if n == 0 {
            return 0;
        }
        ((self.raw() as u128 * n as u128) >> 64) as usize
    }
    pub fn bool(&mut self) -> bool {
        self.raw() >> 63 == 1
    }
    /// a length in 0..=max biased toward small values
    pub fn len(&mut self, max: usize) -> usize {
        let a = self.below(max + 1);
        let b = self.below(max + 1);
        a.min(b)
    }
    /// a length in min..=max
    pub fn len_in(&mut self, min: usize, max: usize) -> usize {
        min + self.len(max - min)
    }
    pub fn bytes(&mut self, n: usize) -> Vec<u8> {
        let mut out = Vec::with_capacity(n);
        while out.len() < n {
            let w = self.raw().to_le_bytes();
            let take = (n - out.len()).min(8);
            out.extend_from_slice(&w[..take]);
        }
        out
    }
    pub fn arr<const N: usize>(&mut self) -> [u8; N] {
        let v = self.bytes(N);
        let mut a = [0u8; N];
        a.copy_from_slice(&v);
        a
    }
    /// edge-biased u64
    pub fn u64e(&mut self) -> u64 {
        match self.below(8) {
            0 => 0,
            1 => self.below(24) as u64,
            2 => 24 + self.below(232) as u64,
            3 => {
                let k = self.below(64) as u32;
                let d = self.below(3) as i128 - 1;
                ((1i128 << k) + d).clamp(0, u64::MAX as i128) as u64
            }
            4 => u64::MAX - self.below(2) as u64,
            5 => (u32::MAX as u64).wrapping_add(self.below(3) as u64).wrapping_sub(1),
            _ => self.raw(),
        }
    }
    pub fn u32e(&mut self) -> u32 {
        match self.below(6) {
            0 => 0,
            1 => self.below(24) as u32,
            2 => {
                let k = self.below(32) as u32;
                let d = self.below(3) as i64 - 1;
                ((1i64 << k) + d).clamp(0, u32::MAX as i64) as u32
            }
            3 => u32::MAX,
            _ => self.raw() as u32,
        }
    }
    pub fn i64e(&mut self) -> i64 {
        match self.below(8) {
            0 => 0,
            1 => self.below(48) as i64 - 24,
            2 => {
                let k = self.below(63) as u32;
                let d = self.below(3) as i128 - 1;
                let v = ((1i128 << k) + d).clamp(0, i64::MAX as i128) as i64;
                if self.bool() {
                    -v
                } else {
                    v
                }
            }
            3 => i64::MIN,
            4 => i64::MAX,
            5 => -1 - self.below(300) as i64,
            _ => self.raw() as i64,
        }
    }
    /// any integer of the CBOR integer range -2^64 ..= 2^64-1
    pub fn cbor_int(&mut self) -> i128 {
        let m = self.u64e() as i128;
        if self.bool() {
            -1 - m
        } else {
            m
        }
    }
    pub fn text(&mut self, max: usize) -> String {
        let n = self.len(max);
        let mut s = String::new();
        for _ in 0..n {
            let c = match self.below(8) {
                0 => 'é',
                1 => '\u{10348}',
                2 => '\0',
                3 => '"',
                _ => (b'a' + self.below(26) as u8) as char,
            };
            s.push(c);
        }
        s
    }
    pub fn class(&mut self, c: impl Into<String>) {
        self.classes.push(c.into());
    }
    /// choose a variant; marks the case non-trivial when it is not the first one
    pub fn variant(&mut self, ty: &str, n: usize) -> usize {
        let v = self.below(n);
        if v > 0 {
            self.nontrivial = true;
        }
        self.classes.push(format!("{ty}#{v}"));
        v
    }
    /// note that a hand-written codec is exercised
    pub fn hand(&mut self, ty: &str) {
        self.nontrivial = true;
        self.classes.push(format!("hand:{ty}"));
    }
}

// ---------------------------------------------------------------------------------------------
// byte arena: buffers that outlive the values borrowing from them (KeepRaw built by decoding)
// ---------------------------------------------------------------------------------------------

#[derive(Default)]
pub struct Arena {
    bufs: std::cell::RefCell<Vec<Box<[u8]>>>,
}

impl Arena {
    pub fn new() -> Self {
        Arena::default()
    }
    /// Store a buffer and return a slice that lives as long as the arena.
    pub fn keep(&self, v: Vec<u8>) -> &[u8] {
        let b: Box<[u8]> = v.into_boxed_slice();
        let ptr: *const [u8] = &*b;
        self.bufs.borrow_mut().push(b);
        // SAFETY: the boxed slice is heap-allocated, never mutated, never removed from `bufs`
        // and dropped only together with the arena; moving the Box into the Vec does not move the
        // heap data, so the pointer stays valid for the arena's lifetime.
        unsafe { &*ptr }
    }
}
