//! C40 — built transactions encode the staged content with a correct id and canonical redeemer
//! indices; building never panics (DESIGN §C40).
//!
//! A case is a sequence of plain-data staging operations. The interpreter applies every operation
//! to a `StagingTransaction` *and* to the harness' own model of the staged content (written from the
//! builder's documentation, not from its code). After `build_conway_raw()`:
//!   * a panic is a violation (signature = panic signature);
//!   * `Err(_)` : the property is silent (counted);
//!   * `Ok(built)` : the bytes are read back with pvkit::cborx (independent reader, byte spans) and
//!     compared with the model; the id must be Blake2b-256 (pvkit's own) of the body span; the bytes
//!     must also decode as `conway::Tx` with minicbor and that view must agree.
use std::collections::{BTreeMap, BTreeSet};

use pallas_crypto::hash::Hash;
use pallas_txbuilder::{BuildConway, BuiltTransaction, ExUnits, Input, Output, ScriptKind, StagingTransaction};
use proptest::prelude::*;
use pvkit::cborx::{self, Kind, Node};
use pvkit::{pick_idx, Fail, Obs, Session};
use serde::{Deserialize, Serialize};

// ------------------------------------------------------------------------------------------------
// Pools (constants the plain-data cases index into)
// ------------------------------------------------------------------------------------------------

/// Transaction ids; pool order deliberately differs from the sorted order.
pub fn tx_hash(h: u8) -> [u8; 32] {
    match h % 4 {
        0 => [0xff; 32],
        1 => [0x00; 32],
        2 => {
            let mut x = [0xff; 32];
            x[0] = 0x7f;
            x
        }
        _ => {
            let mut x = [0x00; 32];
            x[31] = 1;
            x
        }
    }
}
pub const TXO_INDEX: [u64; 5] = [1, 0, 2, 24, 70_000];

pub fn policy(p: u8) -> [u8; 28] {
    match p % 3 {
        0 => [0xee; 28],
        1 => [0x01; 28],
        _ => {
            let mut x = [0x80; 28];
            x[27] = 0;
            x
        }
    }
}

/// Asset names; entry 4 is 33 bytes long (documented `AssetNameTooLong` error).
pub fn asset_name(n: u8) -> Vec<u8> {
    match n % 5 {
        0 => vec![],
        1 => b"a".to_vec(),
        2 => b"tok".to_vec(),
        3 => vec![0xff; 32],
        _ => vec![0x41; 33],
    }
}

pub fn key_hash(k: u8) -> [u8; 28] {
    match k % 3 {
        0 => [0xc3; 28],
        1 => [0x0a; 28],
        _ => [0x55; 28],
    }
}

pub fn datum_hash(k: u8) -> [u8; 32] {
    match k % 2 {
        0 => [0xd0; 32],
        _ => [0x0d; 32],
    }
}

/// Raw Shelley address bytes (header + 28-byte hashes); only fixed-length address types.
pub fn address_bytes(a: u8) -> Vec<u8> {
    let mut v = vec![];
    match a % 4 {
        0 => {
            v.push(0x61); // enterprise, key, mainnet
            v.extend_from_slice(&[0x11; 28]);
        }
        1 => {
            v.push(0x00); // base key/key, testnet
            v.extend_from_slice(&[0x22; 28]);
            v.extend_from_slice(&[0x33; 28]);
        }
        2 => {
            v.push(0x31); // base script/script, mainnet
            v.extend_from_slice(&[0x44; 28]);
            v.extend_from_slice(&[0x55; 28]);
        }
        _ => {
            v.push(0x70); // enterprise, script, testnet
            v.extend_from_slice(&[0x66; 28]);
        }
    }
    v
}

pub const N_DATUMS: u8 = 10;
/// PlutusData encodings built with cborx; the last two are not PlutusData (malformed-datum path).
pub fn datum_bytes(d: u8) -> Vec<u8> {
    use cborx::*;
    let n = match d % N_DATUMS {
        0 => uint(0),
        1 => int(-5),
        2 => bytes(b"hello"),
        3 => tag(121, array(vec![])),
        4 => tag(122, array(vec![uint(1), bytes(&[0xab; 4])])),
        5 => array(vec![uint(1), uint(2), uint(3)]),
        6 => map(vec![(uint(1), bytes(b"x")), (uint(2), array(vec![]))]),
        7 => tag(102, array(vec![uint(200), array(vec![int(-1), uint(u64::MAX)])])),
        8 => return vec![0xff],
        _ => return vec![0x61, 0x61], // text string: not a PlutusData
    };
    write(&n)
}

pub const N_NATIVE: u8 = 6;
pub fn native_script_bytes(s: u8) -> Vec<u8> {
    use cborx::*;
    let n = match s % N_NATIVE {
        0 => array(vec![uint(0), bytes(&[0x99; 28])]),
        1 => array(vec![uint(1), array(vec![])]),
        2 => array(vec![uint(3), uint(1), array(vec![array(vec![uint(0), bytes(&[0x77; 28])]), array(vec![uint(4), uint(100)])])]),
        3 => array(vec![uint(5), uint(2000)]),
        4 => array(vec![uint(2), array(vec![array(vec![uint(4), uint(7)])])]),
        _ => return vec![0xff], // malformed
    };
    write(&n)
}
pub fn plutus_script_bytes(s: u8) -> Vec<u8> {
    match s % 4 {
        0 => vec![],
        1 => vec![1, 2, 3],
        2 => vec![0x4d, 0x01, 0x00, 0x00, 0x33, 0x22, 0x22, 0x00, 0x51, 0x20, 0x01, 0x20, 0x01, 0x11],
        _ => (0..70u8).collect(),
    }
}
pub fn script_bytes(kind: u8, s: u8) -> Vec<u8> {
    if kind % 4 == 0 {
        native_script_bytes(s)
    } else {
        plutus_script_bytes(s)
    }
}
fn script_kind(kind: u8) -> ScriptKind {
    match kind % 4 {
        0 => ScriptKind::Native,
        1 => ScriptKind::PlutusV1,
        2 => ScriptKind::PlutusV2,
        _ => ScriptKind::PlutusV3,
    }
}

pub const N_AUX: u8 = 9;
/// Auxiliary data encodings (Shelley map / Shelley-MA array / post-Alonzo tag 259); the last three
/// are not auxiliary data (documented: silently ignored).
pub fn aux_bytes(a: u8) -> Vec<u8> {
    use cborx::*;
    let n = match a % N_AUX {
        0 => map(vec![]),
        1 => map(vec![(uint(1), text("abc"))]),
        2 => map(vec![(uint(674), map(vec![(text("msg"), array(vec![text("hi"), int(-3)]))])), (uint(2), bytes(&[1, 2]))]),
        3 => array(vec![map(vec![(uint(7), uint(8))]), array(vec![array(vec![uint(4), uint(9)])])]),
        4 => tag(259, map(vec![(uint(0), map(vec![(uint(1), uint(2))]))])),
        5 => tag(259, map(vec![(uint(1), array(vec![array(vec![uint(5), uint(3)])])), (uint(2), array(vec![bytes(&[9, 9])]))])),
        6 => return vec![0xff],
        7 => return vec![],
        _ => return vec![0x01],
    };
    write(&n)
}
pub fn aux_is_wellformed(a: u8) -> bool {
    a % N_AUX < 6
}

// ------------------------------------------------------------------------------------------------
// Case types
// ------------------------------------------------------------------------------------------------

#[derive(Debug, Clone, Copy, PartialEq, Serialize, Deserialize)]
pub struct InP {
    pub h: u8,
    pub i: u8,
}
impl InP {
    pub fn resolve(&self) -> ([u8; 32], u64) {
        (tx_hash(self.h), TXO_INDEX[(self.i as usize) % TXO_INDEX.len()])
    }
}

/// Either a pool entry or "one of the currently staged (spending) inputs / minted policies"
/// (monotone index; the operation is skipped when nothing is staged).
#[derive(Debug, Clone, Copy, PartialEq, Serialize, Deserialize)]
pub enum Pick {
    Pool(InP),
    Staged(u16),
}

#[derive(Debug, Clone, Copy, PartialEq, Serialize, Deserialize)]
pub enum PolPick {
    Pool(u8),
    Staged(u16),
}

#[derive(Debug, Clone, PartialEq, Serialize, Deserialize)]
pub enum DatumSpec {
    Hash(u8),
    Inline(u8),
}

#[derive(Debug, Clone, PartialEq, Serialize, Deserialize)]
pub struct OutSpec {
    pub addr: u8,
    pub lovelace: u64,
    /// (policy, name, amount) — accumulated by `add_asset`
    pub assets: Vec<(u8, u8, u64)>,
    pub datum: Option<DatumSpec>,
    /// (kind, script)
    pub script: Option<(u8, u8)>,
}

#[derive(Debug, Clone, PartialEq, Serialize, Deserialize)]
pub enum Op {
    Input(Pick),
    RemoveInput(Pick),
    RefInput(Pick),
    RemoveRefInput(Pick),
    CollInput(Pick),
    RemoveCollInput(Pick),
    Output(OutSpec),
    RemoveOutput(u16),
    CollOutput(OutSpec),
    ClearCollOutput,
    Fee(u64),
    ClearFee,
    Mint { p: u8, n: u8, amount: i64 },
    /// mint the exact negation of the current sum of a staged (policy, name) entry
    MintCancel(u16),
    RemoveMint { p: u8, n: u8 },
    ValidFrom(u64),
    ClearValidFrom,
    InvalidFrom(u64),
    ClearInvalidFrom,
    NetworkId(u8),
    ClearNetworkId,
    Signer(u8),
    RemoveSigner(u8),
    Script { kind: u8, s: u8 },
    RemoveScript { kind: u8, s: u8 },
    Datum(u8),
    RemoveDatum(u8),
    RemoveDatumByHash(u8),
    LanguageViews(Vec<(u8, Vec<i64>)>),
    AddLanguage { kind: u8, model: Vec<i64> },
    SpendRedeemer { target: Pick, data: u8, mem: u64, steps: u64 },
    RemoveSpendRedeemer(Pick),
    MintRedeemer { target: PolPick, data: u8, mem: u64, steps: u64 },
    RemoveMintRedeemer(PolPick),
    AuxData(u8),
    ClearAuxData,
    SigOverride(u8),
    ClearSigOverride,
    ChangeAddress(u8),
    ClearChangeAddress,
}

// ------------------------------------------------------------------------------------------------
// Model of the staged content
// ------------------------------------------------------------------------------------------------

pub type TxIn = ([u8; 32], u64);

#[derive(Debug, Clone, PartialEq)]
pub enum MDatum {
    Hash([u8; 32]),
    Inline(Vec<u8>),
}

#[derive(Debug, Clone, PartialEq)]
pub struct MOut {
    pub addr: Vec<u8>,
    pub lovelace: u64,
    pub assets: BTreeMap<(Vec<u8>, Vec<u8>), u64>,
    pub datum: Option<MDatum>,
    pub script: Option<(u8, Vec<u8>)>,
}

#[derive(Debug, Clone, PartialEq, Eq, PartialOrd, Ord)]
pub enum Purpose {
    Spend(TxIn),
    Mint([u8; 28]),
}

#[derive(Debug, Clone, Default)]
pub struct Model {
    pub inputs: Vec<TxIn>,
    pub refs: Vec<TxIn>,
    pub colls: Vec<TxIn>,
    pub outputs: Vec<MOut>,
    pub coll_out: Option<MOut>,
    pub fee: Option<u64>,
    pub mint: BTreeMap<(Vec<u8>, Vec<u8>), i64>,
    pub valid_from: Option<u64>,
    pub invalid_from: Option<u64>,
    pub network: Option<u8>,
    pub signers: Vec<[u8; 28]>,
    /// script hash (Blake2b-224 of language tag ++ bytes) -> (kind, bytes)
    pub scripts: BTreeMap<[u8; 28], (u8, Vec<u8>)>,
    pub datums: BTreeSet<Vec<u8>>,
    pub redeemers: BTreeMap<Purpose, (Vec<u8>, u64, u64)>,
    pub lang_views: Option<BTreeMap<u8, Vec<i64>>>,
    /// staging calls whose Ok/Err did not follow the documented limit (asset names of at most 32 bytes are accepted)
    pub limit_slips: Vec<String>,
    pub aux: Option<Vec<u8>>,
    /// bookkeeping for classification only
    pub effective_removals: u32,
    /// datums removed through `remove_datum_by_hash` while staged (diagnosis only)
    pub removed_by_hash: BTreeSet<Vec<u8>>,
}

impl Model {
    pub fn minted_policies(&self) -> Vec<Vec<u8>> {
        let mut v: Vec<Vec<u8>> = self.mint.keys().map(|(p, _)| p.clone()).collect();
        v.dedup();
        v
    }
    pub fn categories(&self) -> usize {
        [
            !self.inputs.is_empty(),
            !self.outputs.is_empty(),
            self.mint.values().any(|v| *v != 0),
            !self.colls.is_empty() || self.coll_out.is_some(),
            !self.refs.is_empty(),
            !self.signers.is_empty(),
            self.valid_from.is_some() || self.invalid_from.is_some(),
            self.network.is_some(),
            !self.datums.is_empty(),
            !self.scripts.is_empty(),
            self.aux.is_some(),
            !self.redeemers.is_empty(),
        ]
        .iter()
        .filter(|b| **b)
        .count()
    }
}

fn script_hash(kind: u8, bytes: &[u8]) -> [u8; 28] {
    let mut v = vec![kind % 4];
    v.extend_from_slice(bytes);
    pvkit::blake2b::b224(&v)
}

fn mk_input(i: TxIn) -> Input {
    Input::new(Hash::<32>::from(i.0), i.1)
}

fn resolve_pick(p: &Pick, staged: &[TxIn]) -> Option<TxIn> {
    match p {
        Pick::Pool(x) => Some(x.resolve()),
        Pick::Staged(sel) => {
            if staged.is_empty() {
                None
            } else {
                Some(staged[pick_idx(*sel, staged.len())])
            }
        }
    }
}

fn resolve_pol(p: &PolPick, m: &Model) -> Option<[u8; 28]> {
    match p {
        PolPick::Pool(x) => Some(policy(*x)),
        PolPick::Staged(sel) => {
            let pols = m.minted_policies();
            if pols.is_empty() {
                None
            } else {
                Some(pols[pick_idx(*sel, pols.len())].clone().try_into().unwrap())
            }
        }
    }
}

thread_local! {
    static OUTPUT_SLIPS: std::cell::RefCell<Vec<String>> = const { std::cell::RefCell::new(vec![]) };
}

fn mk_output(spec: &OutSpec) -> (Output, MOut) {
    let ab = address_bytes(spec.addr);
    let addr = pallas_addresses::Address::from_bytes(&ab).expect("harness address pool entry parses");
    assert_eq!(addr.to_vec(), ab, "harness address pool entry round-trips");
    let mut out = Output::new(addr, spec.lovelace);
    let mut m = MOut { addr: ab, lovelace: spec.lovelace, assets: BTreeMap::new(), datum: None, script: None };
    for (p, n, amount) in &spec.assets {
        let pol = policy(*p);
        let name = asset_name(*n);
        match out.clone().add_asset(Hash::<28>::from(pol), name.clone(), *amount) {
            Ok(o) => {
                out = o;
                *m.assets.entry((pol.to_vec(), name)).or_insert(0) += *amount;
            }
            Err(_) => { /* documented: name longer than 32 bytes; output unchanged */ }
        }
    }
    // the limit is exact: refused iff longer than 32 bytes
    let mut slips = vec![];
    for (p, n, amount) in &spec.assets {
        let name = asset_name(*n);
        let ok = Output::new(pallas_addresses::Address::from_bytes(&address_bytes(spec.addr)).unwrap(), spec.lovelace).add_asset(Hash::<28>::from(policy(*p)), name.clone(), *amount).is_ok();
        if ok != (name.len() <= 32) {
            slips.push(format!("add_asset with a {}-byte name: {}", name.len(), if ok { "accepted" } else { "refused" }));
        }
    }
    OUTPUT_SLIPS.with(|s| s.borrow_mut().extend(slips));
    match &spec.datum {
        Some(DatumSpec::Hash(k)) => {
            out = out.set_datum_hash(Hash::<32>::from(datum_hash(*k)));
            m.datum = Some(MDatum::Hash(datum_hash(*k)));
        }
        Some(DatumSpec::Inline(d)) => {
            out = out.set_inline_datum(datum_bytes(*d));
            m.datum = Some(MDatum::Inline(datum_bytes(*d)));
        }
        None => {}
    }
    if let Some((kind, s)) = &spec.script {
        out = out.set_inline_script(script_kind(*kind), script_bytes(*kind, *s));
        m.script = Some((*kind % 4, script_bytes(*kind, *s)));
    }
    (out, m)
}

fn retain_count<T: PartialEq>(v: &mut Vec<T>, x: &T) -> u32 {
    let before = v.len();
    v.retain(|y| y != x);
    (before - v.len()) as u32
}

/// Apply the operations to a fresh `StagingTransaction` and to the model.
pub fn apply(ops: &[Op]) -> (StagingTransaction, Model) {
    let mut tx = StagingTransaction::new();
    let mut m = Model::default();
    for op in ops {
        match op {
            Op::Input(p) => {
                if let Some(i) = resolve_pick(p, &m.inputs) {
                    tx = tx.input(mk_input(i));
                    m.inputs.push(i);
                }
            }
            Op::RemoveInput(p) => {
                if let Some(i) = resolve_pick(p, &m.inputs) {
                    tx = tx.remove_input(mk_input(i));
                    m.effective_removals += retain_count(&mut m.inputs, &i);
                }
            }
            Op::RefInput(p) => {
                if let Some(i) = resolve_pick(p, &m.refs) {
                    tx = tx.reference_input(mk_input(i));
                    m.refs.push(i);
                }
            }
            Op::RemoveRefInput(p) => {
                if let Some(i) = resolve_pick(p, &m.refs) {
                    tx = tx.remove_reference_input(mk_input(i));
                    m.effective_removals += retain_count(&mut m.refs, &i);
                }
            }
            Op::CollInput(p) => {
                if let Some(i) = resolve_pick(p, &m.colls) {
                    tx = tx.collateral_input(mk_input(i));
                    m.colls.push(i);
                }
            }
            Op::RemoveCollInput(p) => {
                if let Some(i) = resolve_pick(p, &m.colls) {
                    tx = tx.remove_collateral_input(mk_input(i));
                    m.effective_removals += retain_count(&mut m.colls, &i);
                }
            }
            Op::Output(spec) => {
                let (o, mo) = mk_output(spec);
                tx = tx.output(o);
                m.outputs.push(mo);
            }
            Op::RemoveOutput(sel) => {
                // documented precondition of Vec::remove: only indices < len are in the domain
                if !m.outputs.is_empty() {
                    let i = pick_idx(*sel, m.outputs.len());
                    tx = tx.remove_output(i);
                    m.outputs.remove(i);
                    m.effective_removals += 1;
                }
            }
            Op::CollOutput(spec) => {
                let (o, mo) = mk_output(spec);
                tx = tx.collateral_output(o);
                m.coll_out = Some(mo);
            }
            Op::ClearCollOutput => {
                tx = tx.clear_collateral_output();
                m.coll_out = None;
            }
            Op::Fee(f) => {
                tx = tx.fee(*f);
                m.fee = Some(*f);
            }
            Op::ClearFee => {
                tx = tx.clear_fee();
                m.fee = None;
            }
            Op::Mint { p, n, amount } => {
                let pol = policy(*p);
                let name = asset_name(*n);
                let ok = match tx.clone().mint_asset(Hash::<28>::from(pol), name.clone(), *amount) {
                    Ok(t) => {
                        tx = t;
                        *m.mint.entry((pol.to_vec(), name.clone())).or_insert(0) += *amount;
                        true
                    }
                    Err(_) => false, // documented: name longer than 32 bytes
                };
                if ok != (name.len() <= 32) {
                    m.limit_slips.push(format!("mint_asset with a {}-byte name: {}", name.len(), if ok { "accepted" } else { "refused" }));
                }
            }
            Op::MintCancel(sel) => {
                if !m.mint.is_empty() {
                    let k = m.mint.keys().nth(pick_idx(*sel, m.mint.len())).unwrap().clone();
                    let cur = m.mint[&k];
                    let pol: [u8; 28] = k.0.clone().try_into().unwrap();
                    tx = tx.mint_asset(Hash::<28>::from(pol), k.1.clone(), -cur).expect("name fits");
                    m.mint.insert(k, 0);
                }
            }
            Op::RemoveMint { p, n } => {
                let pol = policy(*p);
                let name = asset_name(*n);
                tx = tx.remove_mint_asset(Hash::<28>::from(pol), name.clone());
                if m.mint.remove(&(pol.to_vec(), name)).is_some() {
                    m.effective_removals += 1;
                }
            }
            Op::ValidFrom(s) => {
                tx = tx.valid_from_slot(*s);
                m.valid_from = Some(*s);
            }
            Op::ClearValidFrom => {
                tx = tx.clear_valid_from_slot();
                m.valid_from = None;
            }
            Op::InvalidFrom(s) => {
                tx = tx.invalid_from_slot(*s);
                m.invalid_from = Some(*s);
            }
            Op::ClearInvalidFrom => {
                tx = tx.clear_invalid_from_slot();
                m.invalid_from = None;
            }
            Op::NetworkId(n) => {
                tx = tx.network_id(*n);
                m.network = Some(*n);
            }
            Op::ClearNetworkId => {
                tx = tx.clear_network_id();
                m.network = None;
            }
            Op::Signer(k) => {
                tx = tx.disclosed_signer(Hash::<28>::from(key_hash(*k)));
                m.signers.push(key_hash(*k));
            }
            Op::RemoveSigner(k) => {
                tx = tx.remove_disclosed_signer(Hash::<28>::from(key_hash(*k)));
                m.effective_removals += retain_count(&mut m.signers, &key_hash(*k));
            }
            Op::Script { kind, s } => {
                let b = script_bytes(*kind, *s);
                tx = tx.script(script_kind(*kind), b.clone());
                m.scripts.insert(script_hash(*kind, &b), (*kind % 4, b));
            }
            Op::RemoveScript { kind, s } => {
                let b = script_bytes(*kind, *s);
                let h = script_hash(*kind, &b);
                tx = tx.remove_script_by_hash(Hash::<28>::from(h));
                if m.scripts.remove(&h).is_some() {
                    m.effective_removals += 1;
                }
            }
            Op::Datum(d) => {
                tx = tx.datum(datum_bytes(*d));
                m.datums.insert(datum_bytes(*d));
            }
            Op::RemoveDatum(d) => {
                tx = tx.remove_datum(datum_bytes(*d));
                if m.datums.remove(&datum_bytes(*d)) {
                    m.effective_removals += 1;
                }
            }
            Op::RemoveDatumByHash(d) => {
                // documented: datums are "keyed by [their] Blake2b-256 hash"
                let h = pvkit::blake2b::b256(&datum_bytes(*d));
                tx = tx.remove_datum_by_hash(Hash::<32>::from(h));
                if m.datums.remove(&datum_bytes(*d)) {
                    m.effective_removals += 1;
                    m.removed_by_hash.insert(datum_bytes(*d));
                }
            }
            Op::LanguageViews(v) => {
                let map: BTreeMap<u8, Vec<i64>> = v.iter().cloned().collect();
                tx = tx.language_views(pallas_primitives::conway::LanguageViews(map.clone()));
                m.lang_views = Some(map);
            }
            Op::AddLanguage { kind, model } => {
                tx = tx.add_language(script_kind(*kind), model.clone());
                if kind % 4 != 0 {
                    let mut map = m.lang_views.clone().unwrap_or_default();
                    map.insert(kind % 4 - 1, model.clone());
                    m.lang_views = Some(map);
                }
            }
            Op::SpendRedeemer { target, data, mem, steps } => {
                if let Some(i) = resolve_pick(target, &m.inputs) {
                    tx = tx.add_spend_redeemer(
                        mk_input(i),
                        datum_bytes(*data),
                        Some(ExUnits { mem: *mem, steps: *steps }),
                    );
                    m.redeemers.insert(Purpose::Spend(i), (datum_bytes(*data), *mem, *steps));
                }
            }
            Op::RemoveSpendRedeemer(target) => {
                if let Some(i) = resolve_pick(target, &m.inputs) {
                    tx = tx.remove_spend_redeemer(mk_input(i));
                    if m.redeemers.remove(&Purpose::Spend(i)).is_some() {
                        m.effective_removals += 1;
                    }
                }
            }
            Op::MintRedeemer { target, data, mem, steps } => {
                if let Some(p) = resolve_pol(target, &m) {
                    tx = tx.add_mint_redeemer(
                        Hash::<28>::from(p),
                        datum_bytes(*data),
                        Some(ExUnits { mem: *mem, steps: *steps }),
                    );
                    m.redeemers.insert(Purpose::Mint(p), (datum_bytes(*data), *mem, *steps));
                }
            }
            Op::RemoveMintRedeemer(target) => {
                if let Some(p) = resolve_pol(target, &m) {
                    tx = tx.remove_mint_redeemer(Hash::<28>::from(p));
                    if m.redeemers.remove(&Purpose::Mint(p)).is_some() {
                        m.effective_removals += 1;
                    }
                }
            }
            Op::AuxData(a) => {
                tx = tx.add_auxiliary_data(aux_bytes(*a));
                if aux_is_wellformed(*a) {
                    m.aux = Some(aux_bytes(*a));
                }
            }
            Op::ClearAuxData => {
                tx = tx.clear_auxiliary_data();
                m.aux = None;
            }
            Op::SigOverride(n) => tx = tx.signature_amount_override(*n),
            Op::ClearSigOverride => tx = tx.clear_signature_amount_override(),
            Op::ChangeAddress(a) => {
                let addr = pallas_addresses::Address::from_bytes(&address_bytes(*a)).expect("pool address");
                tx = tx.change_address(addr);
            }
            Op::ClearChangeAddress => tx = tx.clear_change_address(),
        }
    }
    (tx, m)
}

// ------------------------------------------------------------------------------------------------
// Strategies
// ------------------------------------------------------------------------------------------------

fn inp() -> impl Strategy<Value = InP> {
    (0u8..4, prop_oneof![4 => 0u8..3, 1 => 3u8..5]).prop_map(|(h, i)| InP { h, i })
}
fn pick(staged_w: u32) -> impl Strategy<Value = Pick> {
    prop_oneof![
        4 => inp().prop_map(Pick::Pool),
        staged_w => any::<u16>().prop_map(Pick::Staged),
    ]
}
fn polpick() -> impl Strategy<Value = PolPick> {
    prop_oneof![1 => (0u8..3).prop_map(PolPick::Pool), 3 => any::<u16>().prop_map(PolPick::Staged)]
}
fn word() -> impl Strategy<Value = u64> {
    prop_oneof![
        4 => 0u64..30,
        2 => prop::sample::select(vec![23u64, 24, 255, 256, 65_535, 65_536, u32::MAX as u64, u32::MAX as u64 + 1, u64::MAX]),
        2 => any::<u64>(),
    ]
}
fn datum_sel(safe: bool) -> BoxedStrategy<u8> {
    if safe {
        (0u8..8).boxed()
    } else {
        prop_oneof![14 => 0u8..8, 1 => 8u8..N_DATUMS].boxed()
    }
}
fn script_sel(safe: bool) -> BoxedStrategy<(u8, u8)> {
    // (kind, script index); the malformed native script only in the unsafe generator
    let native_hi = if safe { N_NATIVE - 1 } else { N_NATIVE };
    prop_oneof![
        2 => (Just(0u8), 0u8..native_hi),
        3 => (1u8..4, 0u8..4),
    ]
    .boxed()
}
fn asset_amount(safe: bool) -> BoxedStrategy<u64> {
    if safe {
        prop_oneof![6 => 1u64..1000, 1 => Just(1u64 << 40)].boxed()
    } else {
        prop_oneof![30 => 1u64..1000, 5 => Just(1u64 << 40), 1 => Just(0u64)].boxed()
    }
}
fn name_sel(safe: bool) -> BoxedStrategy<u8> {
    if safe {
        (0u8..4).boxed()
    } else {
        prop_oneof![20 => 0u8..4, 1 => Just(4u8)].boxed()
    }
}
fn outspec(safe: bool) -> impl Strategy<Value = OutSpec> {
    (
        0u8..4,
        word(),
        prop::collection::vec((0u8..3, name_sel(safe), asset_amount(safe)), 0..4),
        prop::option::weighted(
            0.5,
            prop_oneof![(0u8..2).prop_map(DatumSpec::Hash), datum_sel(safe).prop_map(DatumSpec::Inline)],
        ),
        prop::option::weighted(0.35, script_sel(safe)),
    )
        .prop_map(|(addr, lovelace, assets, datum, script)| OutSpec { addr, lovelace, assets, datum, script })
}
fn mint_amount(safe: bool) -> BoxedStrategy<i64> {
    if safe {
        prop_oneof![4 => 1i64..6, 2 => (1i64..6).prop_map(|x| -x - 10), 1 => Just(1i64 << 40)].boxed()
    } else {
        prop_oneof![
            8 => prop::sample::select(vec![1i64, -1, 2, -2, 5, -5]),
            3 => -1000i64..1000,
            2 => prop::sample::select(vec![1i64 << 40, -(1i64 << 40), i32::MAX as i64 + 1, -24, -25, 23, 24]),
        ]
        .boxed()
    }
}
fn cost_model() -> impl Strategy<Value = Vec<i64>> {
    prop::collection::vec(prop_oneof![3 => -3i64..300, 1 => any::<i64>()], 0..6)
}

/// One staging operation. `safe` = avoid the values that take the builder into its (known)
/// panicking or rejecting paths (used by C41, which needs built transactions).
pub fn op(safe: bool) -> impl Strategy<Value = Op> {
    prop_oneof![
        10 => pick(2).prop_map(Op::Input),
        2 => pick(6).prop_map(Op::RemoveInput),
        3 => pick(1).prop_map(Op::RefInput),
        1 => pick(4).prop_map(Op::RemoveRefInput),
        3 => pick(1).prop_map(Op::CollInput),
        1 => pick(4).prop_map(Op::RemoveCollInput),
        8 => outspec(safe).prop_map(Op::Output),
        2 => any::<u16>().prop_map(Op::RemoveOutput),
        1 => outspec(safe).prop_map(Op::CollOutput),
        1 => Just(Op::ClearCollOutput),
        3 => word().prop_map(Op::Fee),
        1 => Just(Op::ClearFee),
        8 => (0u8..3, name_sel(safe), mint_amount(safe)).prop_map(|(p, n, amount)| Op::Mint { p, n, amount }),
        2 => if safe { Just(Op::ClearChangeAddress).boxed() } else { any::<u16>().prop_map(Op::MintCancel).boxed() },
        2 => (0u8..3, 0u8..4).prop_map(|(p, n)| Op::RemoveMint { p, n }),
        2 => word().prop_map(Op::ValidFrom),
        1 => Just(Op::ClearValidFrom),
        2 => word().prop_map(Op::InvalidFrom),
        1 => Just(Op::ClearInvalidFrom),
        3 => (if safe { 0u8..2 } else { 0u8..3 }).prop_map(Op::NetworkId),
        1 => Just(Op::ClearNetworkId),
        3 => (0u8..3).prop_map(Op::Signer),
        1 => (0u8..3).prop_map(Op::RemoveSigner),
        4 => script_sel(safe).prop_map(|(kind, s)| Op::Script { kind, s }),
        1 => script_sel(safe).prop_map(|(kind, s)| Op::RemoveScript { kind, s }),
        4 => datum_sel(safe).prop_map(Op::Datum),
        1 => (0u8..8).prop_map(Op::RemoveDatum),
        1 => (0u8..8).prop_map(Op::RemoveDatumByHash),
        1 => prop::collection::vec((0u8..4, cost_model()), 0..3).prop_map(Op::LanguageViews),
        2 => (0u8..4, cost_model()).prop_map(|(kind, model)| Op::AddLanguage { kind, model }),
        6 => (pick(if safe { 400 } else { 12 }), datum_sel(safe), word(), word())
            .prop_map(|(target, data, mem, steps)| Op::SpendRedeemer { target, data, mem, steps }),
        1 => pick(4).prop_map(Op::RemoveSpendRedeemer),
        4 => (if safe { any::<u16>().prop_map(PolPick::Staged).boxed() } else { polpick().boxed() }, datum_sel(safe), word(), word())
            .prop_map(|(target, data, mem, steps)| Op::MintRedeemer { target, data, mem, steps }),
        1 => polpick().prop_map(Op::RemoveMintRedeemer),
        3 => (if safe { 0u8..6 } else { 0u8..N_AUX }).prop_map(Op::AuxData),
        1 => Just(Op::ClearAuxData),
        1 => any::<u8>().prop_map(Op::SigOverride),
        1 => Just(Op::ClearSigOverride),
        1 => (0u8..4).prop_map(Op::ChangeAddress),
        1 => Just(Op::ClearChangeAddress),
    ]
}

pub fn ops(safe: bool, max: usize) -> impl Strategy<Value = Vec<Op>> {
    prop::collection::vec(op(safe), 0..max)
}

// ------------------------------------------------------------------------------------------------
// Reading the built bytes (cborx) and comparing with the model
// ------------------------------------------------------------------------------------------------

/// Encoding-independent form: minimal heads, definite lengths, unchunked strings, map entries
/// sorted by encoded key. Two items with the same normal form carry the same data.
pub fn norm(n: &Node) -> Node {
    match &n.k {
        Kind::UInt(v, _) => cborx::uint(*v),
        Kind::NInt(v, _) => cborx::nint(*v),
        Kind::Bytes(s) => cborx::bytes(&s.data()),
        Kind::Text(s) => cborx::node(Kind::Text(cborx::Str::Def(cborx::W::min_for(s.data().len() as u64), s.data()))),
        Kind::Array(items, _) => cborx::array(items.iter().map(norm).collect()),
        Kind::Map(items, _) => {
            let mut v: Vec<(Vec<u8>, Node, Node)> = items
                .iter()
                .map(|(k, v)| {
                    let k = norm(k);
                    (cborx::write(&k), k, norm(v))
                })
                .collect();
            v.sort_by(|a, b| a.0.cmp(&b.0));
            cborx::map(v.into_iter().map(|(_, k, v)| (k, v)).collect())
        }
        Kind::Tag(t, _, inner) => cborx::tag(*t, norm(inner)),
        _ => cborx::node(n.k.clone()),
    }
}
pub fn norm_bytes(n: &Node) -> Vec<u8> {
    cborx::write(&norm(n))
}
/// Normal form of a CBOR byte string; `None` if it is not one well-formed item.
pub fn norm_of(b: &[u8]) -> Option<Vec<u8>> {
    cborx::read(b).ok().map(|n| norm_bytes(&n))
}

/// Items of a CBOR set: an array, optionally wrapped in tag 258.
fn set_items(n: &Node) -> Option<&Vec<Node>> {
    match &n.k {
        Kind::Tag(258, _, inner) => inner.as_array(),
        Kind::Array(v, _) => Some(v),
        _ => None,
    }
}

pub struct Parts {
    pub body: Node,
    pub wits: Node,
    pub valid: Node,
    pub aux: Node,
}

/// Split the transaction into its four parts; the nodes keep their byte spans in `bytes`.
pub fn split_tx(bytes: &[u8]) -> Result<Parts, Fail> {
    let root = match cborx::read(bytes) {
        Ok(r) => r,
        Err(e) => return Err(Fail { sig: "tx-bytes-not-one-wellformed-cbor-item".into(), msg: format!("{e:?} in {}", hex::encode(bytes)) }),
    };
    let items = match root.as_array() {
        Some(a) if a.len() == 4 => a.clone(),
        _ => return Err(Fail { sig: "tx-not-a-4-array".into(), msg: format!("top-level item of {}", hex::encode(bytes)) }),
    };
    let mut it = items.into_iter();
    let p = Parts { body: it.next().unwrap(), wits: it.next().unwrap(), valid: it.next().unwrap(), aux: it.next().unwrap() };
    if p.body.as_map().is_none() || p.wits.as_map().is_none() {
        return Err(Fail { sig: "tx-body-or-witness-set-not-a-map".into(), msg: hex::encode(bytes) });
    }
    Ok(p)
}

fn read_txin(n: &Node) -> Option<TxIn> {
    let a = n.as_array()?;
    if a.len() != 2 {
        return None;
    }
    let h: [u8; 32] = a[0].as_bytes()?.try_into().ok()?;
    Some((h, a[1].as_u64()?))
}

fn read_txin_set(n: Option<&Node>) -> Option<Vec<TxIn>> {
    match n {
        None => Some(vec![]),
        Some(n) => set_items(n)?.iter().map(read_txin).collect(),
    }
}

/// (policy, name) -> quantity, from a multiasset map.
fn read_multiasset(n: &Node) -> Option<Vec<((Vec<u8>, Vec<u8>), i128)>> {
    let mut out = vec![];
    for (p, assets) in n.as_map()? {
        let p = p.as_bytes()?;
        for (name, q) in assets.as_map()? {
            out.push(((p.clone(), name.as_bytes()?), q.as_int()?));
        }
    }
    Some(out)
}

#[derive(Debug, PartialEq)]
struct ROut {
    addr: Vec<u8>,
    lovelace: u64,
    assets: Vec<((Vec<u8>, Vec<u8>), i128)>,
    /// normal-form datum option: Hash(bytes) | Inline(normal form of the datum)
    datum: Option<Result<[u8; 32], Vec<u8>>>,
    /// (kind, normal form for native / raw bytes for plutus)
    script: Option<(u8, Vec<u8>)>,
}

fn read_value(n: &Node) -> Option<(u64, Vec<((Vec<u8>, Vec<u8>), i128)>)> {
    if let Some(c) = n.as_u64() {
        return Some((c, vec![]));
    }
    let a = n.as_array()?;
    if a.len() != 2 {
        return None;
    }
    Some((a[0].as_u64()?, read_multiasset(&a[1])?))
}

fn read_script_item(a: &[Node]) -> Option<(u8, Vec<u8>)> {
    if a.len() != 2 {
        return None;
    }
    let kind = a[0].as_u64()?;
    match kind {
        0 => Some((0, norm_bytes(&a[1]))),
        1..=3 => Some((kind as u8, a[1].as_bytes()?)),
        _ => None,
    }
}

fn read_output(n: &Node) -> Option<ROut> {
    match &n.k {
        Kind::Map(..) => {
            let addr = n.map_get(0)?.as_bytes()?;
            let (lovelace, assets) = read_value(n.map_get(1)?)?;
            let datum = match n.map_get(2) {
                None => None,
                Some(d) => {
                    let a = d.as_array()?;
                    if a.len() != 2 {
                        return None;
                    }
                    match a[0].as_u64()? {
                        0 => Some(Ok(a[1].as_bytes()?.try_into().ok()?)),
                        1 => {
                            if a[1].tag()? != 24 {
                                return None;
                            }
                            Some(Err(norm_of(&a[1].untagged().as_bytes()?)?))
                        }
                        _ => return None,
                    }
                }
            };
            let script = match n.map_get(3) {
                None => None,
                Some(s) => {
                    if s.tag()? != 24 {
                        return None;
                    }
                    let inner = cborx::read(&s.untagged().as_bytes()?).ok()?;
                    Some(read_script_item(inner.as_array()?)?)
                }
            };
            Some(ROut { addr, lovelace, assets, datum, script })
        }
        Kind::Array(a, _) => {
            // legacy form [address, value, ?datum_hash]
            if a.len() < 2 || a.len() > 3 {
                return None;
            }
            let (lovelace, assets) = read_value(&a[1])?;
            let datum = match a.get(2) {
                None => None,
                Some(h) => Some(Ok(h.as_bytes()?.try_into().ok()?)),
            };
            Some(ROut { addr: a[0].as_bytes()?, lovelace, assets, datum, script: None })
        }
        _ => None,
    }
}

/// What the model says an output must read back as; `None` when the staged output cannot be
/// represented (malformed inline datum / native script), i.e. the builder must not have accepted.
fn expect_output(m: &MOut) -> Option<ROut> {
    let datum = match &m.datum {
        None => None,
        Some(MDatum::Hash(h)) => Some(Ok(*h)),
        Some(MDatum::Inline(b)) => Some(Err(norm_of(b)?)),
    };
    let script = match &m.script {
        None => None,
        Some((0, b)) => Some((0u8, norm_of(b)?)),
        Some((k, b)) => Some((*k, b.clone())),
    };
    Some(ROut {
        addr: m.addr.clone(),
        lovelace: m.lovelace,
        assets: m.assets.iter().filter(|(_, q)| **q != 0).map(|(k, q)| (k.clone(), *q as i128)).collect(),
        datum,
        script,
    })
}

fn sorted_dedup<T: Ord + Clone>(v: &[T]) -> Vec<T> {
    let s: BTreeSet<T> = v.iter().cloned().collect();
    s.into_iter().collect()
}

fn fail(out: &mut Vec<Fail>, sig: &str, msg: String) {
    out.push(Fail { sig: sig.to_string(), msg });
}

/// All disagreements between the built transaction and the model (empty = agrees).
pub fn compare(built: &BuiltTransaction, m: &Model, obs: &mut Obs) -> Vec<Fail> {
    let mut fails = vec![];
    let bytes: &[u8] = built.tx_bytes.as_ref();
    let parts = match split_tx(bytes) {
        Ok(p) => p,
        Err(f) => return vec![f],
    };
    let body = &parts.body;
    let wits = &parts.wits;

    // ---- id
    let expected_id = pvkit::blake2b::b256(&bytes[body.s..body.e]);
    if built.tx_hash.0 != expected_id {
        fail(&mut fails, "tx-id-is-not-blake2b256-of-body-span", format!(
            "tx_hash {} but Blake2b-256(body span) = {}", hex::encode(built.tx_hash.0), hex::encode(expected_id)));
    }
    if parts.valid.k != Kind::Simple(21, false) {
        fail(&mut fails, "validity-flag-not-true", format!("third element is {:?}", parts.valid.k));
    }

    // ---- inputs (as a set)
    let exp_inputs = sorted_dedup(&m.inputs);
    match body.map_get(0).and_then(|n| read_txin_set(Some(n))) {
        Some(got) => {
            if sorted_dedup(&got) != exp_inputs {
                fail(&mut fails, "inputs-mismatch", format!("body inputs {:?}, staged {:?}", got, m.inputs));
            }
            if got.len() != exp_inputs.len() {
                obs.class("encoded-input-set-has-duplicates");
            }
        }
        None => fail(&mut fails, "inputs-unreadable", format!("body key 0 = {:?}", body.map_get(0))),
    }
    for (key, what, staged) in [(13u64, "collateral", &m.colls), (18u64, "reference-inputs", &m.refs)] {
        match read_txin_set(body.map_get(key)) {
            Some(got) => {
                if sorted_dedup(&got) != sorted_dedup(staged) {
                    fail(&mut fails, &format!("{what}-mismatch"), format!("body key {key}: {:?}, staged {:?}", got, staged));
                }
            }
            None => fail(&mut fails, &format!("{what}-unreadable"), format!("body key {key} = {:?}", body.map_get(key))),
        }
    }

    // ---- outputs (in order) and collateral return
    match body.map_get(1).and_then(|n| n.as_array()) {
        Some(outs) => {
            if outs.len() != m.outputs.len() {
                fail(&mut fails, "outputs-count-mismatch", format!("{} outputs in the body, {} staged", outs.len(), m.outputs.len()));
            } else {
                for (i, (o, mo)) in outs.iter().zip(&m.outputs).enumerate() {
                    compare_output(&mut fails, &format!("output {i}"), o, mo);
                }
            }
        }
        None => {
            if !m.outputs.is_empty() {
                fail(&mut fails, "outputs-missing", format!("{} outputs staged, body key 1 = {:?}", m.outputs.len(), body.map_get(1)));
            }
        }
    }
    match (body.map_get(16), &m.coll_out) {
        (None, None) => {}
        (Some(o), Some(mo)) => compare_output(&mut fails, "collateral return", o, mo),
        (g, e) => fail(&mut fails, "collateral-return-presence-mismatch", format!("body has {:?}, staged {:?}", g.is_some(), e.is_some())),
    }

    // ---- mint (non-zero entries)
    let exp_mint: Vec<((Vec<u8>, Vec<u8>), i128)> =
        m.mint.iter().filter(|(_, q)| **q != 0).map(|(k, q)| (k.clone(), *q as i128)).collect();
    let got_mint = match body.map_get(9) {
        None => Some(vec![]),
        Some(n) => read_multiasset(n),
    };
    let mut mint_policies: Vec<Vec<u8>> = vec![];
    match got_mint {
        Some(mut got) => {
            got.retain(|(_, q)| *q != 0);
            got.sort();
            if got != exp_mint {
                fail(&mut fails, "mint-mismatch", format!("body mint {:?}, staged (non-zero) {:?}", got, exp_mint));
            }
        }
        None => fail(&mut fails, "mint-unreadable", format!("body key 9 = {:?}", body.map_get(9))),
    }
    for (k, _) in &exp_mint {
        if mint_policies.last() != Some(&k.0) {
            mint_policies.push(k.0.clone());
        }
    }

    // ---- scalars
    if let Some(f) = m.fee {
        if body.map_get(2).and_then(|n| n.as_u64()) != Some(f) {
            fail(&mut fails, "fee-mismatch", format!("body fee {:?}, staged {f}", body.map_get(2).map(|n| &n.k)));
        }
    }
    for (key, what, staged) in [(3u64, "ttl", m.invalid_from), (8u64, "validity-start", m.valid_from)] {
        let got = body.map_get(key).map(|n| n.as_u64());
        let ok = match (got, staged) {
            (None, None) => true,
            (Some(Some(g)), Some(e)) => g == e,
            _ => false,
        };
        if !ok {
            fail(&mut fails, &format!("{what}-mismatch"), format!("body key {key}: {:?}, staged {:?}", got, staged));
        }
    }
    {
        let got = body.map_get(15).map(|n| n.as_u64());
        let ok = match (got, m.network) {
            (None, None) => true,
            (Some(Some(g)), Some(e)) => g == e as u64,
            _ => false,
        };
        if !ok {
            fail(&mut fails, "network-id-mismatch", format!("body key 15: {:?}, staged {:?}", got, m.network));
        }
    }
    // ---- required signers (as a set)
    {
        let got: Option<Vec<Vec<u8>>> = match body.map_get(14) {
            None => Some(vec![]),
            Some(n) => set_items(n).and_then(|v| v.iter().map(|x| x.as_bytes()).collect()),
        };
        let exp: Vec<Vec<u8>> = sorted_dedup(&m.signers.iter().map(|s| s.to_vec()).collect::<Vec<_>>());
        match got {
            Some(g) => {
                if sorted_dedup(&g) != exp {
                    fail(&mut fails, "required-signers-mismatch", format!("body key 14: {:?}, staged {:?}", g, m.signers));
                }
            }
            None => fail(&mut fails, "required-signers-unreadable", format!("{:?}", body.map_get(14))),
        }
    }

    // ---- witness set: scripts
    for (key, kind) in [(1u64, 0u8), (3, 1), (6, 2), (7, 3)] {
        let exp: Option<Vec<Vec<u8>>> = m
            .scripts
            .values()
            .filter(|(k, _)| *k == kind)
            .map(|(_, b)| if kind == 0 { norm_of(b) } else { Some(b.clone()) })
            .collect();
        let got: Option<Vec<Vec<u8>>> = match wits.map_get(key) {
            None => Some(vec![]),
            Some(n) => set_items(n).and_then(|v| {
                v.iter().map(|x| if kind == 0 { Some(norm_bytes(x)) } else { x.as_bytes() }).collect()
            }),
        };
        match (got, exp) {
            (Some(g), Some(e)) => {
                if sorted_dedup(&g) != sorted_dedup(&e) {
                    fail(&mut fails, "witness-scripts-mismatch", format!(
                        "witness key {key}: {:?}, staged kind-{kind} scripts {:?}",
                        g.iter().map(hex::encode).collect::<Vec<_>>(), e.iter().map(hex::encode).collect::<Vec<_>>()));
                }
            }
            (None, _) => fail(&mut fails, "witness-scripts-unreadable", format!("witness key {key}")),
            (_, None) => fail(&mut fails, "accepted-malformed-native-script", format!("a staged native script is not well-formed CBOR yet the build succeeded")),
        }
    }
    // ---- witness set: datums
    {
        let exp: Option<Vec<Vec<u8>>> = m.datums.iter().map(|b| norm_of(b)).collect();
        let got: Option<Vec<Vec<u8>>> = match wits.map_get(4) {
            None => Some(vec![]),
            Some(n) => set_items(n).map(|v| v.iter().map(norm_bytes).collect()),
        };
        match (got, exp) {
            (Some(g), Some(e)) => {
                let (g, e) = (sorted_dedup(&g), sorted_dedup(&e));
                // diagnosis: the surplus consists only of datums that were removed through their hash
                let ghosts: BTreeSet<Vec<u8>> = m.removed_by_hash.iter().filter_map(|b| norm_of(b)).collect();
                let surplus: Vec<&Vec<u8>> = g.iter().filter(|x| !e.contains(x)).collect();
                if g != e && e.iter().all(|x| g.contains(x)) && surplus.iter().all(|x| ghosts.contains(*x)) {
                    fail(&mut fails, "datum-removed-by-its-blake2b256-hash-still-in-witness-set", format!(
                        "witness key 4 still holds {:?}, removed earlier with remove_datum_by_hash(Blake2b-256(datum bytes)); staged datums {:?}",
                        surplus.iter().map(hex::encode).collect::<Vec<_>>(), e.iter().map(hex::encode).collect::<Vec<_>>()));
                } else if g != e {
                    fail(&mut fails, "witness-datums-mismatch", format!(
                        "witness key 4: {:?}, staged datums {:?}",
                        g.iter().map(hex::encode).collect::<Vec<_>>(), e.iter().map(hex::encode).collect::<Vec<_>>()));
                }
            }
            (None, _) => fail(&mut fails, "witness-datums-unreadable", "witness key 4".into()),
            (_, None) => fail(&mut fails, "accepted-malformed-datum", "a staged datum is not well-formed CBOR yet the build succeeded".into()),
        }
    }

    // ---- redeemers: (tag, index, data, mem, steps)
    type R = (u64, u64, Vec<u8>, u64, u64);
    let got_rdmrs: Option<Vec<R>> = match wits.map_get(5) {
        None => Some(vec![]),
        Some(n) => match &n.k {
            Kind::Array(items, _) => items
                .iter()
                .map(|r| {
                    let a = r.as_array()?;
                    if a.len() != 4 {
                        return None;
                    }
                    let ex = a[3].as_array()?;
                    if ex.len() != 2 {
                        return None;
                    }
                    Some((a[0].as_u64()?, a[1].as_u64()?, norm_bytes(&a[2]), ex[0].as_u64()?, ex[1].as_u64()?))
                })
                .collect(),
            Kind::Map(items, _) => items
                .iter()
                .map(|(k, v)| {
                    let k = k.as_array()?;
                    let v = v.as_array()?;
                    if k.len() != 2 || v.len() != 2 {
                        return None;
                    }
                    let ex = v[1].as_array()?;
                    if ex.len() != 2 {
                        return None;
                    }
                    Some((k[0].as_u64()?, k[1].as_u64()?, norm_bytes(&v[0]), ex[0].as_u64()?, ex[1].as_u64()?))
                })
                .collect(),
            _ => None,
        },
    };
    match got_rdmrs {
        None => fail(&mut fails, "redeemers-unreadable", format!("witness key 5 = {:?}", wits.map_get(5).map(|n| hex::encode(&bytes[n.s..n.e])))),
        Some(mut got) => {
            let mut exp: Vec<R> = vec![];
            let mut missing = false;
            let mut malformed = false;
            // for diagnosis only: where the target sits in the staged list sorted *with* duplicates
            let mut sorted_with_dups = m.inputs.clone();
            sorted_with_dups.sort();
            let mut dup_positions: Vec<(u64, u64)> = vec![]; // (expected index, index in the list with duplicates)
            for (purpose, (data, mem, steps)) in &m.redeemers {
                let Some(data) = norm_of(data) else {
                    malformed = true;
                    continue;
                };
                match purpose {
                    Purpose::Spend(i) => match exp_inputs.iter().position(|x| x == i) {
                        Some(ix) => {
                            let dp = sorted_with_dups.iter().position(|x| x == i).unwrap() as u64;
                            dup_positions.push((ix as u64, dp));
                            exp.push((0, ix as u64, data, *mem, *steps));
                        }
                        None => missing = true,
                    },
                    Purpose::Mint(p) => match mint_policies.iter().position(|x| x[..] == p[..]) {
                        Some(ix) => exp.push((1, ix as u64, data, *mem, *steps)),
                        None => missing = true,
                    },
                }
            }
            if malformed {
                fail(&mut fails, "accepted-malformed-redeemer-data", "a staged redeemer's data is not well-formed CBOR yet the build succeeded".into());
            } else if missing {
                fail(&mut fails, "accepted-redeemer-without-target", format!(
                    "a staged redeemer targets an input/policy that is not in the transaction yet the build succeeded; redeemers in the bytes: {:?}", got));
            } else {
                got.sort();
                exp.sort();
                if got != exp {
                    // diagnosis: same multiset once every spend index is mapped back from
                    // "position in the sorted list that still contains duplicates"?
                    let mut remapped = got.clone();
                    for r in remapped.iter_mut() {
                        if r.0 == 0 {
                            if let Some((e, _)) = dup_positions.iter().find(|(_, d)| *d == r.1) {
                                r.1 = *e;
                            }
                        }
                    }
                    remapped.sort();
                    let has_dups = exp_inputs.len() != m.inputs.len();
                    let strip = |v: &Vec<R>| v.iter().map(|r| (r.0, r.1, r.3, r.4)).collect::<Vec<_>>();
                    if has_dups && remapped == exp {
                        fail(&mut fails, "spend-redeemer-index-counts-duplicate-inputs", format!(
                            "spend redeemer indices {:?} are positions in the input list sorted *with* duplicates; in the ledger's input set (sorted, de-duplicated: {} elements of {} staged) they must be {:?}",
                            strip(&got), exp_inputs.len(), m.inputs.len(), strip(&exp)));
                    } else {
                        fail(&mut fails, "redeemers-mismatch", format!(
                            "redeemers (tag,index,mem,steps) in the bytes {:?}, expected {:?}", strip(&got), strip(&exp)));
                    }
                }
            }
            if !m.redeemers.is_empty() && !missing && !malformed {
                if m.redeemers.keys().any(|p| matches!(p, Purpose::Spend(_))) {
                    obs.class("spend-redeemer-built");
                    if exp_inputs.len() >= 2 {
                        obs.class("spend-redeemer-built:2+inputs");
                    }
                }
                if m.redeemers.keys().any(|p| matches!(p, Purpose::Mint(_))) {
                    obs.class("mint-redeemer-built");
                    if mint_policies.len() >= 2 {
                        obs.class("mint-redeemer-built:2+policies");
                    }
                }
            }
        }
    }

    // ---- auxiliary data
    match &m.aux {
        None => {
            if !parts.aux.is_null() {
                fail(&mut fails, "aux-data-present-but-none-staged", format!("{}", hex::encode(&bytes[parts.aux.s..parts.aux.e])));
            }
            if body.map_get(7).is_some() {
                obs.class("observation:aux-hash-without-aux-data");
            }
        }
        Some(a) => {
            if Some(norm_bytes(&parts.aux)) != norm_of(a) {
                fail(&mut fails, "aux-data-mismatch", format!(
                    "fourth element {}, staged {}", hex::encode(&bytes[parts.aux.s..parts.aux.e]), hex::encode(a)));
            }
            // not part of the statement: observed only
            let h = pvkit::blake2b::b256(&bytes[parts.aux.s..parts.aux.e]);
            if body.map_get(7).and_then(|n| n.as_bytes()) != Some(h.to_vec()) {
                obs.class("observation:aux-hash-differs-from-hash-of-encoded-aux-data");
            }
        }
    }

    // ---- the bytes decode as a Conway transaction and that view agrees
    match pallas_codec::minicbor::decode::<pallas_primitives::conway::Tx>(bytes) {
        Err(e) => fail(&mut fails, "built-bytes-do-not-decode-as-conway-tx", format!("{e} for {}", hex::encode(bytes))),
        Ok(tx) => {
            if tx.transaction_body.raw_cbor() != &bytes[body.s..body.e] {
                fail(&mut fails, "decoded-body-span-differs", "minicbor's body span differs from cborx's".into());
            }
            let b = &tx.transaction_body;
            let ins: Vec<TxIn> = b.inputs.iter().map(|i| (*i.transaction_id, i.index)).collect();
            if sorted_dedup(&ins) != exp_inputs {
                fail(&mut fails, "decoded-inputs-mismatch", format!("{:?} vs staged {:?}", ins, m.inputs));
            }
            if b.outputs.len() != m.outputs.len() {
                fail(&mut fails, "decoded-outputs-count-mismatch", format!("{} vs {}", b.outputs.len(), m.outputs.len()));
            }
            let dm: Vec<((Vec<u8>, Vec<u8>), i128)> = b
                .mint
                .iter()
                .flat_map(|x| x.iter())
                .flat_map(|(p, a)| a.iter().map(move |(n, q)| ((p.to_vec(), n.to_vec()), i64::from(q) as i128)))
                .collect();
            let mut dm = dm;
            dm.sort();
            if dm != exp_mint {
                fail(&mut fails, "decoded-mint-mismatch", format!("{:?} vs staged {:?}", dm, exp_mint));
            }
            if b.ttl != m.invalid_from || b.validity_interval_start != m.valid_from {
                fail(&mut fails, "decoded-validity-mismatch", format!(
                    "ttl {:?} start {:?} vs staged {:?} {:?}", b.ttl, b.validity_interval_start, m.invalid_from, m.valid_from));
            }
            if b.network_id.map(u8::from) != m.network {
                fail(&mut fails, "decoded-network-id-mismatch", format!("{:?} vs {:?}", b.network_id, m.network));
            }
            if !tx.success {
                fail(&mut fails, "decoded-validity-flag-false", String::new());
            }
        }
    }
    fails
}

fn compare_output(fails: &mut Vec<Fail>, which: &str, o: &Node, mo: &MOut) {
    let Some(mut got) = read_output(o) else {
        fail(fails, "output-unreadable", format!("{which}: {:?}", norm_bytes(o)));
        return;
    };
    let Some(exp) = expect_output(mo) else {
        fail(fails, "accepted-malformed-output-datum-or-script", format!("{which}: staged inline datum / native script is not well-formed CBOR yet the build succeeded"));
        return;
    };
    got.assets.retain(|(_, q)| *q != 0);
    got.assets.sort();
    if got.addr != exp.addr {
        fail(fails, "output-address-mismatch", format!("{which}: {} vs staged {}", hex::encode(&got.addr), hex::encode(&exp.addr)));
    }
    if got.lovelace != exp.lovelace {
        fail(fails, "output-lovelace-mismatch", format!("{which}: {} vs staged {}", got.lovelace, exp.lovelace));
    }
    if got.assets != exp.assets {
        fail(fails, "output-assets-mismatch", format!("{which}: {:?} vs staged (non-zero) {:?}", got.assets, exp.assets));
    }
    if got.datum != exp.datum {
        fail(fails, "output-datum-mismatch", format!("{which}: {:?} vs staged {:?}", got.datum, exp.datum));
    }
    if got.script != exp.script {
        fail(fails, "output-script-mismatch", format!("{which}: {:?} vs staged {:?}", got.script, exp.script));
    }
}

// ------------------------------------------------------------------------------------------------
// The check
// ------------------------------------------------------------------------------------------------

/// First failure whose signature is not a known finding; otherwise the first (known) one, so that
/// the session counts it. A known root cause therefore never hides a different one in the same case.
pub fn first_unknown(s: &Session, fails: Vec<Fail>) -> Result<(), Fail> {
    if fails.is_empty() {
        return Ok(());
    }
    if let Some(f) = fails.iter().find(|f| s.is_known(&f.sig).is_none()) {
        return Err(f.clone());
    }
    Err(fails[0].clone())
}

fn classify(m: &Model, obs: &mut Obs) {
    if sorted_dedup(&m.inputs).len() != m.inputs.len() {
        obs.class("staged:duplicate-inputs");
    }
    if m.mint.values().any(|q| *q == 0) {
        obs.class("staged:mint-sums-to-zero");
    }
    if m.mint.values().any(|q| *q != 0) {
        obs.class("staged:mint-nonzero");
    }
    if m.mint.values().any(|q| *q < 0) {
        obs.class("staged:burn");
    }
    if m.outputs.iter().any(|o| o.assets.values().any(|q| *q == 0)) {
        obs.class("staged:zero-quantity-output-asset");
    }
    if m.outputs.iter().any(|o| o.assets.values().any(|q| *q != 0)) {
        obs.class("staged:output-assets");
    }
    if m.outputs.iter().any(|o| matches!(o.datum, Some(MDatum::Inline(_)))) {
        obs.class("staged:inline-datum");
    }
    if m.outputs.iter().any(|o| matches!(o.datum, Some(MDatum::Hash(_)))) {
        obs.class("staged:datum-hash");
    }
    if m.outputs.iter().any(|o| o.script.is_some()) {
        obs.class("staged:script-ref");
    }
    if m.aux.is_some() {
        obs.class("staged:aux-data");
    }
    if !m.scripts.is_empty() {
        obs.class("staged:witness-scripts");
    }
    if !m.datums.is_empty() {
        obs.class("staged:witness-datums");
    }
    if m.lang_views.is_some() {
        obs.class("staged:language-views");
    }
    if m.coll_out.is_some() {
        obs.class("staged:collateral-return");
    }
    if m.effective_removals > 0 {
        obs.class("staged:effective-removal");
    }
}

/// pvkit's panic signature with the path made relative to the repository root wherever the
/// sources live (`/repo` or a scratch worktree), so one root cause has one signature.
pub fn stable_panic_sig(sig: &str) -> String {
    match (sig.strip_prefix("panic@"), sig.find("pallas-txbuilder/src/")) {
        (Some(_), Some(i)) => format!("panic@{}", &sig[i..]),
        _ => sig.to_string(),
    }
}

pub fn check_case(s: &Session, ops: &Vec<Op>, obs: &mut Obs) -> Result<(), Fail> {
    OUTPUT_SLIPS.with(|s| s.borrow_mut().clear());
    let (tx, mut m) = apply(ops);
    OUTPUT_SLIPS.with(|s| m.limit_slips.extend(s.borrow_mut().drain(..)));
    if let Some(slip) = m.limit_slips.first() {
        return Err(Fail { sig: "asset-name-limit-not-exact".into(), msg: format!("{slip}; the documented limit is 32 bytes (longer names are refused, names of up to 32 bytes accepted)") });
    }
    classify(&m, obs);
    let built = match pvkit::panics::guarded(move || tx.build_conway_raw()) {
        Err(p) => {
            obs.class("build:panic");
            // pvkit's panic signature carries no line number, so the two `try_from(0).unwrap()` sites
            // of conway.rs would share one signature; tell the root causes apart from the model
            // (build order: outputs, mint, collateral return).
            let zero_asset = |o: &MOut| o.assets.values().any(|q| *q == 0);
            let unwrap_zero = p.location.contains("pallas-txbuilder/src/conway.rs")
                && p.msg == "called `Result::unwrap()` on an `Err` value: 0";
            let sig = if unwrap_zero && m.outputs.iter().any(zero_asset) {
                "build-panic:PositiveCoin::try_from(0).unwrap() on a zero-quantity output asset".to_string()
            } else if unwrap_zero && m.mint.values().any(|q| *q == 0) {
                "build-panic:NonZeroInt::try_from(0).unwrap() on a mint entry that sums to zero".to_string()
            } else if unwrap_zero && m.coll_out.iter().any(zero_asset) {
                "build-panic:PositiveCoin::try_from(0).unwrap() on a zero-quantity output asset".to_string()
            } else {
                stable_panic_sig(&p.sig)
            };
            return Err(Fail { sig, msg: format!("build_conway_raw panicked at {}: {}", p.location, p.msg) });
        }
        Ok(Err(e)) => {
            obs.class(format!("build:err:{e:?}"));
            return Ok(());
        }
        Ok(Ok(b)) => b,
    };
    obs.class("build:ok");
    let fails = compare(&built, &m, obs);
    obs.nontrivial_if(m.categories() >= 2);
    first_unknown(s, fails)
}

/// Hand-written sequences for the expectations recorded in DESIGN (each must be reproduced by a
/// concrete input) plus plain well-formed transactions.
fn directed() -> Vec<Vec<Op>> {
    let out = |assets: Vec<(u8, u8, u64)>| OutSpec { addr: 0, lovelace: 2_000_000, assets, datum: None, script: None };
    let a = Pick::Pool(InP { h: 1, i: 1 }); // 00..00 #0   (smallest)
    let b = Pick::Pool(InP { h: 0, i: 0 }); // ff..ff #1   (largest)
    vec![
        // plain payment
        vec![Op::Input(a), Op::Output(out(vec![])), Op::Fee(170_000)],
        // mint that cancels to zero
        vec![Op::Mint { p: 0, n: 1, amount: 5 }, Op::Mint { p: 0, n: 1, amount: -5 }],
        // zero-quantity output asset
        vec![Op::Output(out(vec![(0, 1, 0)]))],
        // duplicate input before the redeemer's target
        vec![Op::Input(a), Op::Input(a), Op::Input(b), Op::SpendRedeemer { target: Pick::Pool(InP { h: 0, i: 0 }), data: 0, mem: 1, steps: 2 }],
        // two inputs staged in descending order, redeemer on the larger one; two policies
        vec![
            Op::Input(b), Op::Input(a),
            Op::SpendRedeemer { target: b, data: 3, mem: 10, steps: 20 },
            Op::Mint { p: 0, n: 2, amount: 7 }, Op::Mint { p: 1, n: 0, amount: -7 },
            Op::MintRedeemer { target: PolPick::Pool(0), data: 4, mem: 3, steps: 4 },
            Op::Output(out(vec![(0, 2, 7)])),
        ],
        // datum removed through its documented (Blake2b-256) hash
        vec![Op::Datum(2), Op::RemoveDatumByHash(2)],
    ]
}

pub fn run(s: &Session) {
    s.set_rule("sequences of 0..28 staging operations (inputs/reference/collateral add+remove with duplicates, outputs with \
        assets/datum hash/inline datum/script ref, collateral return, mint/burn incl. exact cancellation, remove_mint_asset, \
        spend/mint redeemers with Some(ex_units), witness scripts/datums add+remove, language views, signers, bounds, network id, \
        fee, auxiliary data incl. undecodable bytes) over pallas_txbuilder::StagingTransaction followed by build_conway_raw(). \
        Non-trivial = the build returned Ok, the bytes were compared with the model, and at least two of the twelve content \
        categories (inputs, outputs, mint, collateral, reference inputs, signers, bounds, network id, datums, scripts, aux data, \
        redeemers) were staged; distinct = distinct serialised operation sequence");
    s.assume("redeemers always carry Some(ex_units) (None is an explicit todo!()); remove_output(i) only with i < len; mint/asset \
        quantities bounded so that the accumulating i64/u64 additions cannot overflow; Shelley addresses of fixed length");
    s.assume("weaker readings: input-like collections are compared as sets; fee only when staged; zero-quantity mint/asset \
        entries count as absent; datum/script/aux-data equality is equality of CBOR data (encoding form ignored); redeemers may be \
        encoded as list or map; script_data_hash and auxiliary_data_hash are not asserted");
    s.foreach("directed", directed(), false, |c, o| check_case(s, c, o));
    s.forall("op-sequences", s.pick(400_000, 12_000_000), || ops(false, 28), |c, o| check_case(s, c, o));
    if !s.replaying() {
        for c in [
            "build:ok", "staged:duplicate-inputs", "staged:mint-nonzero", "staged:burn", "staged:output-assets",
            "staged:inline-datum", "staged:datum-hash", "staged:script-ref", "staged:aux-data", "staged:witness-scripts",
            "staged:witness-datums", "staged:language-views", "staged:collateral-return", "staged:effective-removal",
            "spend-redeemer-built:2+inputs", "mint-redeemer-built:2+policies",
        ] {
            s.health(s.class_count(c) > 0, &format!("generator never produced class {c}"));
        }
        let ok = s.class_count("build:ok");
        s.health(ok * 4 >= s.pick(400_000, 12_000_000), "fewer than a quarter of the generated sequences were accepted by the builder");
    }
}
