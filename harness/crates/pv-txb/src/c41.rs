//! C41 — signing keeps the witness set in step with the signature map (DESIGN §C41).
//!
//! A case is a recipe for a built transaction (C40's "safe" staging operations) and a sequence of
//! ≤12 sign / add_signature / remove_signature operations over a pool of 4 keys. After every
//! operation the transaction bytes are read back with cborx and checked against the statement:
//! body bytes and id unchanged, at most one vkey witness per public key, witnesses = keys of the
//! signature map, every witness a valid signature (ed25519-dalek, strict) of the transaction id.
use std::collections::{BTreeMap, BTreeSet};

use ed25519_dalek::hazmat::ExpandedSecretKey;
use ed25519_dalek::{Signature as DSig, SigningKey, VerifyingKey};
use pallas_crypto::key::ed25519::{PublicKey, SecretKey, SecretKeyExtended};
use pallas_txbuilder::{BuildConway, BuiltTransaction};
use proptest::prelude::*;
use pvkit::cborx::Kind;
use pvkit::{Fail, Obs, Session};
use serde::{Deserialize, Serialize};

use crate::c40;

#[derive(Debug, Clone, PartialEq, Serialize, Deserialize)]
pub enum SigOp {
    /// `sign(&key k)`
    Sign(u8),
    /// `add_signature(pk k, valid signature number v of key k)`
    Add { k: u8, v: u8 },
    /// `remove_signature(pk k)`
    Remove(u8),
}

#[derive(Debug, Clone, Serialize, Deserialize)]
pub struct Case {
    pub tx: Vec<c40::Op>,
    pub ops: Vec<SigOp>,
}

pub const N_KEYS: u8 = 4;
pub const N_VARIANTS: u8 = 3;

fn seed(k: u8) -> [u8; 32] {
    let mut s = [0u8; 32];
    for (i, b) in s.iter_mut().enumerate() {
        *b = (i as u8).wrapping_mul(7).wrapping_add(k.wrapping_mul(53)).wrapping_add(1);
    }
    s
}

/// Extended key bytes: clamped scalar ++ nonce prefix. The public key depends on the scalar only,
/// so different prefixes give different valid signatures of one message under one public key.
fn extended(k: u8, v: u8) -> [u8; 64] {
    let mut b = [0u8; 64];
    b[..32].copy_from_slice(&seed(k.wrapping_add(100)));
    b[0] &= 0b1111_1000;
    b[31] &= 0b0011_1111;
    b[31] |= 0b0100_0000;
    for x in b[32..].iter_mut() {
        *x = 0xa0 ^ v;
    }
    b
}

enum Key {
    Plain(SecretKey),
    Ext(SecretKeyExtended),
}

/// Keys 0,1: ordinary seeds; keys 2,3: extended keys (with `v` selecting the nonce prefix).
fn key(k: u8, v: u8) -> Key {
    let k = k % N_KEYS;
    if k < 2 {
        Key::Plain(SecretKey::from(seed(k)))
    } else {
        Key::Ext(SecretKeyExtended::from_bytes(extended(k, v % N_VARIANTS)).expect("clamped"))
    }
}

impl Key {
    fn public(&self) -> PublicKey {
        match self {
            Key::Plain(s) => s.public_key(),
            Key::Ext(s) => s.public_key(),
        }
    }
    fn sign(&self, msg: &[u8]) -> [u8; 64] {
        let s = match self {
            Key::Plain(s) => s.sign(msg),
            Key::Ext(s) => s.sign(msg),
        };
        s.as_ref().try_into().unwrap()
    }
}

fn pk_bytes(k: u8) -> [u8; 32] {
    key(k, 0).public().as_ref().try_into().unwrap()
}

/// The public keys according to ed25519-dalek (independent derivation).
fn dalek_pk(k: u8) -> [u8; 32] {
    let k = k % N_KEYS;
    if k < 2 {
        SigningKey::from_bytes(&seed(k)).verifying_key().to_bytes()
    } else {
        VerifyingKey::from(&ExpandedSecretKey::from_bytes(&extended(k, 0))).to_bytes()
    }
}

struct St {
    /// what the operations so far mean: public key -> the signature handed to `add_signature`
    /// (`None` after `sign`: any valid signature will do, Ed25519 signing need not be deterministic)
    model: BTreeMap<[u8; 32], Option<[u8; 64]>>,
    /// the signature this harness computed for the key's latest sign/add (classification only)
    latest: BTreeMap<[u8; 32], [u8; 64]>,
    /// keys that were signed again while already present (since their last removal)
    resigned: BTreeSet<[u8; 32]>,
}

fn push(fails: &mut Vec<Fail>, sig: &str, msg: String) {
    if !fails.iter().any(|f| f.sig == sig) {
        fails.push(Fail { sig: sig.to_string(), msg });
    }
}

fn check_state(
    step: usize,
    cur: &BuiltTransaction,
    st: &St,
    body0: &[u8],
    wits0_rest: &[u8],
    aux0: &[u8],
    id0: &[u8; 32],
    fails: &mut Vec<Fail>,
    obs: &mut Obs,
) {
    let bytes: &[u8] = cur.tx_bytes.as_ref();
    let parts = match c40::split_tx(bytes) {
        Ok(p) => p,
        Err(f) => {
            push(fails, &f.sig, format!("after op {step}: {}", f.msg));
            return;
        }
    };
    if &bytes[parts.body.s..parts.body.e] != body0 {
        push(fails, "body-bytes-changed", format!("after op {step}: body {} was {}", hex::encode(&bytes[parts.body.s..parts.body.e]), hex::encode(body0)));
    }
    if &cur.tx_hash.0 != id0 {
        push(fails, "tx-id-changed", format!("after op {step}: {} was {}", hex::encode(cur.tx_hash.0), hex::encode(id0)));
    }
    // not part of the statement, observed only
    {
        let mut w = parts.wits.clone();
        w.map_remove(0);
        if c40::norm_bytes(&w) != wits0_rest {
            obs.class("observation:other-witness-fields-changed");
        }
        if c40::norm_bytes(&parts.aux) != aux0 || parts.valid.k != Kind::Simple(21, false) {
            obs.class("observation:aux-data-or-validity-flag-changed");
        }
    }
    // signature map as the implementation reports it
    let sigmap: BTreeMap<[u8; 32], [u8; 64]> =
        cur.signatures.iter().flat_map(|m| m.iter()).map(|(k, v)| (k.0, v.0)).collect();
    let model_keys: Vec<&[u8; 32]> = st.model.keys().collect();
    let map_keys: Vec<&[u8; 32]> = sigmap.keys().collect();
    if model_keys != map_keys {
        push(fails, "signature-map-keys-differ-from-operations", format!(
            "after op {step}: map keys {:?}, operations leave {:?}",
            map_keys.iter().map(hex::encode).collect::<Vec<_>>(), model_keys.iter().map(hex::encode).collect::<Vec<_>>()));
    } else {
        for (k, want) in &st.model {
            if let Some(want) = want {
                if &sigmap[k] != want {
                    push(fails, "signature-map-value-differs-from-added-signature", format!("after op {step}: key {}", hex::encode(k)));
                }
            }
        }
    }
    for (k, sg) in &sigmap {
        let ok = VerifyingKey::from_bytes(k).map(|vk| vk.verify_strict(id0, &DSig::from_bytes(sg)).is_ok()).unwrap_or(false);
        if !ok {
            push(fails, "signature-map-signature-invalid", format!("after op {step}: the map's signature for {} does not verify against the transaction id", hex::encode(k)));
        }
    }
    // witnesses in the bytes
    let items: Vec<pvkit::cborx::Node> = match parts.wits.map_get(0) {
        None => vec![],
        Some(n) => {
            let inner = match &n.k {
                Kind::Tag(258, _, inner) => inner.as_array(),
                Kind::Array(v, _) => Some(v),
                _ => None,
            };
            match inner {
                Some(v) => v.clone(),
                None => {
                    push(fails, "vkey-witnesses-unreadable", format!("after op {step}: witness key 0 is {:?}", n.k));
                    return;
                }
            }
        }
    };
    let mut wit: Vec<([u8; 32], [u8; 64])> = vec![];
    for it in &items {
        let pair = it.as_array().filter(|a| a.len() == 2).and_then(|a| {
            let k: [u8; 32] = a[0].as_bytes()?.try_into().ok()?;
            let s: [u8; 64] = a[1].as_bytes()?.try_into().ok()?;
            Some((k, s))
        });
        match pair {
            Some(p) => wit.push(p),
            None => {
                push(fails, "vkey-witness-malformed", format!("after op {step}: {}", hex::encode(&bytes[it.s..it.e])));
                return;
            }
        }
    }
    let mut count: BTreeMap<[u8; 32], usize> = BTreeMap::new();
    for (k, _) in &wit {
        *count.entry(*k).or_insert(0) += 1;
    }
    for (k, n) in &count {
        if *n > 1 {
            if st.resigned.contains(k) {
                push(fails, "duplicate-vkey-witness-after-signing-again-with-the-same-key", format!(
                    "after op {step}: {n} witnesses for public key {} (the key was signed/added again while already present)", hex::encode(k)));
            } else {
                push(fails, "duplicate-vkey-witness", format!("after op {step}: {n} witnesses for public key {}", hex::encode(k)));
            }
        }
    }
    let wit_keys: Vec<&[u8; 32]> = count.keys().collect();
    if wit_keys != map_keys {
        push(fails, "witness-keys-differ-from-signature-map", format!(
            "after op {step}: witnesses for {:?}, signature map lists {:?}",
            wit_keys.iter().map(hex::encode).collect::<Vec<_>>(), map_keys.iter().map(hex::encode).collect::<Vec<_>>()));
    }
    for (k, s) in &wit {
        let ok = VerifyingKey::from_bytes(k).map(|vk| vk.verify_strict(id0, &DSig::from_bytes(s)).is_ok()).unwrap_or(false);
        if !ok {
            push(fails, "witness-signature-invalid", format!("after op {step}: witness of {} does not verify against the transaction id", hex::encode(k)));
        }
        if count[k] == 1 {
            if let Some(ms) = sigmap.get(k) {
                if ms != s {
                    push(fails, "witness-signature-differs-from-signature-map", format!("after op {step}: key {}", hex::encode(k)));
                }
            }
        }
    }
}

pub fn check_case(s: &Session, case: &Case, obs: &mut Obs) -> Result<(), Fail> {
    let (stx, m) = c40::apply(&case.tx);
    let built = match pvkit::panics::guarded(move || stx.build_conway_raw()) {
        Ok(Ok(b)) => b,
        _ => {
            // not a built transaction: outside this property's domain (C40 judges the builder)
            obs.discard();
            return Ok(());
        }
    };
    let bytes0: Vec<u8> = built.tx_bytes.as_ref().to_vec();
    let Ok(parts0) = c40::split_tx(&bytes0) else {
        obs.discard();
        return Ok(());
    };
    let body0 = bytes0[parts0.body.s..parts0.body.e].to_vec();
    let id0 = pvkit::blake2b::b256(&body0);
    if built.tx_hash.0 != id0 {
        obs.discard(); // C40's business
        return Ok(());
    }
    let wits0_rest = {
        let mut w = parts0.wits.clone();
        w.map_remove(0);
        c40::norm_bytes(&w)
    };
    let aux0 = c40::norm_bytes(&parts0.aux);
    if !m.scripts.is_empty() || !m.datums.is_empty() || !m.redeemers.is_empty() {
        obs.class("tx:other-witness-fields");
    }
    if m.aux.is_some() {
        obs.class("tx:aux-data");
    }

    let mut fails: Vec<Fail> = vec![];
    let mut st = St { model: BTreeMap::new(), latest: BTreeMap::new(), resigned: BTreeSet::new() };
    let mut cur = built;
    let mut interesting = false;
    let mut executed = 0usize;
    for (step, op) in case.ops.iter().enumerate() {
        let prev = cur.clone();
        let (pk, new_sig): ([u8; 32], Option<[u8; 64]>) = match op {
            SigOp::Sign(k) => (pk_bytes(*k), Some(key(*k, 0).sign(&id0))),
            SigOp::Add { k, v } => (pk_bytes(*k), Some(key(*k, *v).sign(&id0))),
            SigOp::Remove(k) => (pk_bytes(*k), None),
        };
        // classification
        match (op, st.model.contains_key(&pk)) {
            (SigOp::Remove(_), true) => {
                interesting = true;
                obs.class(if st.model.len() == 1 { "remove:last" } else { "remove:present-not-last" });
            }
            (SigOp::Remove(_), false) => {
                interesting = true;
                obs.class(if st.model.is_empty() { "remove:absent-from-empty" } else { "remove:absent" });
            }
            (_, true) => {
                interesting = true;
                if st.latest.get(&pk) != new_sig.as_ref() {
                    obs.class("resign:present-key-different-signature");
                } else {
                    obs.class("resign:present-key-same-signature");
                }
            }
            (_, false) => obs.class("sign:new-key"),
        }
        let r = pvkit::panics::guarded(move || match op {
            SigOp::Sign(k) => match key(*k, 0) {
                Key::Plain(sk) => cur.sign(&sk),
                Key::Ext(sk) => cur.sign(&sk),
            },
            SigOp::Add { k, .. } => cur.add_signature(PublicKey::from(pk_bytes(*k)), new_sig.unwrap()),
            SigOp::Remove(k) => cur.remove_signature(PublicKey::from(pk_bytes(*k))),
        });
        match r {
            Err(p) => {
                push(&mut fails, &c40::stable_panic_sig(&p.sig), format!("op {step} ({op:?}) panicked at {}: {}", p.location, p.msg));
                obs.class("op:panic");
                cur = prev; // the operation did not happen
                continue;
            }
            Ok(Err(e)) => {
                obs.class(format!("op:err:{e:?}"));
                cur = prev;
                continue;
            }
            Ok(Ok(n)) => cur = n,
        }
        executed += 1;
        match new_sig {
            Some(sig) => {
                let want = if matches!(op, SigOp::Add { .. }) { Some(sig) } else { None };
                if st.model.insert(pk, want).is_some() {
                    st.resigned.insert(pk);
                }
                st.latest.insert(pk, sig);
            }
            None => {
                st.model.remove(&pk);
                st.latest.remove(&pk);
                st.resigned.remove(&pk);
            }
        }
        check_state(step, &cur, &st, &body0, &wits0_rest, &aux0, &id0, &mut fails, obs);
    }
    obs.nontrivial_if(interesting && executed >= 2);
    c40::first_unknown(s, fails)
}

fn sigop() -> impl Strategy<Value = SigOp> {
    prop_oneof![
        4 => (0u8..N_KEYS).prop_map(SigOp::Sign),
        3 => (0u8..N_KEYS, 0u8..N_VARIANTS).prop_map(|(k, v)| SigOp::Add { k, v }),
        3 => (0u8..N_KEYS).prop_map(SigOp::Remove),
    ]
}

pub fn case() -> impl Strategy<Value = Case> {
    (c40::ops(true, 10), prop::collection::vec(sigop(), 0..=12)).prop_map(|(tx, ops)| Case { tx, ops })
}

fn directed() -> Vec<Case> {
    use c40::{InP, Op, OutSpec, Pick};
    let tx = vec![
        Op::Input(Pick::Pool(InP { h: 1, i: 1 })),
        Op::Output(OutSpec { addr: 0, lovelace: 1_000_000, assets: vec![], datum: None, script: None }),
        Op::Fee(170_000),
    ];
    let c = |ops: Vec<SigOp>| Case { tx: tx.clone(), ops };
    vec![
        c(vec![SigOp::Sign(0), SigOp::Sign(1), SigOp::Remove(0)]),
        c(vec![SigOp::Sign(0), SigOp::Sign(0)]),
        c(vec![SigOp::Sign(2), SigOp::Add { k: 2, v: 1 }]),
        c(vec![SigOp::Sign(0), SigOp::Remove(0)]),
        c(vec![SigOp::Remove(3)]),
        c(vec![SigOp::Sign(1), SigOp::Remove(3), SigOp::Add { k: 3, v: 2 }, SigOp::Remove(1)]),
    ]
}

pub fn run(s: &Session) {
    s.set_rule("a transaction built from 0..10 C40 staging operations (restricted to values the builder accepts) followed by 0..=12 \
        operations sign(k) / add_signature(pk_k, valid signature variant v) / remove_signature(pk_k) over 4 keys (2 seed keys, 2 \
        extended keys with 3 nonce prefixes each, so that a replacement can carry a different valid signature). Non-trivial = at \
        least two operations executed and at least one of them re-signs a key that is present or removes a key (present, last or \
        absent); distinct = distinct serialised case");
    s.assume("add_signature is only given signatures that verify; pallas-crypto's key types are trusted to produce them (their \
        public keys are cross-checked against ed25519-dalek at start, their signatures by dalek's strict verification)");
    s.assume("an operation that returns Err is treated as not performed (the statement is silent); the run is inconclusive if that ever happens");
    // the two key derivations agree (sanity of the harness' own key pool)
    for k in 0..N_KEYS {
        s.health(pk_bytes(k) == dalek_pk(k), &format!("pallas-crypto and ed25519-dalek disagree on public key {k}"));
    }
    s.foreach("directed", directed(), false, |c, o| check_case(s, c, o));
    let n = s.pick(32_000, 1_000_000);
    s.forall("sign-sequences", n, case, |c, o| check_case(s, c, o));
    if !s.replaying() {
        for c in [
            "sign:new-key", "resign:present-key-same-signature", "resign:present-key-different-signature", "remove:last",
            "remove:present-not-last", "remove:absent-from-empty", "remove:absent", "tx:other-witness-fields", "tx:aux-data",
        ] {
            s.health(s.class_count(c) > 0, &format!("generator never produced class {c}"));
        }
        let errs: u64 = ["CorruptedTxBytes", "MalformedKey", "UnsupportedEra"].iter().map(|e| s.class_count(&format!("op:err:{e}"))).sum();
        s.health(errs == 0, "a signing operation returned Err on a freshly built Conway transaction");
    }
}
