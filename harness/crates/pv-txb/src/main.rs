mod c40;
mod c41;

use pvkit::session::CheckDef;

fn main() {
    pvkit::main(&[
        CheckDef { id: "C40", level: "exploration", run: c40::run },
        CheckDef { id: "C41", level: "exploration", run: c41::run },
    ]);
}
