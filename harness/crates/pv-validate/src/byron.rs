//! Byron-era TxForge: self-signed Byron transactions (pubkey and redeem witnesses) with their UTxO.
use crate::forge::key;
use ed25519_dalek::Signer;
use pallas_addresses::byron::{AddrAttrs, AddrType, AddressPayload, ByronAddress, SpendingData};
use pallas_codec::minicbor;
use pallas_primitives::byron::{TxIn, TxOut};
use pallas_traverse::{MultiEraInput, MultiEraOutput, MultiEraTx};
use pallas_validate::phase1::validate_tx;
use pallas_validate::utils::{ByronProtParams, CertState, Environment, MultiEraProtocolParameters, UTxOs};
use pvkit::blake2b::b256;
use pvkit::cborx::{self as cx, Node};
use serde::{Deserialize, Serialize};
use std::borrow::Cow;

pub const MAGIC: u32 = 764824073;
pub const SUMMAND: u64 = 155_381;
pub const MULTIPLIER: u64 = 44;

#[derive(Debug, Clone, Serialize, Deserialize)]
pub struct BIn {
    pub key: u8,
    pub amount: u64,
    /// 0 = public-key address, 1 = redeem address, 2 = script-type address, 3 = unknown address type
    pub kind: u8,
    pub txid: u8,
    pub idx: u8,
}

#[derive(Debug, Clone, Serialize, Deserialize)]
pub struct BSpec {
    pub inputs: Vec<BIn>,
    /// (key, amount); the last output is the change and gets what is left after the fee
    pub outputs: Vec<(u8, u64)>,
    /// lovelace relative to summand + multiplier * size that the transaction pays (negative = underpays)
    pub fee_delta: i64,
    /// add this to the change after balancing (positive = outputs exceed what the inputs allow)
    pub change_delta: i64,
    /// witness edits: 0 none, 1 drop first, 2 truncated key, 3 truncated signature, 4 wrong witness tag
    pub witness_edit: u8,
}

fn xpub(k: u8) -> Vec<u8> {
    let mut v = key(k).pk.to_vec();
    v.extend([k.wrapping_mul(3); 32]); // chain code
    v
}

fn address(k: u8, kind: u8) -> ByronAddress {
    let (t, sd) = match kind % 4 {
        0 => (AddrType::PubKey, SpendingData::PubKey(xpub(k).into())),
        1 => (AddrType::Redeem, SpendingData::Redeem(key(k).pk.to_vec().into())),
        2 => (AddrType::Script, SpendingData::Script(vec![k; 32].into())),
        _ => (AddrType::Other(7), SpendingData::PubKey(xpub(k).into())),
    };
    ByronAddress::from_decoded(AddressPayload::new(t, sd, AddrAttrs::from(vec![])))
}

fn addr_node(a: &ByronAddress) -> Node {
    cx::read(&a.to_vec()).expect("byron address is cbor")
}

pub struct BForged {
    /// [tx, [witnesses]]
    pub payload: Vec<u8>,
    pub tx: Vec<u8>,
    pub utxos: Vec<(Vec<u8>, u32, Vec<u8>, u64, u8)>, // txid, idx, txout bytes, amount, kind
    pub sum_in: u128,
    pub sum_out: u128,
    pub all_redeem: bool,
    pub size_tx_and_wits: u64,
}

pub fn forge(s: &BSpec) -> Result<BForged, String> {
    if s.inputs.is_empty() || s.outputs.is_empty() {
        return Err("need inputs and outputs".into());
    }
    let mut refs: Vec<(Vec<u8>, u32)> = vec![];
    let mut utxos = vec![];
    let mut sum_in: u128 = 0;
    for (n, i) in s.inputs.iter().enumerate() {
        let mut t = vec![i.txid; 32];
        t[0] = 0xb0 ^ i.txid;
        let ix = i.idx as u32 + n as u32 * 5;
        let out = cx::array(vec![addr_node(&address(i.key, i.kind)), cx::uint(i.amount)]);
        utxos.push((t.clone(), ix, cx::write(&out), i.amount, i.kind % 4));
        refs.push((t, ix));
        sum_in += i.amount as u128;
    }
    let all_redeem = s.inputs.iter().all(|i| i.kind % 4 == 1);
    let build_tx = |change: u64| -> Vec<u8> {
        let ins: Vec<Node> = refs.iter().map(|(t, ix)| cx::array(vec![cx::uint(0), cx::tag(24, cx::bytes(&cx::write(&cx::array(vec![cx::bytes(t), cx::uint(*ix as u64)]))))])).collect();
        let n = s.outputs.len();
        let outs: Vec<Node> = s
            .outputs
            .iter()
            .enumerate()
            .map(|(j, (k, a))| {
                let amount = if j + 1 == n { cx::node(cx::Kind::UInt(change, cx::W::B8)) } else { cx::uint(*a) };
                cx::array(vec![addr_node(&address(*k, 0)), amount])
            })
            .collect();
        cx::write(&cx::array(vec![cx::array_indef(ins), cx::array_indef(outs), cx::map(vec![])]))
    };
    let build_wits = |tx: &[u8]| -> Vec<u8> {
        let id = b256(tx);
        let mut ws = vec![];
        for (n, i) in s.inputs.iter().enumerate() {
            let redeem = i.kind % 4 == 1;
            let mut data = vec![if redeem { 0x02 } else { 0x01 }, 0x1a];
            data.extend(MAGIC.to_be_bytes());
            data.extend([0x58, 0x20]);
            data.extend(id);
            let kk = key(i.key);
            let mut sig = kk.sk.sign(&data).to_bytes().to_vec();
            let mut pk = if redeem { kk.pk.to_vec() } else { xpub(i.key) };
            let mut tag = if redeem { 2 } else { 0 };
            if n == 0 {
                match s.witness_edit {
                    1 => continue,
                    2 => pk.truncate(20),
                    3 => sig.truncate(40),
                    4 => tag = 2 - tag,
                    5 => sig.push(0x00),
                    6 => sig.extend([0x5a; 64]),
                    7 => pk.extend([0x00; 3]),
                    8 => sig.clear(),
                    _ => {}
                }
            }
            ws.push(cx::array(vec![cx::uint(tag), cx::tag(24, cx::bytes(&cx::write(&cx::array(vec![cx::bytes(&pk), cx::bytes(&sig)]))))]));
        }
        cx::write(&cx::array(ws))
    };
    let probe_tx = build_tx(0);
    let probe_w = build_wits(&probe_tx);
    let size = (probe_tx.len() + probe_w.len()) as u64;
    let fee = (SUMMAND as i128 + (MULTIPLIER * (size + 2)) as i128 + s.fee_delta as i128).max(0) as u128;
    let fixed: u128 = s.outputs[..s.outputs.len() - 1].iter().map(|o| o.1 as u128).sum();
    if sum_in < fixed + fee + 1 && s.change_delta <= 0 {
        return Err("inputs too small".into());
    }
    let change = (sum_in as i128 - fixed as i128 - fee as i128 + s.change_delta as i128).clamp(1, u64::MAX as i128) as u64;
    let tx = build_tx(change);
    let w = build_wits(&tx);
    let mut payload = vec![0x82];
    payload.extend(&tx);
    payload.extend(&w);
    Ok(BForged { payload, tx, utxos, sum_in, sum_out: fixed + change as u128, all_redeem, size_tx_and_wits: size })
}

pub fn env() -> Environment {
    Environment {
        prot_params: MultiEraProtocolParameters::Byron(ByronProtParams {
            block_version: (1, 0, 0),
            start_time: 1506203091,
            script_version: 0,
            slot_duration: 20000,
            max_block_size: 2000000,
            max_header_size: 2000000,
            max_tx_size: 4096,
            max_proposal_size: 700,
            mpc_thd: 20000000000000,
            heavy_del_thd: 300000000000,
            update_vote_thd: 1000000000000,
            update_proposal_thd: 100000000000000,
            update_implicit: 10000,
            soft_fork_rule: (900000000000000, 600000000000000, 50000000000000),
            summand: SUMMAND,
            multiplier: MULTIPLIER,
            unlock_stake_epoch: u64::MAX,
        }),
        prot_magic: MAGIC,
        block_slot: 6341,
        network_id: 1,
        acnt: None,
    }
}

/// Some(true) accepted, Some(false) rejected, None = payload or utxo does not decode
pub fn validate(f: &BForged) -> Option<Result<(), String>> {
    let mtxp: pallas_primitives::byron::TxPayload = minicbor::decode(&f.payload).ok()?;
    let metx = MultiEraTx::from_byron(&mtxp);
    let mut outs: Vec<(TxIn, TxOut)> = vec![];
    for (t, ix, ob, _, _) in &f.utxos {
        let o: TxOut = minicbor::decode(ob).ok()?;
        let h: [u8; 32] = t.clone().try_into().ok()?;
        outs.push((TxIn::Variant0(pallas_codec::utils::CborWrap((h.into(), *ix))), o));
    }
    let mut um: UTxOs = UTxOs::new();
    for (i, o) in outs.iter() {
        um.insert(MultiEraInput::Byron(Box::new(Cow::Borrowed(i))), MultiEraOutput::Byron(Box::new(Cow::Borrowed(o))));
    }
    let e = env();
    let mut cs = CertState::default();
    Some(validate_tx(&metx, 0, &e, &um, &mut cs).map_err(|e| format!("{e:?}")))
}
