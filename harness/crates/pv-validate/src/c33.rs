//! C33 — phase-1 validation is total (DESIGN §C33).
use crate::forge::{self, EraK, Spec, Tweaks};
use crate::{gen, pp, run};
use proptest::prelude::*;
use pvkit::cborx::{self as cx, Kind, Len, Node, Str, W};
use pvkit::{Fail, Obs, Session};
use serde::{Deserialize, Serialize};

/// A value/shape mutation of one node of a CBOR tree that keeps the encoding well-formed.
#[derive(Debug, Clone, Serialize, Deserialize)]
pub struct ShapeOp {
    sel: u16,
    kind: u8,
    arg: u64,
}

fn shape_op() -> impl Strategy<Value = ShapeOp> {
    (any::<u16>(), any::<u8>(), prop_oneof![any::<u64>(), 0u64..8, Just(u64::MAX), Just(1u64 << 63), Just((1u64 << 63) - 1)]).prop_map(|(sel, kind, arg)| ShapeOp { sel, kind, arg })
}

const BOUNDARY: [u64; 10] = [0, 1, 2, 23, 24, u32::MAX as u64, (1 << 63) - 1, 1 << 63, u64::MAX - 1, u64::MAX];
const LENS: [usize; 9] = [0, 1, 27, 28, 29, 31, 32, 33, 64];

pub fn shape_mutate(root: &mut Node, op: &ShapeOp) -> &'static str {
    let total = root.count();
    let start = pvkit::pick_idx(op.sel, total);
    let fam = op.kind % 9;
    for off in 0..total {
        let idx = (start + off) % total;
        let Some(n) = root.nth_mut(idx) else { continue };
        let done = match (fam, &mut n.k) {
            (0, Kind::UInt(v, w)) => {
                *v = BOUNDARY[(op.arg as usize) % BOUNDARY.len()];
                *w = W::min_for(*v);
                Some("int-boundary")
            }
            (1, Kind::UInt(v, w)) => {
                *v = op.arg;
                *w = W::min_for(*v);
                Some("int-any")
            }
            (2, Kind::UInt(v, _)) => {
                let nv = *v;
                n.k = Kind::NInt(nv, W::min_for(nv));
                Some("int-negated")
            }
            (3, Kind::Bytes(Str::Def(w, d))) => {
                let l = LENS[(op.arg as usize) % LENS.len()];
                d.resize(l, (op.arg >> 8) as u8);
                *w = W::min_for(l as u64);
                Some("bytes-resized")
            }
            (4, Kind::Array(items, len)) => {
                match op.arg % 3 {
                    0 => items.clear(),
                    1 => {
                        if let Some(f) = items.first().cloned() {
                            items.push(f)
                        }
                    }
                    _ => {
                        items.pop();
                    }
                }
                if let Len::Def(w) = len {
                    *w = W::min_for(items.len() as u64);
                }
                Some("array-resized")
            }
            (5, Kind::Map(items, len)) => {
                match op.arg % 3 {
                    0 => items.clear(),
                    1 => {
                        if let Some(f) = items.first().cloned() {
                            items.push(f)
                        }
                    }
                    _ => {
                        items.pop();
                    }
                }
                if let Len::Def(w) = len {
                    *w = W::min_for(items.len() as u64);
                }
                Some("map-resized")
            }
            (6, Kind::Map(items, len)) => {
                // add a field the recipe did not have
                let key = (op.arg % 23) as u64;
                if !items.iter().any(|(k, _)| k.as_u64() == Some(key)) {
                    let val = match (op.arg >> 8) % 4 {
                        0 => cx::uint(op.arg >> 16),
                        1 => cx::array(vec![]),
                        2 => cx::map(vec![]),
                        _ => cx::bytes(&[0u8; 28]),
                    };
                    items.push((cx::uint(key), val));
                    if let Len::Def(w) = len {
                        *w = W::min_for(items.len() as u64);
                    }
                    Some("field-added")
                } else {
                    None
                }
            }
            (7, _) => {
                *n = match op.arg % 5 {
                    0 => cx::null(),
                    1 => cx::uint(op.arg >> 8),
                    2 => cx::array(vec![]),
                    3 => cx::map(vec![]),
                    _ => cx::bytes(&[]),
                };
                Some("node-replaced")
            }
            (8, Kind::Tag(t, w, _)) => {
                *t = op.arg % 300;
                *w = W::min_for(*t);
                Some("tag-changed")
            }
            _ => None,
        };
        if let Some(d) = done {
            return d;
        }
    }
    "none"
}

#[derive(Debug, Clone, Serialize, Deserialize)]
pub struct Case {
    spec: Spec,
    tw: Tweaks,
    /// mutations of the transaction (not re-signed)
    tx_ops: Vec<ShapeOp>,
    /// mutations of UTxO entries: (which entry, op)
    utxo_ops: Vec<(u16, ShapeOp)>,
    /// replace a UTxO entry by an output of another kind
    utxo_kind: Option<(u16, u8)>,
    drop_utxo: Option<u16>,
    extreme_pp: u8,
}

/// A native script of any shape: signatures by known and unknown keys, all / any / n-of-k with n at and beyond the
/// ends of 0..=k (0, k, k+1, 2^32-1), time locks, nested up to 3 deep.
fn native_script() -> impl Strategy<Value = Vec<u8>> {
    let leaf = prop_oneof![
        (0u8..8).prop_map(|k| cx::array(vec![cx::uint(0), cx::bytes(&forge::key(k).hash)])),
        any::<u8>().prop_map(|b| cx::array(vec![cx::uint(0), cx::bytes(&[b; 28])])),
        prop_oneof![Just(0u64), Just(u64::MAX), any::<u64>()].prop_map(|s| cx::array(vec![cx::uint(4), cx::uint(s)])),
        prop_oneof![Just(0u64), Just(u64::MAX), any::<u64>()].prop_map(|s| cx::array(vec![cx::uint(5), cx::uint(s)])),
    ];
    leaf.prop_recursive(3, 12, 4, |inner| {
        prop_oneof![
            prop::collection::vec(inner.clone(), 0..4).prop_map(|v| cx::array(vec![cx::uint(1), cx::array(v)])),
            prop::collection::vec(inner.clone(), 0..4).prop_map(|v| cx::array(vec![cx::uint(2), cx::array(v)])),
            (prop::collection::vec(inner, 0..4), 0u8..5).prop_map(|(v, sel)| {
                let k = v.len() as u64;
                let n = [0u64, k, k + 1, 1, u32::MAX as u64][sel as usize % 5];
                cx::array(vec![cx::uint(3), cx::uint(n), cx::array(v)])
            }),
        ]
    })
    .prop_map(|n| cx::write(&n))
}

fn tweaks() -> impl Strategy<Value = Tweaks> {
    prop_oneof![
        3 => prop::collection::vec(native_script(), 1..3).prop_map(|v| Tweaks { extra_native_scripts: v, ..Default::default() }),
        4 => Just(Tweaks::default()),
        2 => prop_oneof![Just(u64::MAX), Just(u64::MAX / 100), Just(1u64 << 63), Just(0u64), any::<u64>()].prop_map(|f| Tweaks { fee_override: Some(f), ..Default::default() }),
        1 => (0u8..3, 0u8..6, prop_oneof![Just(u64::MAX), Just(1u64 << 63), Just((1u64 << 63) - 1)]).prop_map(|(p, n, q)| Tweaks { phantom_assets: vec![(p, n, q)], ..Default::default() }),
        1 => (0u8..3, 0u8..6, prop_oneof![Just(i64::MIN), Just(i64::MAX), Just(-1i64)]).prop_map(|(p, n, q)| Tweaks { unbalanced_mint: vec![(p, n, q)], ..Default::default() }),
        1 => any::<i64>().prop_map(|d| Tweaks { change_delta: d, ..Default::default() }),
        // degenerate but balanced shapes
        1 => Just(Tweaks { no_outputs: true, ..Default::default() }),
        1 => Just(Tweaks { zero_coin_output: true, ..Default::default() }),
        2 => prop_oneof![Just(0u64), Just(1), Just(u64::MAX), any::<u64>()].prop_map(|q| Tweaks { collateral_return_asset: Some(q), ..Default::default() }),
    ]
}

fn other_output(kind: u8, era: EraK) -> Vec<u8> {
    // outputs a spent input may legitimately resolve to in a real UTxO set
    let byron_addr = hex::decode("82d818582183581c0577c7aca3f009a4992c7248aa6eef818c2d1b73d555e0acf57527fca0001a2839cf67").unwrap();
    let n = match kind % 6 {
        0 => cx::array(vec![cx::bytes(&byron_addr), cx::uint(5_000_000)]), // legacy output at a Byron address
        1 => cx::array(vec![cx::bytes(&forge::script_addr(&[9u8; 28])), cx::uint(5_000_000)]),
        2 => cx::array(vec![cx::bytes(&forge::key_addr(1)), cx::array(vec![cx::uint(u64::MAX), cx::map(vec![(cx::bytes(&[1u8; 28]), cx::map(vec![(cx::bytes(b"z"), cx::uint(u64::MAX))]))])])]),
        3 => cx::array(vec![cx::bytes(&[0x01, 0x02]), cx::uint(1)]), // undecodable address
        4 => cx::array(vec![cx::bytes(&forge::key_addr(1)), cx::array(vec![cx::uint(0), cx::map(vec![(cx::bytes(&[1u8; 28]), cx::map(vec![(cx::bytes(b"z"), cx::uint(0))]))])])]),
        _ => {
            if era.babbage_plus() {
                cx::map(vec![(cx::uint(0), cx::bytes(&forge::key_addr(2))), (cx::uint(1), cx::uint(3_000_000)), (cx::uint(2), cx::array(vec![cx::uint(1), cx::tag(24, cx::bytes(&[0x01]))]))])
            } else {
                cx::array(vec![cx::bytes(&forge::key_addr(2)), cx::uint(3_000_000), cx::bytes(&[7u8; 32])])
            }
        }
    };
    cx::write(&n)
}

fn check(c: &Case, obs: &mut Obs) -> Result<(), Fail> {
    let era = c.spec.era;
    let mut f = match forge::forge_with(&c.spec, &c.tw) {
        Ok(f) => f,
        Err(_) => {
            obs.discard();
            return Ok(());
        }
    };
    let mut tx = f.tx.clone();
    if !c.tx_ops.is_empty() {
        if let Ok(mut root) = cx::read(&tx) {
            for op in &c.tx_ops {
                obs.class(format!("tx:{}", shape_mutate(&mut root, op)));
            }
            tx = cx::write(&root);
        }
    }
    for (sel, op) in &c.utxo_ops {
        if f.utxos.is_empty() {
            break;
        }
        let i = pvkit::pick_idx(*sel, f.utxos.len());
        if let Ok(mut root) = cx::read(&f.utxos[i].output) {
            obs.class(format!("utxo:{}", shape_mutate(&mut root, op)));
            f.utxos[i].output = cx::write(&root);
        }
    }
    if let Some((sel, kind)) = c.utxo_kind {
        if !f.utxos.is_empty() {
            let i = pvkit::pick_idx(sel, f.utxos.len());
            f.utxos[i].output = other_output(kind, era);
            obs.class(format!("utxo-kind:{}", kind % 6));
        }
    }
    if let Some(sel) = c.drop_utxo {
        if !f.utxos.is_empty() {
            let i = pvkit::pick_idx(sel, f.utxos.len());
            f.utxos.remove(i);
            obs.class("utxo-dropped");
        }
    }
    let t = match c.extreme_pp % 6 {
        0 | 1 | 2 => pp::PpTweak::default(),
        3 => pp::PpTweak { max_tx_size: Some(0), max_mem: Some(0), max_steps: Some(0), max_value_size: Some(0), max_collateral_inputs: Some(0), ..Default::default() },
        4 => pp::PpTweak { block_slot: Some(0), network_id: Some(0), ..Default::default() },
        _ => pp::PpTweak { drop_cost_model: Some(1), block_slot: Some(u64::MAX), ..Default::default() },
    };
    let env = pp::env(era, &t);
    // the call must return; a panic is caught by the runner and reported with its root-cause signature
    let r = run::validate(era, &tx, &f.utxos, &env);
    if !c.tw.extra_native_scripts.is_empty() && !matches!(r, run::Outcome::Undecodable(_)) {
        obs.class(format!("{}:extra-native-scripts", era.name()));
    }
    if let (Some(q), Some(p), false) = (c.tw.collateral_return_asset, c.spec.plutus.as_ref(), matches!(r, run::Outcome::Undecodable(_))) {
        if era.babbage_plus() && p.collateral_return {
            obs.class(format!("{}:collateral-return-with-{}-asset:{}", era.name(), if q == 0 { "zero" } else { "an" }, if c.spec.legacy_outputs { "legacy-layout" } else { "map-layout" }));
        }
    }
    match r {
        run::Outcome::Undecodable(_) => {
            obs.class("undecodable");
            obs.discard();
        }
        run::Outcome::Accepted => {
            obs.class(format!("{}:accepted", era.name()));
            obs.nontrivial();
        }
        run::Outcome::Rejected(_) => {
            obs.class(format!("{}:rejected", era.name()));
            obs.nontrivial();
        }
    }
    Ok(())
}

pub fn byron_spec() -> impl Strategy<Value = crate::byron::BSpec> {
    use crate::byron::{BIn, BSpec};
    let amount = || prop_oneof![6 => 1_000_000u64..50_000_000_000, 1 => Just(u64::MAX), 1 => Just(u64::MAX / 2 + 1), 1 => 0u64..3];
    (
        prop::collection::vec((0u8..4, amount(), prop_oneof![6 => Just(0u8), 2 => Just(1u8), 1 => Just(2u8), 1 => Just(3u8)], 0u8..5, 0u8..3), 1..4),
        prop::collection::vec((0u8..4, prop_oneof![5 => 1_000_000u64..3_000_000, 1 => Just(0u64), 1 => Just(u64::MAX)]), 1..4),
        // fee = summand + multiplier * (size + 2) + delta: the validator's own boundary is at delta = -2 * multiplier = -88
        prop_oneof![3 => 0i64..100_000, 3 => -92i64..-84, 2 => -200_000i64..0, 1 => any::<i64>()],
        prop_oneof![5 => Just(0i64), 1 => 1i64..1_000_000, 1 => Just(i64::MAX)],
        prop_oneof![5 => Just(0u8), 2 => 1u8..9],
    )
        .prop_map(|(ins, outputs, fee_delta, change_delta, witness_edit)| BSpec {
            inputs: ins.into_iter().map(|(key, amount, kind, txid, idx)| BIn { key, amount, kind, txid, idx }).collect(),
            outputs,
            fee_delta,
            change_delta,
            witness_edit,
        })
}

pub fn run(s: &Session) {
    s.set_rule("TxForge transactions of every post-Byron era under well-formedness-preserving value/shape mutations of the \
        transaction (integers -> boundary values and negatives, byte strings -> other lengths, arrays/maps emptied / duplicated / \
        shortened, extra fields, nodes replaced, tags changed), re-signed extreme edits (fee up to 2^64-1, asset quantities at \
        2^63 / 2^64-1, mint at i64::MIN/MAX, change moved by any i64), mutated / replaced / missing UTxO entries (Byron address, \
        script address, undecodable address, zero and maximal quantities, inline datum) and the well-known parameter set with \
        optional degenerate limits. Oracle: validate_tx returns. Non-trivial = transaction and UTxO set decoded and a verdict was \
        returned; distinct = distinct case");
    s.assume("built with overflow-checks and debug-assertions on (the profile the project's own tests run in), so arithmetic overflow is a panic");
    s.forall(
        "mutated-forged-transactions",
        s.pick(200_000, 5_000_000),
        || {
            (
                gen::spec_early(),
                tweaks(),
                prop::collection::vec(shape_op(), 0..4),
                prop::collection::vec((any::<u16>(), shape_op()), 0..2),
                prop::option::weighted(0.25, (any::<u16>(), any::<u8>())),
                prop::option::weighted(0.1, any::<u16>()),
                any::<u8>(),
            )
                .prop_map(|(mut spec, tw, tx_ops, utxo_ops, utxo_kind, drop_utxo, extreme_pp)| {
                    // the collateral-return tweak needs a collateral return to act on (legacy layout in two cases of three:
                    // that is the layout in which a zero quantity decodes)
                    if let (Some(q), Some(p)) = (tw.collateral_return_asset, spec.plutus.as_mut()) {
                        p.collateral_return = true;
                        spec.legacy_outputs = q % 3 != 1;
                    }
                    Case { spec, tw, tx_ops, utxo_ops, utxo_kind, drop_utxo, extreme_pp }
                })
        },
        check,
    );
    s.forall(
        "byron-transactions",
        s.pick(100_000, 2_000_000),
        byron_spec,
        |b, obs| {
            let f = match crate::byron::forge(b) {
                Ok(f) => f,
                Err(_) => {
                    obs.discard();
                    return Ok(());
                }
            };
            match crate::byron::validate(&f) {
                None => {
                    obs.class("byron:undecodable");
                    obs.discard();
                }
                Some(Ok(())) => {
                    obs.class("byron:accepted");
                    obs.nontrivial();
                }
                Some(Err(_)) => {
                    obs.class("byron:rejected");
                    obs.nontrivial();
                }
            }
            Ok(())
        },
    );
    if !s.replaying() {
        s.health(s.class_count("byron:accepted") > 0 && s.class_count("byron:rejected") > 0, "byron lacks accepted or rejected cases");
        for e in forge::EraK::all() {
            s.health(s.class_count(&format!("{}:rejected", e.name())) > 0 && s.class_count(&format!("{}:accepted", e.name())) > 0, &format!("era {} lacks accepted or rejected cases", e.name()));
        }
    }
}
