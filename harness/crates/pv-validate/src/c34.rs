//! C34 — accepted transactions conserve value exactly (DESIGN §C34).
use crate::forge::{self, Spec, Tweaks};
use crate::view::{self, Val};
use crate::{gen, pp, run};
use proptest::prelude::*;
use pvkit::{pv_ensure, Fail, Obs, Session};
use serde::{Deserialize, Serialize};

#[derive(Debug, Clone, Serialize, Deserialize)]
pub struct Case {
    spec: Spec,
    tw: Tweaks,
    kind: String,
}

fn tweak() -> impl Strategy<Value = (Tweaks, String)> {
    let asset = || (0u8..3, 0u8..6);
    prop_oneof![
        4 => Just((Tweaks::default(), "balanced".to_string())),
        2 => prop_oneof![-5_000_000i64..0, 1i64..5_000_000, Just(1i64), Just(-1i64)].prop_map(|d| (Tweaks { change_delta: d, ..Default::default() }, "lovelace-moved".to_string())),
        1 => (asset(), 1i64..1_000_000).prop_map(|((p, n), q)| (Tweaks { unbalanced_mint: vec![(p, n, q)], ..Default::default() }, "mint-not-produced".to_string())),
        2 => (asset(), 1i64..1_000_000).prop_map(|((p, n), q)| (Tweaks { unbalanced_mint: vec![(p, n, -q)], ..Default::default() }, "burn-not-consumed".to_string())),
        1 => (asset(), 1u64..1_000_000).prop_map(|((p, n), q)| (Tweaks { phantom_assets: vec![(p, n, q)], ..Default::default() }, "asset-from-nowhere".to_string())),
        // burn of -n compensated by an output of 2^64-n: balances only in wrapped 64-bit arithmetic
        3 => (asset(), 1u64..1_000_000).prop_map(|((p, n), q)| {
            (Tweaks { unbalanced_mint: vec![(p, n, -(q as i64))], phantom_assets: vec![(p, n, u64::MAX - q + 1)], ..Default::default() }, "wrap-balanced-burn".to_string())
        }),
        // mint of n with an output short by 2^64 - ... : output of n + 2^63 twice etc. are covered by quantities near the top
        1 => (asset(), 1u64..1000).prop_map(|((p, n), q)| (Tweaks { phantom_assets: vec![(p, n, u64::MAX - q)], ..Default::default() }, "huge-phantom".to_string())),
        1 => any::<u64>().prop_map(|f| (Tweaks { fee_override: Some(f), ..Default::default() }, "fee-overridden".to_string())),
        // the classic bookkeeping slips: the fee declared but not paid / paid twice, the mint applied with the wrong sign
        2 => prop::sample::select(vec![1i8, -1, 2]).prop_map(|k| (Tweaks { change_plus_fee: k, ..Default::default() }, "fee-not-paid-or-paid-twice".to_string())),
        2 => Just((Tweaks { mint_sign_flip: true, ..Default::default() }, "mint-applied-with-opposite-sign".to_string())),
        // an asset whose real total passes 2^63-1 on one side although every single quantity fits (the recipe is fitted below)
        2 => (asset(), prop_oneof![1u64..1_000_000, Just(1u64), Just(i64::MAX as u64), Just(1u64 << 62)]).prop_map(|((p, n), q)| (Tweaks { phantom_first: vec![(p, n, q)], ..Default::default() }, "total-beyond-i64-over-two-outputs".to_string())),
        1 => Just((Tweaks { no_outputs: true, ..Default::default() }, "no-outputs-all-to-fee".to_string())),
        1 => Just((Tweaks { zero_coin_output: true, ..Default::default() }, "zero-coin-output".to_string())),
    ]
}

fn check(c: &Case, obs: &mut Obs) -> Result<(), Fail> {
    let era = c.spec.era;
    let f = match forge::forge_with(&c.spec, &c.tw) {
        Ok(f) => f,
        Err(_) => {
            obs.discard();
            return Ok(());
        }
    };
    let env = pp::env(era, &pp::PpTweak::default());
    let r = match pvkit::panics::guarded(|| run::validate(era, &f.tx, &f.utxos, &env)) {
        Ok(r) => r,
        Err(_) => {
            // a panic is C33's subject; here only acceptance is judged
            obs.class(format!("{}:panicked (C33)", c.kind));
            return Ok(());
        }
    };
    obs.class(format!("{}:{}:{}", era.name(), c.kind, match &r { run::Outcome::Accepted => "accepted", run::Outcome::Rejected(_) => "rejected", _ => "undecodable" }));
    if r != run::Outcome::Accepted {
        return Ok(());
    }
    // ---- conservation in unbounded integers from the independent view ----
    let v = view::TxView::parse(&f.tx).ok_or(Fail { sig: "harness:view".into(), msg: "forged tx does not parse".into() })?;
    let mut consumed = Val::default();
    for (t, ix) in v.inputs(0) {
        let u = f.utxos.iter().find(|u| u.txid.as_slice() == t.as_slice() && u.idx == ix).ok_or(Fail { sig: "harness:utxo".into(), msg: "spent input without utxo".into() })?;
        let n = pvkit::cborx::read(&u.output).map_err(|_| Fail { sig: "harness:utxo".into(), msg: "utxo parse".into() })?;
        let (_, val) = view::output_of(&n).ok_or(Fail { sig: "harness:utxo".into(), msg: "utxo value".into() })?;
        consumed.add(&val);
    }
    consumed.add(&Val { coin: 0, assets: v.mint() });
    let mut produced = Val::default();
    for (_, val) in v.outputs() {
        produced.add(&val);
    }
    produced.coin += v.fee().unwrap_or(0) as i128;
    let (consumed, produced) = (consumed.normalised(), produced.normalised());
    pv_ensure!(consumed.coin == produced.coin, format!("ada-not-conserved:{}", era.name()),
        "accepted although inputs hold {} lovelace and outputs+fee {} ({})", consumed.coin, produced.coin, c.kind);
    pv_ensure!(consumed.assets == produced.assets, format!("asset-not-conserved:{}", era.name()),
        "accepted although spent+minted assets {:?} differ from produced assets {:?} ({})",
        consumed.assets.iter().map(|((p, n), q)| (hex::encode(&p[..3]), hex::encode(n), *q)).collect::<Vec<_>>(),
        produced.assets.iter().map(|((p, n), q)| (hex::encode(&p[..3]), hex::encode(n), *q)).collect::<Vec<_>>(), c.kind);
    obs.nontrivial();
    Ok(())
}

pub fn run(s: &Session) {
    s.set_rule("TxForge transactions without certificates/withdrawals/treasury/donation under balanced and almost-balanced \
        edits (lovelace moved into or out of the change output, mint without output, burn of an asset absent from the inputs, \
        asset from nowhere, a burn compensated by an output of 2^64-n so that it balances only in wrapped arithmetic, quantities \
        near 2^64, arbitrary fee), re-signed; all post-Byron eras; plus self-signed Byron transactions (public-key and redeem inputs) that over- and under-pay. Oracle: accepted => for ada and every asset spent + minted = \
        produced + fee in unbounded integers read through cborx (Byron: inputs - outputs >= summand + multiplier * (size of body + witnesses), and >= 0 for redeem-only transactions). Non-trivial = an accepted case; distinct = distinct recipe");
    s.assume("a panic during validation is counted and left to C33 (this build has overflow checks on, as the project's test profile)");
    s.forall("byron-fee-balance", s.pick(60_000, 1_000_000), crate::c33::byron_spec, |b, obs| {
        let f = match crate::byron::forge(b) {
            Ok(f) => f,
            Err(_) => {
                obs.discard();
                return Ok(());
            }
        };
        let r = match pvkit::panics::guarded(|| crate::byron::validate(&f)) {
            Ok(r) => r,
            Err(_) => {
                obs.class("byron:panicked (C33)");
                return Ok(());
            }
        };
        match r {
            None => obs.discard(),
            Some(Err(_)) => obs.class("byron:rejected"),
            Some(Ok(())) => {
                obs.class(if f.all_redeem { "byron:accepted:redeem-only" } else { "byron:accepted" });
                // a transaction spending only redeem addresses pays no fee but must still not create value
                // weak reading: linear in the size of transaction body + witnesses (what the validator measures; the node
                // adds the framing byte of the pair, so this never demands more than the ledger does)
                let min_fee: u128 = if f.all_redeem { 0 } else { crate::byron::SUMMAND as u128 + crate::byron::MULTIPLIER as u128 * f.size_tx_and_wits as u128 };
                if !f.all_redeem && f.sum_in >= f.sum_out && f.sum_in - f.sum_out < min_fee + 2 * crate::byron::MULTIPLIER as u128 {
                    obs.class("byron:accepted:within-two-size-units-of-the-minimum");
                }
                pv_ensure!(f.sum_in >= f.sum_out && f.sum_in - f.sum_out >= min_fee,
                    if f.all_redeem { "byron-redeem-creates-value" } else { "byron-fee-below-minimum-accepted" },
                    "accepted although inputs hold {} and outputs {} lovelace (minimum fee {})", f.sum_in, f.sum_out, min_fee);
                obs.nontrivial();
            }
        }
        Ok(())
    });
    s.forall(
        "value-conservation",
        s.pick(60_000, 1_500_000),
        || {
            (gen::spec_early(), tweak()).prop_map(|(mut spec, (tw, kind))| {
                // fit the recipe to the "total beyond i64" tweak: one input holds 2^63-1 of the asset, nothing else moves it,
                // the whole of it goes to the change output, and the first of (at least) two outputs adds the phantom part
                if let Some(&(p, n, _)) = tw.phantom_first.first() {
                    let same = |a: &(u8, u8, u64)| a.0 == p && a.1 % 6 == n % 6;
                    for i in spec.inputs.iter_mut() {
                        i.assets.retain(|a| !same(a));
                    }
                    spec.mint.retain(|m| !(m.0 == p && m.1 % 6 == n % 6));
                    spec.inputs[0].assets.push((p, n, i64::MAX as u64));
                    while spec.outputs.len() < 2 {
                        let o = spec.outputs[0].clone();
                        spec.outputs.push(o);
                    }
                    spec.outputs[0].asset_share = 0;
                    if !spec.era.multiasset() {
                        spec.early_multiasset = true;
                    }
                }
                Case { spec, tw, kind }
            })
        },
        check,
    );
}
