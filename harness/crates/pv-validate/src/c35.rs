//! C35 — accepted transactions carry only valid signatures and all needed ones (DESIGN §C35).
use crate::forge::{self, key, EraK, Spec};
use crate::view::{self, TxView};
use crate::{gen, pp, run};
use ed25519_dalek::{Signature, Signer, Verifier, VerifyingKey};
use proptest::prelude::*;
use pvkit::blake2b::{b224, b256};
use pvkit::cborx as cx;
use pvkit::{pv_ensure, Fail, Obs, Session};
use serde::{Deserialize, Serialize};

#[derive(Debug, Clone, Serialize, Deserialize)]
pub enum Edit {
    /// a valid witness by a key the transaction does not need, inserted at a position
    AddValidUnrelated(u8, u16),
    /// an invalid witness (signature of another message) by an unrelated key, inserted at a position
    AddInvalidUnrelated(u8, u16),
    Duplicate(u16),
    Swap(u16, u16),
    Drop(u16),
    CorruptSig(u16, u16),
    CorruptKey(u16, u16),
    Reverse,
    /// signature cut or padded to another length (which witness, new length)
    ResizeSig(u16, u8),
    /// verification key cut or padded to another length
    ResizeKey(u16, u8),
    /// an extra witness by an unrelated key whose signature / key has the wrong length, inserted at a position
    AddWrongLength(u8, u16, u8, bool),
    /// every witness re-made as a valid signature of the id the body would have if it were written with shortest-form
    /// heads (the forge writes fee and change in fixed width, so that is another id than the transaction's)
    SignShortestFormId,
    /// a sibling transaction (same recipe, another fee) is forged and validated first, then its witnesses (valid
    /// signatures by the right keys, but of the sibling's id) are put on this body
    WitnessesOfValidatedSibling(u8),
}

#[derive(Debug, Clone, Serialize, Deserialize)]
pub struct Case {
    spec: Spec,
    edits: Vec<Edit>,
}

fn edit() -> impl Strategy<Value = Edit> {
    prop_oneof![
        3 => (40u8..60, any::<u16>()).prop_map(|(k, p)| Edit::AddValidUnrelated(k, p)),
        4 => (40u8..60, any::<u16>()).prop_map(|(k, p)| Edit::AddInvalidUnrelated(k, p)),
        1 => any::<u16>().prop_map(Edit::Duplicate),
        1 => (any::<u16>(), any::<u16>()).prop_map(|(a, b)| Edit::Swap(a, b)),
        2 => any::<u16>().prop_map(Edit::Drop),
        2 => (any::<u16>(), any::<u16>()).prop_map(|(a, b)| Edit::CorruptSig(a, b)),
        1 => (any::<u16>(), any::<u16>()).prop_map(|(a, b)| Edit::CorruptKey(a, b)),
        1 => Just(Edit::Reverse),
        1 => (any::<u16>(), prop_oneof![Just(0u8), Just(1), Just(63), Just(65), Just(32), Just(128), any::<u8>()]).prop_map(|(a, l)| Edit::ResizeSig(a, l)),
        1 => (any::<u16>(), prop_oneof![Just(0u8), Just(1), Just(31), Just(33), Just(64), any::<u8>()]).prop_map(|(a, l)| Edit::ResizeKey(a, l)),
        1 => (1u8..200).prop_map(Edit::WitnessesOfValidatedSibling),
        1 => (40u8..60, any::<u16>(), prop_oneof![Just(0u8), Just(31), Just(33), Just(63), Just(65)], any::<bool>()).prop_map(|(k, p, l, sig)| Edit::AddWrongLength(k, p, l, sig)),
        1 => Just(Edit::SignShortestFormId),
    ]
}

fn dalek_ok(pk: &[u8], sig: &[u8], msg: &[u8]) -> bool {
    let (Ok(pk), Ok(sig)) = (<[u8; 32]>::try_from(pk), <[u8; 64]>::try_from(sig)) else { return false };
    let Ok(vk) = VerifyingKey::from_bytes(&pk) else { return false };
    vk.verify(msg, &Signature::from_bytes(&sig)).is_ok()
}

fn check(c: &Case, obs: &mut Obs) -> Result<(), Fail> {
    let era = c.spec.era;
    let f = match forge::forge(&c.spec) {
        Ok(f) => f,
        Err(_) => {
            obs.discard();
            return Ok(());
        }
    };
    let id = b256(&f.body);
    let v = TxView::parse(&f.tx).ok_or(Fail { sig: "harness:view".into(), msg: "parse".into() })?;
    let mut wl: Vec<(Vec<u8>, Vec<u8>)> = v.vkey_witnesses();
    let mut edited = vec![];
    for e in &c.edits {
        let n = wl.len();
        match e {
            Edit::AddValidUnrelated(k, p) => {
                let kk = key(*k);
                wl.insert(pvkit::pick_idx(*p, n + 1), (kk.pk.to_vec(), kk.sk.sign(&id).to_bytes().to_vec()));
                edited.push("add-valid");
            }
            Edit::AddInvalidUnrelated(k, p) => {
                let kk = key(*k);
                wl.insert(pvkit::pick_idx(*p, n + 1), (kk.pk.to_vec(), kk.sk.sign(b"another message").to_bytes().to_vec()));
                edited.push("add-invalid");
            }
            Edit::Duplicate(i) if n > 0 => {
                let w = wl[pvkit::pick_idx(*i, n)].clone();
                wl.push(w);
                edited.push("duplicate");
            }
            Edit::Swap(a, b) if n > 1 => {
                wl.swap(pvkit::pick_idx(*a, n), pvkit::pick_idx(*b, n));
                edited.push("swap");
            }
            Edit::Drop(i) if n > 0 => {
                wl.remove(pvkit::pick_idx(*i, n));
                edited.push("drop");
            }
            Edit::CorruptSig(i, b) if n > 0 && !wl[pvkit::pick_idx(*i, n)].1.is_empty() => {
                let w = &mut wl[pvkit::pick_idx(*i, n)];
                let bit = (*b as usize) % (w.1.len() * 8);
                w.1[bit / 8] ^= 1 << (bit % 8);
                edited.push("corrupt-sig");
            }
            Edit::CorruptKey(i, b) if n > 0 && !wl[pvkit::pick_idx(*i, n)].0.is_empty() => {
                let w = &mut wl[pvkit::pick_idx(*i, n)];
                let bit = (*b as usize) % (w.0.len() * 8);
                w.0[bit / 8] ^= 1 << (bit % 8);
                edited.push("corrupt-key");
            }
            Edit::Reverse => {
                wl.reverse();
                edited.push("reverse");
            }
            Edit::ResizeSig(i, l) if n > 0 => {
                let w = &mut wl[pvkit::pick_idx(*i, n)];
                if w.1.len() != *l as usize {
                    w.1.resize(*l as usize, 0x5a);
                    edited.push("resize-sig");
                }
            }
            Edit::ResizeKey(i, l) if n > 0 => {
                let w = &mut wl[pvkit::pick_idx(*i, n)];
                if w.0.len() != *l as usize {
                    w.0.resize(*l as usize, 0x5a);
                    edited.push("resize-key");
                }
            }
            Edit::SignShortestFormId => {
                // two other ids the body could be given: written with shortest-form heads, and as the library itself would
                // write the decoded body again (tags on sets, definite lengths, ...)
                let reencoded: Option<Vec<u8>> = match era {
                    EraK::Babbage => pallas_codec::minicbor::decode::<pallas_primitives::babbage::Tx>(&f.tx).ok().and_then(|t| pallas_codec::minicbor::to_vec(&*t.transaction_body).ok()),
                    EraK::Conway => pallas_codec::minicbor::decode::<pallas_primitives::conway::Tx>(&f.tx).ok().and_then(|t| pallas_codec::minicbor::to_vec(&*t.transaction_body).ok()),
                    _ => pallas_codec::minicbor::decode::<pallas_primitives::alonzo::Tx>(&f.tx).ok().and_then(|t| pallas_codec::minicbor::to_vec(&*t.transaction_body).ok()),
                };
                let pick_reencoded = wl.len() % 2 == 0;
                let alt = match (pick_reencoded, reencoded, cx::read(&f.body)) {
                    (true, Some(r), _) => Some(r),
                    (_, _, Ok(bn)) => Some(cx::write(&bn.minimal())),
                    (_, r, _) => r,
                };
                if let Some(alt) = alt {
                    let other = b256(&alt);
                    if other != id {
                        for (pk, sg) in wl.iter_mut() {
                            if let Some(kk) = (0u8..64).map(key).find(|k| k.pk.as_slice() == pk.as_slice()) {
                                *sg = kk.sk.sign(&other).to_bytes().to_vec();
                            }
                        }
                        edited.push(if pick_reencoded { "sign-reencoded-id" } else { "sign-shortest-form-id" });
                    }
                }
            }
            Edit::WitnessesOfValidatedSibling(d) => {
                let mut sib = c.spec.clone();
                sib.extra_fee += *d as u32;
                if let Ok(f2) = forge::forge(&sib) {
                    if f2.body != f.body {
                        let env = pp::env(era, &pp::PpTweak::default());
                        let r2 = run::validate(era, &f2.tx, &f2.utxos, &env);
                        if let Some(v2) = TxView::parse(&f2.tx) {
                            wl = v2.vkey_witnesses();
                            edited.push(if r2 == run::Outcome::Accepted { "witnesses-of-validated-sibling" } else { "witnesses-of-rejected-sibling" });
                        }
                    }
                }
            }
            Edit::AddWrongLength(k, p, l, sig) => {
                let kk = key(*k);
                let (mut pk, mut sg) = (kk.pk.to_vec(), kk.sk.sign(&id).to_bytes().to_vec());
                if *sig { sg.resize(*l as usize, 0) } else { pk.resize(*l as usize, 0) }
                wl.insert(pvkit::pick_idx(*p, n + 1), (pk, sg));
                edited.push("add-wrong-length");
            }
            _ => {}
        }
    }
    // rebuild the witness set with the edited list (everything else untouched; the body is not re-signed)
    let mut wn = v.wits().clone();
    if wl.is_empty() {
        wn.map_remove(0);
    } else {
        let arr = cx::array(wl.iter().map(|(k, s)| cx::array(vec![cx::bytes(k), cx::bytes(s)])).collect());
        if wn.map_get(0).is_some() {
            wn.map_set(0, arr);
        } else if let Some(m) = wn.as_map_mut() {
            m.insert(0, (cx::uint(0), arr));
        }
    }
    let tx = view::assemble(&f.body, &cx::write(&wn), true, f.aux.as_deref());
    let env = pp::env(era, &pp::PpTweak::default());
    let r = run::validate(era, &tx, &f.utxos, &env);
    for e in &edited {
        obs.class(format!("{}:{}", e, if r == run::Outcome::Accepted { "accepted" } else { "not-accepted" }));
    }
    if r != run::Outcome::Accepted {
        return Ok(());
    }
    // (1) every verification-key witness is a valid signature of the transaction id
    for (i, (k, sg)) in wl.iter().enumerate() {
        pv_ensure!(dalek_ok(k, sg, &id), format!("invalid-witness-accepted:{}", if era <= EraK::Mary { "shelley_ma" } else { era.name() }),
            "accepted although vkey witness {i} of {} ({}..) is not a valid signature of the transaction id; edits {:?}", wl.len(), hex::encode(&k[..4]), edited);
    }
    // (2) every key-locked spent input and collateral input has a witness from its payment key
    for u in &f.utxos {
        // reference inputs are only read: their owners do not sign
        if u.role == "reference" {
            continue;
        }
        if let Some(k) = u.key_locked_by {
            let h = key(k).hash;
            pv_ensure!(wl.iter().any(|(pk, sg)| b224(pk) == h && dalek_ok(pk, sg, &id)), format!("missing-witness-accepted:{}:{}", era.name(), u.role),
                "accepted although the key-locked {} {}#{} has no valid witness from its payment key; edits {:?}", u.role, hex::encode(&u.txid[..4]), u.idx, edited);
        }
    }
    // (3) every required signer has one
    for h in v.required_signers() {
        pv_ensure!(wl.iter().any(|(pk, sg)| b224(pk).as_slice() == h.as_slice() && dalek_ok(pk, sg, &id)), format!("missing-required-signer-accepted:{}", era.name()),
            "accepted although required signer {} has no valid witness; edits {:?}", hex::encode(&h[..4]), edited);
    }
    obs.nontrivial_if(!edited.is_empty());
    Ok(())
}

pub fn run(s: &Session) {
    s.set_rule("TxForge transactions of Shelley-MA, Alonzo, Babbage and Conway whose verification-key witness list is edited \
        without re-signing: extra witnesses by unrelated keys (valid / invalid) inserted at any position, duplicates, reorderings, \
        a needed one dropped, a signature or key corrupted in one bit or resized, witnesses re-made over another encoding of the \
        body, witnesses of a sibling transaction that was validated just before. Oracle (ed25519-dalek + own Blake2b): accepted => every \
        witness verifies against the transaction id, every key-locked spent input and collateral input has a witness from its \
        payment key, every required signer has one. Non-trivial = an accepted case with at least one edit");
    s.forall(
        "witness-edits",
        s.pick(60_000, 1_500_000),
        || (gen::spec(), prop::collection::vec(edit(), 0..4)).prop_map(|(spec, edits)| Case { spec, edits }),
        check,
    );
    if !s.replaying() {
        for e in ["add-valid", "add-invalid", "drop", "corrupt-sig", "duplicate", "reverse", "witnesses-of-validated-sibling"] {
            s.health(s.class_count(&format!("{e}:accepted")) + s.class_count(&format!("{e}:not-accepted")) > 0, &format!("edit {e} never generated"));
        }
    }
}
