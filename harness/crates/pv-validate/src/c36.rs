//! C36 — fee and size limits use the ledger's transaction size (DESIGN §C36).
use crate::forge::{self, Spec, Tweaks};
use crate::{gen, pp, run};
use pvkit::{pv_ensure, Fail, Obs, Session};

fn check(spec: &Spec, obs: &mut Obs) -> Result<(), Fail> {
    let era = spec.era.name();
    // exact minimum fee per the ledger's size
    let exact = match forge::forge_with(spec, &Tweaks { fee_vs_min: Some(0), ..Default::default() }) {
        Ok(f) => f,
        Err(_) => {
            obs.discard();
            return Ok(());
        }
    };
    let size = exact.ledger_size;
    // the harness' own size (cborx: 1 + body + wits + aux|null) must be what the traversal reports
    let tsize = run::traverse_size(spec.era, &exact.tx);
    pv_ensure!(tsize == Some(size as usize), format!("traverse-size-differs:{era}"),
        "MultiEraTx::size() = {:?} but the serialized [body, wits, aux] is {} bytes", tsize, size);
    pv_ensure!(exact.fee == forge::MINFEE_A * size + forge::MINFEE_B, "harness:fee", "fee bookkeeping");
    let env = pp::env(spec.era, &pp::PpTweak::default());
    let r = run::validate(spec.era, &exact.tx, &exact.utxos, &env);
    pv_ensure!(r == run::Outcome::Accepted, format!("exact-min-fee-rejected:{era}"),
        "fee = a*size+b = {} for size {} is rejected: {:?}", exact.fee, size, r);
    let below = forge::forge_with(spec, &Tweaks { fee_vs_min: Some(-1), ..Default::default() }).map_err(|e| Fail { sig: "harness:forge".into(), msg: e })?;
    let r = run::validate(spec.era, &below.tx, &below.utxos, &env);
    pv_ensure!(matches!(r, run::Outcome::Rejected(_)), format!("fee-below-min-accepted:{era}"),
        "fee = min-1 = {} for size {} is not rejected: {:?}", below.fee, size, r);
    // size limit exactly at the size / one below
    let env_at = pp::env(spec.era, &pp::PpTweak { max_tx_size: Some(size as u32), ..Default::default() });
    let r = run::validate(spec.era, &exact.tx, &exact.utxos, &env_at);
    pv_ensure!(r == run::Outcome::Accepted, format!("size-at-limit-rejected:{era}"),
        "max_transaction_size = size = {} rejects the transaction: {:?}", size, r);
    let env_below = pp::env(spec.era, &pp::PpTweak { max_tx_size: Some(size as u32 - 1), ..Default::default() });
    let r = run::validate(spec.era, &exact.tx, &exact.utxos, &env_below);
    pv_ensure!(matches!(r, run::Outcome::Rejected(_)), format!("size-above-limit-accepted:{era}"),
        "max_transaction_size = size-1 = {} accepts a {}-byte transaction: {:?}", size - 1, size, r);
    // the same two fee verdicts for the transaction as a program would assemble it: the witness set as an
    // in-memory value (no retained bytes), body and auxiliary data untouched
    if let (Some(a), Some(b)) = (run::validate_in_memory(spec.era, &exact.tx, &exact.utxos, &env), run::validate_in_memory(spec.era, &below.tx, &below.utxos, &env)) {
        obs.class(format!("{era}:in-memory-parts"));
        pv_ensure!(a == run::Outcome::Accepted, format!("exact-min-fee-rejected:{era}:in-memory-parts"),
            "fee = a*size+b = {} for size {} is rejected when the witness set is an in-memory value: {:?}", exact.fee, size, a);
        pv_ensure!(matches!(b, run::Outcome::Rejected(_)), format!("fee-below-min-accepted:{era}:in-memory-parts"),
            "fee = min-1 = {} for size {} is not rejected when the witness set is an in-memory value: {:?}", below.fee, size, b);
        let c = run::validate_in_memory(spec.era, &exact.tx, &exact.utxos, &env_below);
        pv_ensure!(matches!(c, Some(run::Outcome::Rejected(_))), format!("size-above-limit-accepted:{era}:in-memory-parts"),
            "max_transaction_size = size-1 = {} accepts the {}-byte transaction when the witness set is an in-memory value: {:?}", size - 1, size, c);
    }
    if spec.donation.is_some() && spec.era == forge::EraK::Conway {
        obs.class("conway:with-donation");
    }
    obs.class(format!("{era}:{}", if exact.aux.is_some() { "with-aux" } else { "no-aux" }));
    obs.nontrivial();
    Ok(())
}

pub fn run(s: &Session) {
    s.set_rule("TxForge transactions of every post-Byron era (key-locked and Plutus inputs, native-script mints, with and \
        without auxiliary data), re-signed at fee = a*size+b exactly, at one lovelace less, and validated with \
        max_transaction_size = size and size-1, where size = serialized [body, witness set, aux|null] measured by the harness' \
        own CBOR writer (cross-checked against MultiEraTx::size()). Oracle: accept / reject / accept / reject. Every accepted \
        case is non-trivial; distinct = distinct recipe");
    s.forall("fee-and-size-boundaries", s.pick(24_000, 600_000), gen::spec, check);
    if !s.replaying() {
        for e in forge::EraK::all() {
            for a in ["with-aux", "no-aux"] {
                s.health(s.class_count(&format!("{}:{a}", e.name())) > 0, &format!("no {} case {a}", e.name()));
            }
        }
    }
}
