//! C37 — accepted script transactions respect the execution-unit budget (DESIGN §C37).
use crate::forge::{self, EraK, Spec};
use crate::{gen, pp, run};
use proptest::prelude::*;
use pvkit::{pv_ensure, Fail, Obs, Session};
use serde::{Deserialize, Serialize};

#[derive(Debug, Clone, Serialize, Deserialize)]
pub struct Case {
    spec: Spec,
    /// which component is probed and how far the limit is from the transaction's total
    probe_mem: bool,
    delta: i64,
}

fn check(c: &Case, obs: &mut Obs) -> Result<(), Fail> {
    let era = c.spec.era;
    let f = match forge::forge(&c.spec) {
        Ok(f) if f.has_plutus => f,
        _ => {
            obs.discard();
            return Ok(());
        }
    };
    let enc = if era == EraK::Conway && c.spec.plutus.as_ref().map(|p| p.redeemer_map).unwrap_or(false) { "map" } else { "list" };
    // limits: the probed component is set to total+delta, the other one generously
    let (total, other) = if c.probe_mem { (f.total_mem, f.total_steps) } else { (f.total_steps, f.total_mem) };
    let limit = (total as i128 + c.delta as i128).max(0) as u64;
    let t = if c.probe_mem {
        pp::PpTweak { max_mem: Some(limit), max_steps: Some(other.saturating_add(1000)), ..Default::default() }
    } else {
        pp::PpTweak { max_steps: Some(limit), max_mem: Some(other.saturating_add(1000)), ..Default::default() }
    };
    let env = pp::env(era, &t);
    let r = run::validate(era, &f.tx, &f.utxos, &env);
    let comp = if c.probe_mem { "mem" } else { "steps" };
    obs.class(format!("{}:{enc}:{comp}:{}", era.name(), if total > limit { "over" } else if total == limit { "at" } else { "under" }));
    if total > limit {
        let place = if f.script_by_reference { "script-by-reference" } else { "script-in-witness-set" };
        pv_ensure!(r != run::Outcome::Accepted, format!("over-budget-accepted:{}:{enc}:{place}", era.name()),
            "redeemers ask for {total} {comp} units, the limit is {limit}, yet the transaction is accepted");
        obs.nontrivial();
    } else {
        // within budget the same transaction must be accepted (guards against a check that rejects everything)
        pv_ensure!(r == run::Outcome::Accepted, format!("within-budget-rejected:{}:{enc}", era.name()),
            "redeemers ask for {total} {comp} units, the limit is {limit}, rejected with {:?}", r);
        obs.nontrivial_if(total == limit);
    }
    Ok(())
}

fn plutus_spec() -> impl Strategy<Value = Spec> {
    prop::sample::select(vec![EraK::Alonzo, EraK::Babbage, EraK::Conway]).prop_flat_map(gen::spec_for).prop_filter("plutus", |s| s.plutus.is_some())
}

pub fn run(s: &Session) {
    s.set_rule("TxForge Plutus transactions (Alonzo, Babbage, Conway; list redeemers, and map redeemers in Conway) validated \
        with the per-transaction execution-unit limit of one component set to total+delta, delta in {-2^40..-1, 0, 1..}; oracle: \
        total > limit => not accepted; total <= limit => accepted. Non-trivial = limit below or exactly at the total");
    s.forall(
        "budget-boundaries",
        s.pick(30_000, 600_000),
        || {
            (plutus_spec(), any::<bool>(), prop_oneof![4 => -3i64..=3, 1 => -1_000_000i64..0, 1 => Just(i64::MIN / 4), 1 => 0i64..1_000_000])
                .prop_map(|(spec, probe_mem, delta)| Case { spec, probe_mem, delta })
        },
        check,
    );
    if !s.replaying() {
        for (e, encs) in [("alonzo", vec!["list"]), ("babbage", vec!["list"]), ("conway", vec!["list", "map"])] {
            for enc in encs {
                for c in ["mem", "steps"] {
                    for k in ["over", "at", "under"] {
                        s.health(s.class_count(&format!("{e}:{enc}:{c}:{k}")) > 0, &format!("class {e}:{enc}:{c}:{k} never generated"));
                    }
                }
            }
        }
    }
}
