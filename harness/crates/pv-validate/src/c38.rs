//! C38 — each implemented ledger rule rejects transactions that break only it (DESIGN §C38).
use crate::forge::{self, block_slot, script_addr, EraK, Forged, Spec, Tweaks};
use crate::view::{self, TxView};
use crate::{gen, pp, run};
use proptest::prelude::*;
use pvkit::cborx as cx;
use pvkit::{pv_ensure, Fail, Obs, Session};
use serde::{Deserialize, Serialize};

#[derive(Debug, Clone, Copy, PartialEq, Eq, Serialize, Deserialize)]
pub enum Mut {
    EmptyInputs,
    RemoveInputUtxo,
    RemoveCollateralUtxo,
    RemoveReferenceUtxo,
    DropScriptReference,
    SlotPastTtl,
    SlotBeforeValidityStart,
    RaiseMinAdaPerOutput,
    LowerMaxValueSize,
    EnvNetworkFlip,
    BodyNetworkIdWrong,
    OutputNetworkWrong,
    NoCollateralAllowed,
    CollateralToScriptAddress,
    CollateralWithAssets,
    CollateralTooSmall,
    CollateralJustBelowMinimum,
    RaiseCollateralPercentage,
    PercentageJustAboveCollateral,
    WrongTotalCollateral,
    DropNativeScriptOfMint,
    DropOneOfSeveralNativeScripts,
    DropPlutusScript,
    DropDatum,
    DropRedeemer,
    AlterAuxDataKeepHash,
    WrongAuxHash,
    DropAuxDataKeepHash,
    AuxDataWithoutHash,
    HashWithoutAuxData,
    WrongScriptDataHash,
    AlterCostModel,
    DropCostModel,
    /// language availability (Babbage): PlutusV1 may not run in a transaction one of whose spent outputs carries an
    /// inline datum / a reference script; the last key-locked spent output (in body order) is given one
    InlineDatumOnSpentOutputUnderV1,
    ScriptRefOnSpentOutputUnderV1,
    /// minimum ada (Babbage on): the price per byte is set so that a coin-only output holding the smallest coin of the
    /// transaction is exactly covered; the output that holds that coin carries assets, so its minimum is strictly higher
    MinAdaCoversOnlyTheCoin,
}

pub const ALL: [Mut; 36] = [
    Mut::EmptyInputs, Mut::RemoveInputUtxo, Mut::RemoveCollateralUtxo, Mut::RemoveReferenceUtxo, Mut::DropScriptReference, Mut::SlotPastTtl, Mut::SlotBeforeValidityStart,
    Mut::RaiseMinAdaPerOutput, Mut::LowerMaxValueSize, Mut::EnvNetworkFlip, Mut::BodyNetworkIdWrong, Mut::OutputNetworkWrong,
    Mut::NoCollateralAllowed, Mut::CollateralToScriptAddress, Mut::CollateralWithAssets, Mut::CollateralTooSmall, Mut::CollateralJustBelowMinimum,
    Mut::RaiseCollateralPercentage, Mut::PercentageJustAboveCollateral, Mut::WrongTotalCollateral, Mut::DropNativeScriptOfMint, Mut::DropOneOfSeveralNativeScripts, Mut::DropPlutusScript, Mut::DropDatum,
    Mut::DropRedeemer, Mut::AlterAuxDataKeepHash, Mut::WrongAuxHash, Mut::DropAuxDataKeepHash, Mut::AuxDataWithoutHash, Mut::HashWithoutAuxData, Mut::WrongScriptDataHash,
    Mut::AlterCostModel, Mut::DropCostModel, Mut::InlineDatumOnSpentOutputUnderV1, Mut::ScriptRefOnSpentOutputUnderV1, Mut::MinAdaCoversOnlyTheCoin,
];

#[derive(Debug, Clone, Serialize, Deserialize)]
pub struct Case {
    spec: Spec,
    muts: Vec<Mut>,
}

struct World {
    f: Forged,
    tx: Vec<u8>,
    ppt: pp::PpTweak,
    tw: Tweaks,
}

fn drop_wit_key(w: &mut World, keys: &[u64]) -> bool {
    let Some(v) = TxView::parse(&w.tx) else { return false };
    let mut wn = v.wits().clone();
    let mut any = false;
    for k in keys {
        if wn.map_remove(*k).is_some() {
            any = true;
        }
    }
    if any {
        let body = v.body().span(&w.tx).to_vec();
        w.tx = view::assemble(&body, &cx::write(&wn), true, w.f.aux.as_deref());
    }
    any
}

/// Apply a mutator; false = not applicable to this transaction/era.
fn apply(m: Mut, spec: &Spec, w: &mut World) -> bool {
    let era = spec.era;
    let plutus = w.f.has_plutus;
    match m {
        Mut::EmptyInputs => {
            let Some(v) = TxView::parse(&w.tx) else { return false };
            let mut b = v.body().clone();
            b.map_set(0, cx::array(vec![]));
            let wits = v.wits().span(&w.tx).to_vec();
            w.tx = view::assemble(&cx::write(&b), &wits, true, w.f.aux.as_deref());
            true
        }
        Mut::RemoveInputUtxo => {
            let Some(i) = w.f.utxos.iter().position(|u| u.role == "input") else { return false };
            w.f.utxos.remove(i);
            true
        }
        Mut::RemoveCollateralUtxo => {
            let Some(i) = w.f.utxos.iter().position(|u| u.role == "collateral") else { return false };
            w.f.utxos.remove(i);
            true
        }
        Mut::RemoveReferenceUtxo => {
            // only reference inputs that are listed in the body (a dropped script reference is not)
            let Some(v) = TxView::parse(&w.tx) else { return false };
            let listed = v.inputs(18);
            let Some(i) = w.f.utxos.iter().position(|u| u.role == "reference" && listed.iter().any(|(t, ix)| t.as_slice() == u.txid.as_slice() && *ix == u.idx)) else { return false };
            w.f.utxos.remove(i);
            true
        }
        Mut::DropScriptReference => {
            if !(plutus && w.f.script_by_reference) {
                return false;
            }
            w.tw.drop_script_reference = true;
            true
        }
        Mut::SlotPastTtl => {
            let ttl = match (era, spec.ttl_slack) {
                (_, Some(s)) => block_slot(era) + s as u64,
                (EraK::Shelley | EraK::Allegra | EraK::Mary, None) => block_slot(era) + 1000,
                _ => return false,
            };
            w.ppt.block_slot = Some(ttl + 1);
            true
        }
        Mut::SlotBeforeValidityStart => {
            // the lower bound is implemented from Alonzo on
            let (Some(b), true) = (spec.validity_back, era.alonzo_plus()) else { return false };
            let start = block_slot(era) - b as u64;
            if start == 0 {
                return false;
            }
            w.ppt.block_slot = Some(start - 1);
            true
        }
        Mut::RaiseMinAdaPerOutput => {
            if era.alonzo_plus() {
                w.ppt.ada_per_utxo_byte = Some(1_000_000_000);
            } else {
                w.ppt.min_utxo_value = Some(1_000_000_000_000_000);
            }
            true
        }
        Mut::LowerMaxValueSize => {
            if !era.alonzo_plus() {
                return false;
            }
            w.ppt.max_value_size = Some(0);
            true
        }
        Mut::EnvNetworkFlip => {
            w.ppt.network_id = Some(0);
            true
        }
        Mut::BodyNetworkIdWrong => {
            if !era.alonzo_plus() {
                return false;
            }
            w.tw.wrong_body_network_id = true;
            true
        }
        Mut::OutputNetworkWrong => {
            w.tw.wrong_output_network = true;
            true
        }
        Mut::NoCollateralAllowed => {
            if !plutus {
                return false;
            }
            w.ppt.max_collateral_inputs = Some(0);
            true
        }
        Mut::CollateralToScriptAddress | Mut::CollateralWithAssets | Mut::CollateralTooSmall => {
            if !plutus {
                return false;
            }
            let Some(u) = w.f.utxos.iter_mut().find(|u| u.role == "collateral") else { return false };
            let Ok(mut n) = cx::read(&u.output) else { return false };
            let legacy = n.as_array().is_some();
            let new_addr = cx::bytes(&script_addr(&[0x5c; 28]));
            let new_val = match m {
                Mut::CollateralWithAssets => cx::array(vec![cx::uint(30_000_000), cx::map(vec![(cx::bytes(&[7u8; 28]), cx::map(vec![(cx::bytes(b"x"), cx::uint(5))]))])]),
                Mut::CollateralTooSmall => cx::uint(1),
                _ => cx::uint(0),
            };
            if legacy {
                let a = n.as_array_mut().unwrap();
                if m == Mut::CollateralToScriptAddress { a[0] = new_addr } else { a[1] = new_val }
            } else if m == Mut::CollateralToScriptAddress {
                n.map_set(0, new_addr);
            } else {
                n.map_set(1, new_val);
            }
            if m == Mut::CollateralToScriptAddress {
                u.key_locked_by = None;
            }
            // a collateral return / annotated total would conflict with a changed amount for reasons of their own
            if m != Mut::CollateralToScriptAddress && spec.plutus.as_ref().map(|p| p.collateral_return || p.total_collateral).unwrap_or(false) && m == Mut::CollateralWithAssets {
                // still a violation of the collateral-kind rule: assets cannot be returned by a lovelace-only return
            }
            u.output = cx::write(&n);
            true
        }
        Mut::CollateralJustBelowMinimum | Mut::PercentageJustAboveCollateral => {
            // the exact boundary of  paid * 100 >= fee * percentage  (paid = collateral inputs - collateral return)
            if !plutus {
                return false;
            }
            let Some(p) = &spec.plutus else { return false };
            let ret = if era.babbage_plus() && p.collateral_return { p.collateral_coin / 4 } else { 0 };
            let pct = w.ppt.collateral_percentage.unwrap_or(150) as u128;
            let fee = w.f.fee as u128;
            if fee == 0 {
                return false;
            }
            if m == Mut::PercentageJustAboveCollateral {
                let paid = (p.collateral_coin - ret) as u128;
                let need = paid * 100 / fee + 1;
                if need > u32::MAX as u128 {
                    return false;
                }
                w.ppt.collateral_percentage = Some(need as u32);
                return true;
            }
            let min_paid = (fee * pct).div_ceil(100);
            if min_paid == 0 {
                return false;
            }
            let new_coin = (min_paid - 1) as u64 + ret;
            let Some(u) = w.f.utxos.iter_mut().find(|u| u.role == "collateral") else { return false };
            let Ok(mut n) = cx::read(&u.output) else { return false };
            if n.as_array().is_some() {
                n.as_array_mut().unwrap()[1] = cx::uint(new_coin);
            } else {
                n.map_set(1, cx::uint(new_coin));
            }
            u.output = cx::write(&n);
            true
        }
        Mut::RaiseCollateralPercentage => {
            if !plutus {
                return false;
            }
            w.ppt.collateral_percentage = Some(1_000_000);
            true
        }
        Mut::WrongTotalCollateral => {
            if !(plutus && era.babbage_plus() && spec.plutus.as_ref().map(|p| p.total_collateral).unwrap_or(false)) {
                return false;
            }
            w.tw.total_collateral_delta = 1;
            true
        }
        Mut::DropNativeScriptOfMint => {
            if spec.mint.iter().all(|m| m.2 == 0) || !era.multiasset() {
                return false;
            }
            drop_wit_key(w, &[1])
        }
        Mut::DropOneOfSeveralNativeScripts => {
            // a mint under two or more policies keeps all but one of its scripts
            if !era.multiasset() {
                return false;
            }
            let Some(v) = TxView::parse(&w.tx) else { return false };
            let mut wn = v.wits().clone();
            let Some(list) = wn.map_get_mut(1).and_then(|n| n.as_array_mut()) else { return false };
            if list.len() < 2 {
                return false;
            }
            list.remove(0);
            let body = v.body().span(&w.tx).to_vec();
            w.tx = view::assemble(&body, &cx::write(&wn), true, w.f.aux.as_deref());
            true
        }
        Mut::DropPlutusScript => plutus && !w.f.script_by_reference && drop_wit_key(w, &[3, 6, 7]),
        Mut::DropDatum => plutus && drop_wit_key(w, &[4]),
        Mut::DropRedeemer => plutus && drop_wit_key(w, &[5]),
        Mut::AlterAuxDataKeepHash => {
            let Some(a) = &mut w.f.aux else { return false };
            // one letter of the message text ("pv-<n>"), whatever the outer form of the auxiliary data
            let Some(at) = a.windows(3).position(|w| w == b"pv-") else { return false };
            a[at + 1] ^= 0x01;
            let Some(v) = TxView::parse(&w.tx) else { return false };
            let (b, wi) = (v.body().span(&w.tx).to_vec(), v.wits().span(&w.tx).to_vec());
            w.tx = view::assemble(&b, &wi, true, w.f.aux.as_deref());
            true
        }
        Mut::DropAuxDataKeepHash => {
            if w.f.aux.is_none() {
                return false;
            }
            w.f.aux = None;
            let Some(v) = TxView::parse(&w.tx) else { return false };
            let (b, wi) = (v.body().span(&w.tx).to_vec(), v.wits().span(&w.tx).to_vec());
            w.tx = view::assemble(&b, &wi, true, None);
            true
        }
        Mut::WrongAuxHash => {
            if spec.metadata.is_none() {
                return false;
            }
            w.tw.wrong_aux_hash = true;
            true
        }
        Mut::AuxDataWithoutHash | Mut::HashWithoutAuxData => {
            if spec.metadata.is_none() {
                return false;
            }
            if m == Mut::AuxDataWithoutHash { w.tw.aux_hash_omitted = true } else { w.tw.aux_data_omitted = true }
            true
        }
        Mut::WrongScriptDataHash => {
            if !plutus {
                return false;
            }
            w.tw.wrong_script_data_hash = true;
            true
        }
        Mut::AlterCostModel | Mut::DropCostModel => {
            // only the Conway validator derives the language views from the protocol parameters
            if !(plutus && era == EraK::Conway) {
                return false;
            }
            let ver = forge::plutus_version(era, spec.plutus.as_ref().map(|p| p.version).unwrap_or(1));
            if m == Mut::AlterCostModel { w.ppt.alter_cost_model = Some(ver) } else { w.ppt.drop_cost_model = Some(ver) }
            true
        }
        Mut::MinAdaCoversOnlyTheCoin => {
            if !era.babbage_plus() {
                return false;
            }
            let Some(v) = TxView::parse(&w.tx) else { return false };
            let outs = v.outputs();
            let Some(min_coin) = outs.iter().map(|(_, val)| val.coin).min() else { return false };
            // the output with the smallest coin must carry assets (several may hold that coin)
            if !outs.iter().any(|(_, val)| val.coin == min_coin && !val.assets.is_empty()) || min_coin < 1_000_000 {
                return false;
            }
            // minimum = price * (size of the value in words + 160); a bare coin measures at most 2 words, an asset bundle more
            w.ppt.ada_per_utxo_byte = Some((min_coin / 162) as u64);
            true
        }
        Mut::InlineDatumOnSpentOutputUnderV1 | Mut::ScriptRefOnSpentOutputUnderV1 => {
            if !(plutus && era == EraK::Babbage && !w.f.script_by_reference) {
                return false;
            }
            if forge::plutus_version(era, spec.plutus.as_ref().map(|p| p.version).unwrap_or(1)) != 1 {
                return false;
            }
            let Some(v) = TxView::parse(&w.tx) else { return false };
            // the last spent output in body order that is key-locked (its owner signs; nothing else about it matters)
            let order = v.inputs(0);
            let Some(i) = order.iter().rev().find_map(|(t, ix)| w.f.utxos.iter().position(|u| u.role == "input" && u.key_locked_by.is_some() && u.txid.as_slice() == t.as_slice() && u.idx == *ix)) else { return false };
            let Ok(n) = cx::read(&w.f.utxos[i].output) else { return false };
            let mut fields: Vec<(cx::Node, cx::Node)> = if let Some(a) = n.as_array() {
                if a.len() != 2 {
                    return false;
                }
                vec![(cx::uint(0), a[0].clone()), (cx::uint(1), a[1].clone())]
            } else if let Some(mm) = n.as_map() {
                if mm.iter().any(|(k, _)| matches!(k.as_u64(), Some(2) | Some(3))) {
                    return false;
                }
                mm.clone()
            } else {
                return false;
            };
            if m == Mut::InlineDatumOnSpentOutputUnderV1 {
                fields.push((cx::uint(2), cx::array(vec![cx::uint(1), cx::tag(24, cx::bytes(&[0x01]))])));
            } else {
                let script = cx::write(&cx::array(vec![cx::uint(2), cx::bytes(&[0x4d, 0x01, 0x00, 0x00, 0x33, 0x22, 0x22, 0x00, 0x51, 0x20, 0x01, 0x20, 0x01, 0x11])]));
                fields.push((cx::uint(3), cx::tag(24, cx::bytes(&script))));
            }
            w.f.utxos[i].output = cx::write(&cx::map(fields));
            true
        }
    }
}

fn needs_reforge(m: Mut) -> bool {
    matches!(m, Mut::BodyNetworkIdWrong | Mut::OutputNetworkWrong | Mut::WrongTotalCollateral | Mut::DropScriptReference | Mut::WrongAuxHash | Mut::AuxDataWithoutHash | Mut::HashWithoutAuxData | Mut::WrongScriptDataHash)
}

fn check(c: &Case, obs: &mut Obs) -> Result<(), Fail> {
    let era = c.spec.era;
    let base = match forge::forge(&c.spec) {
        Ok(f) => f,
        Err(_) => {
            obs.discard();
            return Ok(());
        }
    };
    let env0 = pp::env(era, &pp::PpTweak::default());
    if run::validate(era, &base.tx, &base.utxos, &env0) != run::Outcome::Accepted {
        obs.class("base-not-accepted");
        obs.discard();
        return Ok(());
    }
    // a pair must be two different mutators that do not undo each other (flipping the network of the environment
    // and of an output together is consistent again)
    let mut muts: Vec<Mut> = vec![];
    for m in &c.muts {
        if !muts.contains(m) {
            muts.push(*m);
        }
    }
    // ... and so is a transaction with neither the auxiliary data nor its hash
    let aux_cancel = muts.contains(&Mut::AuxDataWithoutHash) && (muts.contains(&Mut::HashWithoutAuxData) || muts.contains(&Mut::DropAuxDataKeepHash));
    if aux_cancel || muts.contains(&Mut::EnvNetworkFlip) && (muts.contains(&Mut::OutputNetworkWrong) || muts.contains(&Mut::BodyNetworkIdWrong)) {
        obs.class("self-cancelling-pair");
        obs.discard();
        return Ok(());
    }
    let c = &Case { spec: c.spec.clone(), muts };
    // body-level mutators first (they need re-signing), then the rest on the re-forged transaction
    let mut w = World { tx: base.tx.clone(), f: base, ppt: pp::PpTweak::default(), tw: Tweaks::default() };
    let mut applied = vec![];
    for m in c.muts.iter().filter(|m| needs_reforge(**m)) {
        if apply(*m, &c.spec, &mut w) {
            applied.push(*m);
        }
    }
    if !applied.is_empty() {
        match forge::forge_with(&c.spec, &w.tw) {
            Ok(f) => {
                w.tx = f.tx.clone();
                w.f = f;
            }
            Err(_) => {
                obs.discard();
                return Ok(());
            }
        }
    }
    for m in c.muts.iter().filter(|m| !needs_reforge(**m)) {
        if apply(*m, &c.spec, &mut w) {
            applied.push(*m);
        }
    }
    if applied.is_empty() {
        obs.class("no-mutator-applicable");
        obs.discard();
        return Ok(());
    }
    let env = pp::env(era, &w.ppt);
    let r = run::validate(era, &w.tx, &w.f.utxos, &env);
    for m in &applied {
        obs.class(format!("{:?}:{}", m, era.name()));
    }
    if let run::Outcome::Undecodable(_) = r {
        obs.class("mutant-undecodable");
        obs.discard();
        return Ok(());
    }
    let era_fam = if era <= EraK::Mary { "shelley_ma" } else { era.name() };
    // one root cause gets one signature: the Babbage / Conway validators run the collateral rules only when the
    // witness set holds a Plutus script, so every collateral rule is skipped for a script supplied by reference
    let collateral_family = |m: &Mut| {
        matches!(m, Mut::RemoveCollateralUtxo | Mut::NoCollateralAllowed | Mut::CollateralToScriptAddress | Mut::CollateralWithAssets | Mut::CollateralTooSmall
            | Mut::CollateralJustBelowMinimum | Mut::RaiseCollateralPercentage | Mut::PercentageJustAboveCollateral | Mut::WrongTotalCollateral)
    };
    let sig = if w.f.script_by_reference && applied.iter().all(collateral_family) {
        format!("collateral-rules-skipped:{}:script-by-reference", era_fam)
    } else {
        format!("rule-not-enforced:{}:{}", era_fam, applied.iter().map(|m| format!("{m:?}")).collect::<Vec<_>>().join("+"))
    };
    pv_ensure!(matches!(r, run::Outcome::Rejected(_)), sig, "an accepted {} transaction is still accepted after {:?}", era.name(), applied);
    obs.nontrivial();
    Ok(())
}

/// Make the recipe one the mutator applies to (construction instead of rejection): the era is moved into the range
/// where the rule exists and the optional part the rule is about is switched on. Everything else stays as generated.
fn fit(mut spec: Spec, m: Mut, spare: &forge::PlutusS, salt: u8) -> Spec {
    let later = |from: EraK, salt: u8| -> EraK {
        let all = EraK::all();
        let lo = all.iter().position(|e| *e == from).unwrap();
        all[lo + (salt as usize) % (all.len() - lo)]
    };
    let need_plutus = matches!(
        m,
        Mut::NoCollateralAllowed | Mut::CollateralToScriptAddress | Mut::CollateralWithAssets | Mut::CollateralTooSmall | Mut::RaiseCollateralPercentage
            | Mut::CollateralJustBelowMinimum | Mut::PercentageJustAboveCollateral | Mut::WrongTotalCollateral | Mut::DropPlutusScript | Mut::DropDatum | Mut::DropRedeemer | Mut::WrongScriptDataHash | Mut::RemoveCollateralUtxo
            | Mut::AlterCostModel | Mut::DropCostModel | Mut::DropScriptReference | Mut::InlineDatumOnSpentOutputUnderV1 | Mut::ScriptRefOnSpentOutputUnderV1
    );
    if need_plutus {
        let from = match m {
            Mut::AlterCostModel | Mut::DropCostModel => EraK::Conway,
            Mut::WrongTotalCollateral | Mut::DropScriptReference => EraK::Babbage,
            _ => EraK::Alonzo,
        };
        if spec.era < from {
            spec.era = later(from, salt);
        }
        if spec.plutus.is_none() {
            spec.plutus = Some(spare.clone());
        }
        if m == Mut::WrongTotalCollateral {
            if let Some(p) = &mut spec.plutus {
                p.total_collateral = true;
            }
        }
        if m == Mut::CollateralJustBelowMinimum {
            if let Some(p) = &mut spec.plutus {
                p.total_collateral = false;
            }
        }
        // the collateral mutators edit one collateral entry: keep it the only one
        if matches!(m, Mut::CollateralToScriptAddress | Mut::CollateralWithAssets | Mut::CollateralTooSmall | Mut::CollateralJustBelowMinimum | Mut::PercentageJustAboveCollateral) {
            if let Some(p) = &mut spec.plutus {
                p.second_collateral = false;
            }
        }
        if matches!(m, Mut::InlineDatumOnSpentOutputUnderV1 | Mut::ScriptRefOnSpentOutputUnderV1) {
            spec.era = EraK::Babbage;
            if let Some(p) = &mut spec.plutus {
                p.version = 1;
                p.via_reference = false;
            }
        }
        if m == Mut::DropScriptReference {
            if let Some(p) = &mut spec.plutus {
                p.via_reference = true;
                if spec.era == EraK::Babbage {
                    p.version = 2; // PlutusV1 cannot be combined with reference inputs in Babbage
                }
            }
        }
    }
    match m {
        Mut::AlterAuxDataKeepHash | Mut::WrongAuxHash | Mut::DropAuxDataKeepHash | Mut::AuxDataWithoutHash | Mut::HashWithoutAuxData => {
            if spec.metadata.is_none() {
                spec.metadata = Some(salt);
            }
        }
        Mut::SlotBeforeValidityStart => {
            if spec.era < EraK::Alonzo {
                spec.era = later(EraK::Alonzo, salt);
            }
            if spec.validity_back.is_none() {
                spec.validity_back = Some(1 + salt as u16 * 7);
            }
        }
        Mut::LowerMaxValueSize | Mut::BodyNetworkIdWrong => {
            if spec.era < EraK::Alonzo {
                spec.era = later(EraK::Alonzo, salt);
            }
            if m == Mut::BodyNetworkIdWrong {
                spec.body_network_id = true;
            }
        }
        Mut::MinAdaCoversOnlyTheCoin => {
            if spec.era < EraK::Babbage {
                spec.era = later(EraK::Babbage, salt);
            }
            // the first of at least two outputs holds the smallest coin the generator draws and takes (almost) all assets
            while spec.outputs.len() < 2 {
                let o = spec.outputs[0].clone();
                spec.outputs.push(o);
            }
            spec.outputs[0].coin = 2_500_000;
            spec.outputs[0].asset_share = 255;
            if spec.inputs.iter().all(|i| i.assets.is_empty()) {
                spec.inputs[0].assets.push((salt % 3, salt % 6, 1 + salt as u64 * 1000));
            }
            spec.mint.retain(|m| m.2 > 0);
            spec.legacy_outputs = salt % 3 != 0;
        }
        Mut::RemoveReferenceUtxo => {
            if spec.era < EraK::Babbage {
                spec.era = later(EraK::Babbage, salt);
            }
            if spec.ref_inputs == 0 {
                spec.ref_inputs = 1 + salt % 2;
            }
            if spec.era == EraK::Babbage {
                if let Some(p) = &mut spec.plutus {
                    p.version = 2;
                }
            }
        }
        Mut::DropOneOfSeveralNativeScripts => {
            if spec.era < EraK::Mary {
                spec.era = later(EraK::Mary, salt);
            }
            // two different policies, minted (burns need the asset among the inputs)
            spec.mint.retain(|x| x.2 > 0);
            for p in 0..2u8 {
                if !spec.mint.iter().any(|x| x.0 == p) {
                    spec.mint.push((p, salt % 6, 1 + salt as i64));
                }
            }
        }
        Mut::DropNativeScriptOfMint => {
            if spec.era < EraK::Mary {
                spec.era = later(EraK::Mary, salt);
            }
            if spec.mint.iter().all(|x| x.2 == 0) {
                spec.mint.push((salt % 3, salt % 6, 1 + salt as i64));
            }
        }
        _ => {}
    }
    spec
}

pub fn run(s: &Session) {
    s.set_rule("accepted TxForge transactions of every post-Byron era under 33 rule-specific mutators (empty inputs; spent / \
        collateral UTxO entry removed; slot past ttl / before validity start; minimum ada raised; maximum value size lowered; \
        network id of the environment, of the body, of an output flipped; collateral count limit, kind, amount (far below and exactly one lovelace below the minimum), percentage (far above and \
        exactly one point above what the collateral covers), annotation; reference input missing from the UTxO, script reference dropped; native scripts of a mint (all, or one of several), Plutus script, datum, redeemer dropped; auxiliary data altered / dropped with the \
        hash kept, wrong hash, data without a hash in the body, hash without data; wrong script-data hash; cost model altered / removed). Body-level mutators are re-signed. \
        Singles exhaustively per generated transaction (every applicable mutator alone) and random pairs. Oracle: validation \
        fails. Non-trivial = a mutator applied to an accepted base; distinct = distinct (recipe, mutators)");
    s.assume("mutators only exist for rules the validator of that era implements (e.g. the validity-interval lower bound from Alonzo on)");
    // singles: every mutator alone on each generated transaction
    s.forall(
        "single-mutators",
        s.pick(40_000, 800_000),
        || (gen::spec(), 0usize..ALL.len(), gen::plutus_s(), any::<u8>()).prop_map(|(spec, i, spare, salt)| Case { spec: fit(spec, ALL[i], &spare, salt), muts: vec![ALL[i]] }),
        check,
    );
    s.forall(
        "mutator-pairs",
        s.pick(20_000, 400_000),
        || {
            (gen::spec(), 0usize..ALL.len(), 0usize..ALL.len(), gen::plutus_s(), any::<u8>())
                .prop_map(|(spec, i, j, spare, salt)| Case { spec: fit(fit(spec, ALL[i], &spare, salt), ALL[j], &spare, salt), muts: vec![ALL[i], ALL[j]] })
        },
        check,
    );
    if !s.replaying() {
        for m in ALL {
            let n: u64 = forge::EraK::all().iter().map(|e| s.class_count(&format!("{:?}:{}", m, e.name()))).sum();
            s.health(n > 0, &format!("mutator {m:?} never applied"));
        }
    }
}
