//! C39 — sequence validation updates the certificate state atomically (DESIGN §C39).
use crate::forge::{self, key, EraK, InS, OutS, Spec, Tweaks};
use crate::{pp, run};
use pallas_codec::minicbor;
use pallas_primitives::alonzo::StakeCredential;
use pallas_traverse::MultiEraTx;
use pallas_validate::phase1::{validate_tx, validate_txs};
use pallas_validate::utils::CertState;
use proptest::prelude::*;
use pvkit::{pv_ensure, Fail, Obs, Session};
use serde::{Deserialize, Serialize};
use std::collections::BTreeMap;

#[derive(Debug, Clone, Serialize, Deserialize)]
pub struct TxR {
    key: u8,
    coin: u64,
    /// (registration?, stake key)
    certs: Vec<(bool, u8)>,
    /// break value preservation (the transaction is invalid for a reason unrelated to certificates)
    unbalanced: bool,
    /// re-registrations of the pool the rich initial state holds (0x71), each with its own cost (340 ada + n)
    #[serde(default)]
    pool_updates: Vec<u16>,
}

#[derive(Debug, Clone, Serialize, Deserialize)]
pub struct Case {
    era: EraK,
    /// stake keys registered before the call, with their reward balance
    registered: Vec<(u8, u64)>,
    txs: Vec<TxR>,
    /// the rest of the initial state: (goes to the treasury pot?, key, lovelace) instantaneous rewards, delegations of
    /// registered keys, pointers, genesis delegations, pools — every map of the certificate state starts non-empty
    #[serde(default)]
    mir: Vec<(bool, u8, u64)>,
    #[serde(default)]
    rich: bool,
}

fn cred(k: u8) -> StakeCredential {
    StakeCredential::AddrKeyhash(key(k).hash.into())
}

/// The initial certificate state, built from the recipe each time it is needed: the reference copies are never made
/// with `Clone` (the code under test clones the state and writes it back, so a cloned reference would share its mistakes).
fn mk_initial(c: &Case) -> CertState {
    use pallas_validate::utils::{CertPointer, PoolParam};
    let mut st = CertState::default();
    for (k, r) in &c.registered {
        st.dstate.rewards.insert(cred(*k), *r);
    }
    for (treasury, k, v) in &c.mir {
        if *treasury {
            st.dstate.inst_rewards.1.insert(cred(*k), *v);
        } else {
            st.dstate.inst_rewards.0.insert(cred(*k), *v);
        }
    }
    if c.rich {
        for (i, (k, _)) in c.registered.iter().enumerate() {
            st.dstate.delegations.insert(cred(*k), [0x50 + i as u8; 28].into());
            st.dstate.ptrs.insert(CertPointer { slot: 1_000 + *k as u64, tx_ix: 0, cert_ix: *k as u32 }, cred(*k));
        }
        st.dstate.gen_delegs.insert(vec![0x61; 28].into(), (vec![0x62; 28].into(), [0x63u8; 32].into()));
        st.dstate.fut_gen_delegs.insert((77, vec![0x64; 28].into()), (vec![0x65; 28].into(), [0x66u8; 32].into()));
        let pool = |b: u8| PoolParam {
            vrf_keyhash: [b; 32].into(),
            pledge: 1_000 + b as u64,
            cost: 340_000_000,
            margin: pallas_primitives::RationalNumber { numerator: 1, denominator: 20 },
            reward_account: vec![0xe1; 29].into(),
            pool_owners: vec![[b; 28].into()],
            relays: vec![],
            pool_metadata: None,
        };
        st.pstate.pool_params.insert([0x71; 28].into(), pool(1));
        st.pstate.fut_pool_params.insert([0x72; 28].into(), pool(2));
        st.pstate.retiring.insert([0x73; 28].into(), 300);
    }
    st
}

/// canonical rendering of a certificate state (the maps are hash maps)
fn snapshot(cs: &CertState) -> String {
    let mut rewards: Vec<String> = cs.dstate.rewards.iter().map(|(k, v)| format!("{k:?}={v}")).collect();
    rewards.sort();
    let mut deleg: Vec<String> = cs.dstate.delegations.iter().map(|(k, v)| format!("{k:?}->{v}")).collect();
    deleg.sort();
    let mut ptrs: Vec<String> = cs.dstate.ptrs.iter().map(|(p, c)| format!("({},{},{})->{c:?}", p.slot, p.tx_ix, p.cert_ix)).collect();
    ptrs.sort();
    let mut pools: Vec<String> = cs.pstate.pool_params.keys().map(|k| k.to_string()).collect();
    pools.sort();
    let mut fpools: Vec<String> = cs.pstate.fut_pool_params.iter().map(|(k, p)| format!("{k}:cost={},pledge={}", p.cost, p.pledge)).collect();
    fpools.sort();
    let mut retiring: Vec<String> = cs.pstate.retiring.iter().map(|(k, e)| format!("{k}@{e}")).collect();
    retiring.sort();
    let mut fgd: Vec<String> = cs.dstate.fut_gen_delegs.iter().map(|(k, v)| format!("{k:?}->{v:?}")).collect();
    fgd.sort();
    let mut gd: Vec<String> = cs.dstate.gen_delegs.iter().map(|(k, v)| format!("{k:?}->{v:?}")).collect();
    gd.sort();
    let mut ir0: Vec<String> = cs.dstate.inst_rewards.0.iter().map(|(k, v)| format!("{k:?}={v}")).collect();
    ir0.sort();
    let mut ir1: Vec<String> = cs.dstate.inst_rewards.1.iter().map(|(k, v)| format!("{k:?}={v}")).collect();
    ir1.sort();
    format!("rewards{rewards:?} deleg{deleg:?} ptrs{ptrs:?} pools{pools:?} fpools{fpools:?} retiring{retiring:?} fgd{fgd:?} gd{gd:?} ir{ir0:?}{ir1:?}")
}

fn check(c: &Case, obs: &mut Obs) -> Result<(), Fail> {
    // forge the transactions; inputs of transaction i live under their own tx id so they do not collide
    let mut forged = vec![];
    let mut utxos = vec![];
    for (i, t) in c.txs.iter().enumerate() {
        let spec = Spec {
            era: c.era,
            inputs: vec![InS { key: t.key, coin: t.coin, assets: vec![], txid: 0x10 + i as u8, idx: 0 }],
            outputs: vec![OutS { key: t.key, coin: 3_000_000, asset_share: 0 }, OutS { key: t.key, coin: 0, asset_share: 0 }],
            mint: vec![],
            metadata: None,
            ttl_slack: Some(500),
            validity_back: None,
            body_network_id: false,
            req_signers: vec![],
            plutus: None,
            legacy_outputs: true,
            extra_fee: 0,
            certs: t.certs.clone(),
            aux_form: 0,
            early_multiasset: false,
            ref_inputs: 0,
            donation: None,
            pool_updates: if c.rich { t.pool_updates.iter().map(|n| (0x71u8, 340_000_000 + *n as u64)).collect() } else { vec![] },
        };
        let tw = Tweaks { change_delta: if t.unbalanced { 1 } else { 0 }, ..Default::default() };
        match forge::forge_with(&spec, &tw) {
            Ok(f) => {
                utxos.extend(f.utxos.clone());
                forged.push(f);
            }
            Err(_) => {
                obs.discard();
                return Ok(());
            }
        }
    }
    let env = pp::env(c.era, &pp::PpTweak::default());
    let um = run::build_utxos(&utxos).map_err(|e| Fail { sig: "harness:utxo".into(), msg: e })?;
    let decoded: Vec<pallas_primitives::alonzo::Tx> = forged.iter().map(|f| minicbor::decode(&f.tx).expect("forged tx decodes")).collect();
    let metxs: Vec<MultiEraTx> = decoded.iter().map(|t| MultiEraTx::from_alonzo_compatible(t, run::era_of(c.era))).collect();
    let before = snapshot(&mk_initial(c));
    if c.rich || !c.mir.is_empty() {
        obs.class("rich-initial-state");
    }
    // ---- reference 1: fold of the single-transaction rule over a private copy ----
    let mut folded = mk_initial(c);
    let mut fold_ok = true;
    let mut failing_at = None;
    for (i, m) in metxs.iter().enumerate() {
        if validate_tx(m, i as u32, &env, &um, &mut folded).is_err() {
            fold_ok = false;
            failing_at = Some(i);
            break;
        }
    }
    // ---- reference 2: own model of the registered stake keys ----
    let mut model: BTreeMap<u8, u64> = c.registered.iter().cloned().collect();
    let mut model_ok = true;
    'outer: for t in &c.txs {
        if t.unbalanced {
            model_ok = false;
            break;
        }
        for (reg, k) in &t.certs {
            if *reg {
                if model.contains_key(k) {
                    model_ok = false;
                    break 'outer;
                }
                model.insert(*k, 0);
            } else {
                match model.get(k) {
                    Some(0) => {
                        model.remove(k);
                    }
                    _ => {
                        model_ok = false;
                        break 'outer;
                    }
                }
            }
        }
    }
    // The model is a cross-check of the reference, not part of the property: where the single-transaction rule is
    // stricter than the model (e.g. pallas rejects two registrations in one transaction with PointerInUse) the case
    // is still judged against the fold; the disagreement is only counted.
    if fold_ok != model_ok {
        obs.class("fold-and-model-disagree (observation)");
    }
    // ---- the call under test ----
    let mut live = mk_initial(c);
    let r = validate_txs(&metxs, &env, &um, &mut live);
    let after = snapshot(&live);
    if fold_ok {
        pv_ensure!(r.is_ok(), "valid-sequence-rejected", "every transaction passes on its own in order, yet validate_txs fails: {:?}", r);
        pv_ensure!(after == snapshot(&folded), "state-differs-from-in-order-application",
            "after a successful validate_txs the state is {after}, applying the transactions in order gives {}", snapshot(&folded));
        if model_ok {
            let mut keys: Vec<String> = model.iter().map(|(k, v)| format!("{:?}={v}", cred(*k))).collect();
            keys.sort();
            pv_ensure!(after.starts_with(&format!("rewards{keys:?} ")), "registered-keys-differ-from-model",
                "after success the registered stake keys are not the model's: {after} vs {keys:?}");
        }
        // where each transaction sits in the sequence, checked without the single-transaction rule: a registration that is
        // the first certificate of the transaction at position k gets the pointer (slot, k, 0)
        let slot = crate::forge::block_slot(c.era);
        for (k, t) in c.txs.iter().enumerate() {
            if let Some((true, key)) = t.certs.first() {
                let mentions = c.txs.iter().flat_map(|x| x.certs.iter()).filter(|(_, kk)| kk == key).count();
                if mentions != 1 {
                    continue;
                }
                let want = cred(*key);
                let found = live.dstate.ptrs.iter().find(|(p, _)| p.slot == slot && p.tx_ix == k as u32 && p.cert_ix == 0).map(|(_, c)| c.clone());
                pv_ensure!(found.as_ref() == Some(&want), "registration-pointer-not-at-sequence-position",
                    "transaction {k} of the sequence registers {:?} with its first certificate; expected the pointer ({slot}, {k}, 0) for it, found {:?} there (all pointers: {})",
                    want, found, snapshot(&live));
                obs.class("pointer-position-checked");
            }
        }
        // what the re-registrations mean, without the single-transaction rule: the pool's future parameters are those of the
        // last re-registration of the sequence
        if c.rich {
            if let Some(n) = c.txs.iter().flat_map(|t| t.pool_updates.iter()).last() {
                let want = 340_000_000 + *n as u64;
                let op: pallas_primitives::PoolKeyhash = [0x71u8; 28].into();
                let got = live.pstate.fut_pool_params.get(&op).map(|p| p.cost);
                pv_ensure!(got == Some(want), "future-pool-parameters-not-those-of-the-last-re-registration",
                    "the sequence re-registers pool 71.. {} time(s), last with cost {want}; the state's future parameters have cost {:?}",
                    c.txs.iter().map(|t| t.pool_updates.len()).sum::<usize>(), got);
                obs.class(if c.txs.iter().map(|t| t.pool_updates.len()).sum::<usize>() > 1 { "pool-re-registered-more-than-once" } else { "pool-re-registered-once" });
            }
        }
        obs.class("all-valid");
        obs.nontrivial_if(c.txs.iter().any(|t| !t.certs.is_empty() || (c.rich && !t.pool_updates.is_empty())));
    } else {
        pv_ensure!(r.is_err(), "invalid-sequence-accepted", "transaction {failing_at:?} fails on its own but validate_txs returned Ok");
        pv_ensure!(after == before, "state-changed-by-failed-sequence",
            "validate_txs failed (transaction {failing_at:?}) but the caller's state changed from {before} to {after}");
        let state_changing_before = c.txs.iter().take(failing_at.unwrap_or(0)).any(|t| !t.certs.is_empty() || (c.rich && !t.pool_updates.is_empty()));
        obs.class(if state_changing_before { "failure-after-state-change" } else { "failure-first" });
        obs.nontrivial_if(state_changing_before);
    }
    Ok(())
}

fn tx_r() -> impl Strategy<Value = TxR> {
    (0u8..3, 20_000_000u64..60_000_000, prop::collection::vec((any::<bool>(), 10u8..14), 0..3), prop::bool::weighted(0.15),
        prop_oneof![4 => Just(vec![]), 2 => prop::collection::vec(any::<u16>(), 1..=1), 1 => prop::collection::vec(any::<u16>(), 2..=2)])
        .prop_map(|(key, coin, certs, unbalanced, pool_updates)| TxR { key, coin, certs, unbalanced, pool_updates })
}

pub fn run(s: &Session) {
    s.set_rule("sequences of 0..8 TxForge Shelley/Allegra/Mary transactions with and without stake-key registration / \
        deregistration certificates (4 stake keys, so repeats and misses are frequent), some made invalid by breaking value \
        preservation, over a generated initial certificate state (pre-registered keys, some with a reward balance; in most cases also \
        instantaneous rewards in both pots, delegations, pointers, genesis delegations and pools, so that every map starts non-empty; the \
        reference copies are rebuilt from the recipe, never cloned). Oracle: if \
        folding the single-transaction rule over a private copy succeeds (cross-checked against an independent model of the \
        registered keys), validate_txs succeeds and the caller's state equals the folded one (all maps, canonical rendering); \
        otherwise validate_txs fails and the caller's state is unchanged. Non-trivial = a failing transaction placed after a \
        state-changing one, or a successful sequence with certificates");
    s.forall(
        "sequences",
        s.pick(20_000, 400_000),
        || {
            (
                prop::sample::select(vec![EraK::Shelley, EraK::Allegra, EraK::Mary]),
                prop::collection::vec((10u8..14, prop_oneof![3 => Just(0u64), 1 => 1u64..1000]), 0..3),
                prop::collection::vec(tx_r(), 0..8),
                prop::collection::vec((any::<bool>(), 10u8..16, 1u64..5_000_000), 0..4),
                prop::bool::weighted(0.6),
            )
                .prop_map(|(era, mut registered, txs, mir, rich)| {
                    registered.sort();
                    registered.dedup_by_key(|x| x.0);
                    Case { era, registered, txs, mir, rich }
                })
        },
        check,
    );
    if !s.replaying() {
        s.health(s.class_count("failure-after-state-change") > 100, "too few failures after a state-changing transaction");
        s.health(s.class_count("all-valid") > 100, "too few fully valid sequences");
    }
}
