//! TxForge: builds phase-1-acceptable transactions from scratch with harness-owned Ed25519 keys,
//! together with the UTxO entries they spend. Everything is written with cborx (not with the pallas
//! encoders) so that sizes, spans and ids are known independently.
use ed25519_dalek::{Signer, SigningKey};
use pvkit::blake2b::{b224, b256};
use pvkit::cborx::{self as cx, Kind, Node, W};
use serde::{Deserialize, Serialize};

#[derive(Debug, Clone, Copy, PartialEq, Eq, Hash, Serialize, Deserialize)]
pub enum EraK {
    Shelley,
    Allegra,
    Mary,
    Alonzo,
    Babbage,
    Conway,
}

impl EraK {
    pub fn all() -> [EraK; 6] {
        [EraK::Shelley, EraK::Allegra, EraK::Mary, EraK::Alonzo, EraK::Babbage, EraK::Conway]
    }
    pub fn multiasset(self) -> bool {
        self >= EraK::Mary
    }
    pub fn alonzo_plus(self) -> bool {
        self >= EraK::Alonzo
    }
    pub fn babbage_plus(self) -> bool {
        self >= EraK::Babbage
    }
    pub fn name(self) -> &'static str {
        match self {
            EraK::Shelley => "shelley",
            EraK::Allegra => "allegra",
            EraK::Mary => "mary",
            EraK::Alonzo => "alonzo",
            EraK::Babbage => "babbage",
            EraK::Conway => "conway",
        }
    }
}

impl PartialOrd for EraK {
    fn partial_cmp(&self, o: &Self) -> Option<std::cmp::Ordering> {
        Some((*self as u8).cmp(&(*o as u8)))
    }
}

pub const NETWORK_ID: u8 = 1;
pub const BLOCK_SLOT: u64 = 5_281_340;
/// The slot the block under validation is in. The Babbage validator keys its hard-coded cost models on it; Babbage
/// recipes live after mainnet epoch 394, where PlutusV2 exists.
pub fn block_slot(era: EraK) -> u64 {
    if era == EraK::Babbage { 90_000_000 } else { BLOCK_SLOT }
}

pub struct Key {
    pub sk: SigningKey,
    pub pk: [u8; 32],
    pub hash: [u8; 28],
}

pub fn key(i: u8) -> Key {
    let mut seed = [0u8; 32];
    for (j, b) in seed.iter_mut().enumerate() {
        *b = i.wrapping_mul(37).wrapping_add(j as u8).wrapping_add(11);
    }
    let sk = SigningKey::from_bytes(&seed);
    let pk = sk.verifying_key().to_bytes();
    Key { hash: b224(&pk), pk, sk }
}

/// enterprise address (type 6 key / type 7 script) on `NETWORK_ID`
pub fn key_addr(i: u8) -> Vec<u8> {
    let mut a = vec![0x60 | NETWORK_ID];
    a.extend(key(i).hash);
    a
}
pub fn script_addr(hash: &[u8; 28]) -> Vec<u8> {
    let mut a = vec![0x70 | NETWORK_ID];
    a.extend(hash);
    a
}

/// native script `sig key(i)`: [0, keyhash]
pub fn native_script(i: u8) -> Node {
    cx::array(vec![cx::uint(0), cx::bytes(&key(i).hash)])
}
pub fn native_policy(i: u8) -> [u8; 28] {
    let mut p = vec![0u8];
    p.extend(cx::write(&native_script(i)));
    b224(&p)
}

#[derive(Debug, Clone, PartialEq, Serialize, Deserialize)]
pub struct InS {
    pub key: u8,
    pub coin: u64,
    /// (native policy key index, asset name byte, quantity)
    pub assets: Vec<(u8, u8, u64)>,
    pub txid: u8,
    pub idx: u8,
}

#[derive(Debug, Clone, PartialEq, Serialize, Deserialize)]
pub struct OutS {
    pub key: u8,
    pub coin: u64,
    /// share (0..=255 → /256) of every asset still undistributed that this output takes
    pub asset_share: u8,
}

#[derive(Debug, Clone, PartialEq, Serialize, Deserialize)]
pub struct PlutusS {
    /// 1, 2 or 3 (clamped to what the era has)
    pub version: u8,
    pub script_tag: u8,
    pub datum: u8,
    pub coin: u64,
    pub mem: u64,
    pub steps: u64,
    pub collateral_key: u8,
    pub collateral_coin: u64,
    pub collateral_return: bool,
    pub total_collateral: bool,
    /// Conway: redeemers as map
    pub redeemer_map: bool,
    /// Babbage and later: the script is not in the witness set but in the `script_ref` of a reference input
    #[serde(default)]
    pub via_reference: bool,
    /// Alonzo / Babbage: the witness set also carries the other script lists (native, other Plutus versions) as empty arrays
    #[serde(default)]
    pub empty_sibling_lists: bool,
    /// two collateral inputs instead of one: a small one (sorted first) and one with the rest, so that the amount is
    /// only sufficient when every collateral input is counted
    #[serde(default)]
    pub second_collateral: bool,
}

#[derive(Debug, Clone, PartialEq, Serialize, Deserialize)]
pub struct Spec {
    pub era: EraK,
    pub inputs: Vec<InS>,
    pub outputs: Vec<OutS>,
    /// (native policy key index, asset name byte, quantity) — Mary and later
    pub mint: Vec<(u8, u8, i64)>,
    pub metadata: Option<u8>,
    pub ttl_slack: Option<u16>,
    pub validity_back: Option<u16>,
    pub body_network_id: bool,
    pub req_signers: Vec<u8>,
    pub plutus: Option<PlutusS>,
    pub legacy_outputs: bool,
    /// lovelace paid on top of the minimum fee
    pub extra_fee: u32,
    /// Shelley-family only: (true = stake key registration, false = deregistration, key index)
    #[serde(default)]
    pub certs: Vec<(bool, u8)>,
    /// how the auxiliary data is written (only with `metadata`): 0 canonical metadata map; 1 indefinite-length list
    /// inside; 2 indefinite-length maps; 3 non-minimal integer key; 4 the Allegra `[metadata, []]` array form;
    /// 5 the Alonzo `259({0: metadata})` form; 6 form 5 with an indefinite list inside. Forms an era does not know
    /// fall back to `aux_form % 4`.
    #[serde(default)]
    pub aux_form: u8,
    /// let Shelley / Allegra recipes carry native assets and a mint field too (the Shelley-MA validator is one piece
    /// of code for the three eras and reads the field in all of them)
    #[serde(default)]
    pub early_multiasset: bool,
    /// Babbage and later: this many plain reference inputs (field 18) with their own UTxO entries (role "reference")
    #[serde(default)]
    pub ref_inputs: u8,
    /// Conway: treasury donation (body field 22). It is left out of the balance, as the validator's preservation rule
    /// does not count it; it must not be counted as fee either.
    #[serde(default)]
    pub donation: Option<u32>,
    /// Shelley family: pool registration certificates (operator hash byte, cost) placed after the stake certificates.
    /// For an operator that is already registered this is a re-registration: no deposit, the parameters become the
    /// pool's future parameters.
    #[serde(default)]
    pub pool_updates: Vec<(u8, u64)>,
}

#[derive(Debug, Clone)]
pub struct Utxo {
    pub txid: [u8; 32],
    pub idx: u64,
    /// era tag for MultiEraOutput::decode
    pub era: EraK,
    pub output: Vec<u8>,
    pub key_locked_by: Option<u8>,
    pub role: &'static str, // "input" | "collateral"
}

#[derive(Debug, Clone)]
pub struct Forged {
    pub era: EraK,
    /// [body, witness set, true, aux|null]
    pub tx: Vec<u8>,
    pub body: Vec<u8>,
    pub wits: Vec<u8>,
    pub aux: Option<Vec<u8>>,
    pub utxos: Vec<Utxo>,
    pub fee: u64,
    /// the ledger's transaction size: serialized [body, wits, aux|null]
    pub ledger_size: u64,
    pub signers: Vec<u8>,
    pub total_mem: u64,
    pub total_steps: u64,
    pub has_plutus: bool,
    /// the Plutus script is supplied by a reference input, not by the witness set
    pub script_by_reference: bool,
}

pub const KEY_DEPOSIT: u64 = 2_000_000;
pub const MINFEE_A: u64 = 44;
pub const MINFEE_B: u64 = 155_381;

fn txid(b: u8) -> [u8; 32] {
    let mut t = [b; 32];
    t[0] = 0xa0 ^ b;
    t
}

type Assets = std::collections::BTreeMap<([u8; 28], Vec<u8>), i128>;

fn value_node(coin: u64, assets: &Assets, coin_w: Option<W>) -> Node {
    let c = match coin_w {
        Some(w) => cx::node(Kind::UInt(coin, w)),
        None => cx::uint(coin),
    };
    let nz: Vec<(&([u8; 28], Vec<u8>), &i128)> = assets.iter().filter(|(_, q)| **q != 0).collect();
    if nz.is_empty() {
        return c;
    }
    let mut pols: Vec<(Node, Node)> = vec![];
    let mut cur: Option<[u8; 28]> = None;
    let mut inner: Vec<(Node, Node)> = vec![];
    for ((p, n), q) in nz {
        if cur != Some(*p) {
            if let Some(cp) = cur {
                pols.push((cx::bytes(&cp), cx::map(std::mem::take(&mut inner))));
            }
            cur = Some(*p);
        }
        inner.push((cx::bytes(n), cx::int(*q)));
    }
    if let Some(cp) = cur {
        pols.push((cx::bytes(&cp), cx::map(inner)));
    }
    cx::array(vec![c, cx::map(pols)])
}

fn output_node(era: EraK, legacy: bool, addr: &[u8], value: Node, datum_hash: Option<[u8; 32]>) -> Node {
    if era.babbage_plus() && !legacy {
        let mut m = vec![(cx::uint(0), cx::bytes(addr)), (cx::uint(1), value)];
        if let Some(h) = datum_hash {
            m.push((cx::uint(2), cx::array(vec![cx::uint(0), cx::bytes(&h)])));
        }
        cx::map(m)
    } else {
        let mut v = vec![cx::bytes(addr), value];
        if let Some(h) = datum_hash {
            v.push(cx::bytes(&h));
        }
        cx::array(v)
    }
}

fn input_node(t: &[u8; 32], i: u64) -> Node {
    cx::array(vec![cx::bytes(t), cx::uint(i)])
}

/// The language-view blob pallas hard-codes for the Alonzo-era PlutusV1 cost model (mainnet); part of
/// the script-integrity preimage in its Alonzo validator and, before slot 72748820, its Babbage one.
pub const ALONZO_V1_LANGUAGE_VIEW: &str = "a141005901d59f1a000302590001011a00060bc719026d00011a000249f01903e800011a000249f018201a0025cea81971f70419744d186419744d186419744d186419744d186419744d186419744d18641864186419744d18641a000249f018201a000249f018201a000249f018201a000249f01903e800011a000249f018201a000249f01903e800081a000242201a00067e2318760001011a000249f01903e800081a000249f01a0001b79818f7011a000249f0192710011a0002155e19052e011903e81a000249f01903e8011a000249f018201a000249f018201a000249f0182001011a000249f0011a000249f0041a000194af18f8011a000194af18f8011a0002377c190556011a0002bdea1901f1011a000249f018201a000249f018201a000249f018201a000249f018201a000249f018201a000249f018201a000242201a00067e23187600010119f04c192bd200011a000249f018201a000242201a00067e2318760001011a000242201a00067e2318760001011a0025cea81971f704001a000141bb041a000249f019138800011a000249f018201a000302590001011a000249f018201a000249f018201a000249f018201a000249f018201a000249f018201a000249f018201a000249f018201a00330da70101ff";

pub fn plutus_version(era: EraK, want: u8) -> u8 {
    match era {
        EraK::Alonzo => 1,
        // the Babbage validator hard-codes cost-model blobs by network/slot (see babbage_views.rs)
        EraK::Babbage => want.clamp(1, 2),
        EraK::Conway => want.clamp(1, 3),
        _ => 1,
    }
}

pub fn plutus_script_bytes(tag: u8) -> Vec<u8> {
    vec![0x46, 0x01, 0x00, 0x00, 0x22, 0x20, tag]
}

pub fn plutus_script_hash(version: u8, tag: u8) -> [u8; 28] {
    let mut p = vec![version];
    p.extend(plutus_script_bytes(tag));
    b224(&p)
}

pub fn datum_node(d: u8) -> Node {
    // Constr 0 [int d, bytes]
    cx::tag(121, cx::array(vec![cx::uint(d as u64), cx::bytes(&[d, d, d])]))
}

/// Hook to let callers tweak the pieces before signing (body-level mutators of C34/C36/C38).
#[derive(Default, Clone, Debug, Serialize, Deserialize, PartialEq)]
pub struct Tweaks {
    /// override the fee (after everything else was computed); the change output is NOT re-balanced
    pub fee_override: Option<u64>,
    /// add this to the change output's lovelace (can unbalance)
    pub change_delta: i64,
    /// adjust the fee relative to the exact ledger minimum: fee = a*size+b + delta, change re-balanced
    pub fee_vs_min: Option<i64>,
    /// extra mint entries that are NOT distributed to outputs (unbalances assets unless compensated)
    pub unbalanced_mint: Vec<(u8, u8, i64)>,
    /// extra (policy,name,qty) put into the change output without a source
    pub phantom_assets: Vec<(u8, u8, u64)>,
    /// drop the vkey witness of this signer / corrupt it (C35)
    pub drop_witness: Option<u8>,
    /// annotate a wrong total collateral (Babbage+; needs plutus + total_collateral)
    pub total_collateral_delta: i64,
    /// write the other network id into body field 15
    pub wrong_body_network_id: bool,
    /// make one output's address belong to the other network
    pub wrong_output_network: bool,
    /// put a wrong auxiliary-data hash into the body
    pub wrong_aux_hash: bool,
    /// put a wrong script-data hash into the body
    pub wrong_script_data_hash: bool,
    /// move k times the fee into the change output (k = 1: the fee is declared but not paid)
    #[serde(default)]
    pub change_plus_fee: i8,
    /// distribute assets to the outputs as if the minted amounts had the opposite sign
    #[serde(default)]
    pub mint_sign_flip: bool,
    /// carry the auxiliary data but leave field 7 (its hash) out of the body
    #[serde(default)]
    pub aux_hash_omitted: bool,
    /// announce the hash in the body but carry no auxiliary data (fee and size consistent, unlike stripping it afterwards)
    #[serde(default)]
    pub aux_data_omitted: bool,
    /// write an empty output list and declare everything the inputs hold as the fee (balanced in lovelace, degenerate in shape)
    #[serde(default)]
    pub no_outputs: bool,
    /// script by reference: leave the reference input that carries the script out of field 18 (its UTxO entry stays)
    #[serde(default)]
    pub drop_script_reference: bool,
    /// the first output holds 0 lovelace (its amount goes to the change output instead; still balanced)
    #[serde(default)]
    pub zero_coin_output: bool,
    /// extra (policy,name,qty) put into the FIRST output without a source (only when there are at least two outputs), so
    /// that an asset's total is spread over two outputs
    #[serde(default)]
    pub phantom_first: Vec<(u8, u8, u64)>,
    /// extra native scripts (CBOR items) appended to the witness set's native-script list: nobody needs them, but a
    /// validator evaluates or at least decodes what it is given
    #[serde(default)]
    pub extra_native_scripts: Vec<Vec<u8>>,
    /// the collateral return (Babbage+, needs plutus + collateral_return) carries a one-asset bundle of this quantity
    /// (0 included: the legacy `[address, value]` layout decodes a zero quantity)
    #[serde(default)]
    pub collateral_return_asset: Option<u64>,
}

pub fn forge(spec: &Spec) -> Result<Forged, String> {
    forge_with(spec, &Tweaks::default())
}

pub fn forge_with(spec: &Spec, tw: &Tweaks) -> Result<Forged, String> {
    let era = spec.era;
    if spec.inputs.is_empty() || spec.outputs.is_empty() {
        return Err("need inputs and outputs".into());
    }
    // ---- inputs and their utxo entries ----
    let mut utxos: Vec<Utxo> = vec![];
    let mut total_coin: u128 = 0;
    let mut pool: Assets = Assets::new();
    let mut signers: Vec<u8> = vec![];
    let mut input_refs: Vec<([u8; 32], u64)> = vec![];
    let mut mint_policies: Vec<u8> = vec![];
    let mut ref_refs: Vec<([u8; 32], u64)> = vec![];
    let mut v1_no_refs = false;
    let mut script_by_reference = false;
    for (n, i) in spec.inputs.iter().enumerate() {
        let t = txid(i.txid);
        let ix = i.idx as u64 + (n as u64) * 7; // distinct refs even when the recipe repeats itself
        if input_refs.contains(&(t, ix)) {
            continue;
        }
        let mut a = Assets::new();
        if era.multiasset() || spec.early_multiasset {
            for (p, nm, q) in &i.assets {
                if *q == 0 {
                    continue;
                }
                *a.entry((native_policy(*p), vec![b'a' + (nm % 6)])).or_insert(0) += *q as i128;
            }
        }
        for (k, q) in &a {
            *pool.entry(k.clone()).or_insert(0) += *q;
        }
        total_coin += i.coin as u128;
        let out = output_node(era, spec.legacy_outputs, &key_addr(i.key), value_node(i.coin, &a, None), None);
        utxos.push(Utxo { txid: t, idx: ix, era, output: cx::write(&out), key_locked_by: Some(i.key), role: "input" });
        input_refs.push((t, ix));
        if !signers.contains(&i.key) {
            signers.push(i.key);
        }
    }
    // ---- plutus: one script-locked input + collateral ----
    let mut has_plutus = false;
    let mut plutus_parts: Option<(u8, u8, Node, u64, u64, ([u8; 32], u64), ([u8; 32], u64), u64)> = None;
    if let (Some(p), true) = (&spec.plutus, era.alonzo_plus()) {
        has_plutus = true;
        let ver = plutus_version(era, p.version);
        let sh = plutus_script_hash(ver, p.script_tag);
        let datum = datum_node(p.datum);
        let dh = b256(&cx::write(&datum));
        let t = txid(0xee);
        let sref = (t, 1u64);
        let out = output_node(era, spec.legacy_outputs, &script_addr(&sh), cx::uint(p.coin), Some(dh));
        utxos.push(Utxo { txid: t, idx: 1, era, output: cx::write(&out), key_locked_by: None, role: "input" });
        input_refs.push(sref);
        total_coin += p.coin as u128;
        let ct = txid(0xcc);
        let cref = (ct, 0u64);
        let small = 100_000u64.min(p.collateral_coin / 2);
        // (Babbage and later: the Alonzo validator applies the minimum to every collateral input on its own)
        let two = p.second_collateral && era.babbage_plus();
        let first_coin = if two { small } else { p.collateral_coin };
        let cout = output_node(era, spec.legacy_outputs, &key_addr(p.collateral_key), cx::uint(first_coin), None);
        utxos.push(Utxo { txid: ct, idx: 0, era, output: cx::write(&cout), key_locked_by: Some(p.collateral_key), role: "collateral" });
        if two {
            let cout2 = output_node(era, spec.legacy_outputs, &key_addr(p.collateral_key), cx::uint(p.collateral_coin - small), None);
            utxos.push(Utxo { txid: ct, idx: 1, era, output: cx::write(&cout2), key_locked_by: Some(p.collateral_key), role: "collateral" });
        }
        if !signers.contains(&p.collateral_key) {
            signers.push(p.collateral_key);
        }
        plutus_parts = Some((ver, p.script_tag, datum, p.mem, p.steps, sref, cref, p.collateral_coin));
        v1_no_refs = ver == 1 && era == EraK::Babbage;
        if p.via_reference && era.babbage_plus() && !v1_no_refs {
            // the script travels in the script_ref of a reference input: #6.24(bytes .cbor [language, script bytes])
            let script = cx::array(vec![cx::uint(ver as u64), cx::bytes(&plutus_script_bytes(p.script_tag))]);
            let rout = cx::map(vec![
                (cx::uint(0), cx::bytes(&key_addr(p.collateral_key))),
                (cx::uint(1), cx::uint(4_000_000)),
                (cx::uint(3), cx::tag(24, cx::bytes(&cx::write(&script)))),
            ]);
            let rt = txid(0xdd);
            utxos.push(Utxo { txid: rt, idx: 2, era, output: cx::write(&rout), key_locked_by: Some(p.collateral_key), role: "reference" });
            if !tw.drop_script_reference {
                ref_refs.push((rt, 2));
            }
            script_by_reference = true;
        }
    }
    // PlutusV1 may not be combined with reference inputs (Babbage ledger rule, enforced by pallas)
    if era.babbage_plus() && !v1_no_refs {
        for n in 0..spec.ref_inputs.min(3) {
            let rt = txid(0xd0 + n);
            let rout = output_node(era, spec.legacy_outputs, &key_addr(n), cx::uint(3_000_000 + n as u64), None);
            utxos.push(Utxo { txid: rt, idx: n as u64, era, output: cx::write(&rout), key_locked_by: Some(n), role: "reference" });
            ref_refs.push((rt, n as u64));
        }
    }
    // ---- mint ----
    let mut mint: Assets = Assets::new();
    if era.multiasset() || spec.early_multiasset {
        for (p, nm, q) in spec.mint.iter().chain(tw.unbalanced_mint.iter()) {
            if *q == 0 {
                continue;
            }
            let k = (native_policy(*p), vec![b'a' + (nm % 6)]);
            *mint.entry(k).or_insert(0) += *q as i128;
            if !mint_policies.contains(p) {
                mint_policies.push(*p);
            }
        }
        mint.retain(|_, q| *q != 0);
        // balanced part of the mint goes through the pool (a burn needs the asset to be there)
        for (p, nm, q) in spec.mint.iter() {
            if *q == 0 {
                continue;
            }
            let k = (native_policy(*p), vec![b'a' + (nm % 6)]);
            let e = pool.entry(k).or_insert(0);
            *e += if tw.mint_sign_flip { -(*q as i128) } else { *q as i128 };
        }
        if pool.values().any(|q| *q < 0) {
            return Err("burn exceeds what the inputs hold".into());
        }
        pool.retain(|_, q| *q != 0);
        for p in &mint_policies {
            if !signers.contains(p) {
                signers.push(*p);
            }
        }
    }
    for s in &spec.req_signers {
        if era.alonzo_plus() && !signers.contains(s) {
            signers.push(*s);
        }
    }
    // ---- outputs: distribute assets; the last output is the change ----
    let n_out = spec.outputs.len();
    let mut outs: Vec<(Vec<u8>, u64, Assets)> = vec![];
    let mut remaining = pool.clone();
    let mut spent_coin: u128 = 0;
    for (i, o) in spec.outputs.iter().enumerate() {
        let last = i + 1 == n_out;
        let mut a = Assets::new();
        if last {
            a = remaining.clone();
            for (p, nm, q) in &tw.phantom_assets {
                *a.entry((native_policy(*p), vec![b'a' + (nm % 6)])).or_insert(0) += *q as i128;
            }
        } else if i == 0 && !tw.phantom_first.is_empty() {
            for (p, nm, q) in &tw.phantom_first {
                *a.entry((native_policy(*p), vec![b'a' + (nm % 6)])).or_insert(0) += *q as i128;
            }
        } else if o.asset_share > 0 {
            for (k, q) in remaining.iter_mut() {
                let take = (*q * o.asset_share as i128) / 256;
                if take > 0 {
                    a.insert(k.clone(), take);
                    *q -= take;
                }
            }
            remaining.retain(|_, q| *q != 0);
        }
        if !last {
            spent_coin += o.coin as u128;
        }
        outs.push((key_addr(o.key), o.coin, a));
    }
    // ---- auxiliary data ----
    let aux: Option<Vec<u8>> = spec.metadata.map(|m| {
        let mut form = spec.aux_form % 7;
        if (form == 4 && era < EraK::Allegra) || (form >= 5 && !era.alonzo_plus()) {
            form %= 4;
        }
        let items = vec![cx::text(&format!("pv-{m}")), cx::uint(m as u64)];
        let list = if form == 1 || form == 6 { cx::array_indef(items) } else { cx::array(items) };
        let inner = vec![(cx::text("msg"), list)];
        let key = if form == 3 { cx::node(pvkit::cborx::Kind::UInt(674, pvkit::cborx::W::B4)) } else { cx::uint(674) };
        let md = if form == 2 { cx::map_indef(vec![(key, cx::map_indef(inner))]) } else { cx::map(vec![(key, cx::map(inner))]) };
        let node = match form {
            4 => cx::array(vec![md, cx::array(vec![])]),
            5 | 6 => cx::tag(259, cx::map(vec![(cx::uint(0), md)])),
            _ => md,
        };
        cx::write(&node)
    });
    // ---- witness-set parts that do not depend on the body ----
    let mut wit_extra: Vec<(u64, Node)> = vec![];
    if !mint_policies.is_empty() || !tw.extra_native_scripts.is_empty() {
        let mut scripts: Vec<Node> = mint_policies.iter().map(|p| native_script(*p)).collect();
        for b in &tw.extra_native_scripts {
            if let Ok(n) = cx::read(b) {
                scripts.push(n);
            }
        }
        wit_extra.push((1, cx::array(scripts)));
    }
    let mut total_mem = 0u64;
    let mut total_steps = 0u64;
    let mut script_data_hash: Option<[u8; 32]> = None;
    let mut collateral_fields: Vec<(u64, Node)> = vec![];
    if let Some((ver, tag, datum, mem, steps, sref, cref, ccoin)) = &plutus_parts {
        // redeemer index = position of the script input among the sorted inputs
        let mut sorted = input_refs.clone();
        sorted.sort();
        let idx = sorted.iter().position(|r| r == sref).unwrap() as u64;
        let red_data = cx::uint(42);
        let exu = cx::array(vec![cx::uint(*mem), cx::uint(*steps)]);
        let as_map = era == EraK::Conway && spec.plutus.as_ref().map(|p| p.redeemer_map).unwrap_or(false);
        let redeemers = if as_map {
            cx::map(vec![(cx::array(vec![cx::uint(0), cx::uint(idx)]), cx::array(vec![red_data, exu]))])
        } else {
            cx::array(vec![cx::array(vec![cx::uint(0), cx::uint(idx), red_data, exu])])
        };
        total_mem = *mem;
        total_steps = *steps;
        let script_key = match ver { 1 => 3, 2 => 6, _ => 7 };
        let by_ref = era.babbage_plus() && !(*ver == 1 && era == EraK::Babbage) && spec.plutus.as_ref().map(|p| p.via_reference).unwrap_or(false);
        if !by_ref {
            wit_extra.push((script_key, cx::array(vec![cx::bytes(&plutus_script_bytes(*tag))])));
        }
        if spec.plutus.as_ref().map(|p| p.empty_sibling_lists).unwrap_or(false) && !matches!(era, EraK::Conway) {
            let keys: &[u64] = if era == EraK::Babbage { &[1, 3, 6] } else { &[1, 3] };
            for k in keys {
                if !wit_extra.iter().any(|(x, _)| x == k) {
                    wit_extra.push((*k, cx::array(vec![])));
                }
            }
        }
        wit_extra.push((4, cx::array(vec![datum.clone()])));
        wit_extra.push((5, redeemers.clone()));
        // script integrity hash
        let mut pre = cx::write(&redeemers);
        let datums_def = cx::write(&cx::array(vec![datum.clone()]));
        match era {
            EraK::Alonzo => {
                pre.extend(cx::write(&cx::array_indef(vec![datum.clone()])));
                pre.extend(hex::decode(ALONZO_V1_LANGUAGE_VIEW).unwrap());
                script_data_hash = Some(b256(&pre));
            }
            EraK::Babbage => {
                pre.extend(&datums_def);
                pre.extend(hex::decode(if *ver == 1 { crate::babbage_views::V1_ONLY } else { crate::babbage_views::V2_ONLY }).unwrap());
                script_data_hash = Some(b256(&pre));
            }
            _ => {
                // Conway: language views from the protocol parameters (see pp::conway); canonical encoding
                pre.extend(&datums_def);
                pre.extend(crate::pp::conway_language_view(*ver));
                script_data_hash = Some(b256(&pre));
            }
        }
        let mut coll = vec![input_node(&cref.0, cref.1)];
        if era.babbage_plus() && spec.plutus.as_ref().map(|p| p.second_collateral).unwrap_or(false) {
            coll.push(input_node(&cref.0, 1));
        }
        collateral_fields.push((13, cx::array(coll)));
        if era.babbage_plus() {
            if let Some(p) = &spec.plutus {
                let mut paid = *ccoin;
                if p.collateral_return {
                    let ret = (*ccoin) / 4;
                    paid = *ccoin - ret;
                    let value = match tw.collateral_return_asset {
                        Some(q) => cx::array(vec![
                            cx::uint(ret),
                            cx::map(vec![(cx::bytes(&[0x77u8; 28]), cx::map(vec![(cx::bytes(b"ret"), cx::uint(q))]))]),
                        ]),
                        None => cx::uint(ret),
                    };
                    collateral_fields.push((16, output_node(era, spec.legacy_outputs, &key_addr(p.collateral_key), value, None)));
                }
                if p.total_collateral {
                    collateral_fields.push((17, cx::uint((paid as i64 + tw.total_collateral_delta).max(0) as u64)));
                }
            }
        }
    }
    wit_extra.sort_by_key(|x| x.0);

    // ---- certificates (Shelley family): deposits and refunds enter the balance ----
    let mut cert_nodes: Vec<Node> = vec![];
    let mut deposits: u128 = 0;
    let mut refunds: u128 = 0;
    if !era.alonzo_plus() {
        for (reg, k) in &spec.certs {
            let cred = cx::array(vec![cx::uint(0), cx::bytes(&key(*k).hash)]);
            cert_nodes.push(cx::array(vec![cx::uint(if *reg { 0 } else { 1 }), cred]));
            if *reg {
                deposits += KEY_DEPOSIT as u128;
            } else {
                refunds += KEY_DEPOSIT as u128;
            }
        }
        for (op, cost) in &spec.pool_updates {
            cert_nodes.push(cx::array(vec![
                cx::uint(3),
                cx::bytes(&[*op; 28]),
                cx::bytes(&[*op; 32]),
                cx::uint(1_000 + *cost % 1_000),
                cx::uint(*cost),
                cx::tag(30, cx::array(vec![cx::uint(1), cx::uint(20)])),
                cx::bytes(&[0xe1; 29]),
                cx::array(vec![cx::bytes(&[*op; 28])]),
                cx::array(vec![]),
                cx::null(),
            ]));
        }
    }
    // ---- body builder (fee and change as fixed-width integers so the size does not depend on them) ----
    let mut sorted_inputs = input_refs.clone();
    sorted_inputs.sort();
    let build_body = |fee: u64, change: u64| -> Node {
        let mut m: Vec<(u64, Node)> = vec![];
        m.push((0, cx::array(sorted_inputs.iter().map(|(t, i)| input_node(t, *i)).collect())));
        let mut onodes = vec![];
        for (i, (addr, coin, a)) in outs.iter().enumerate() {
            if tw.no_outputs {
                break;
            }
            let last = i + 1 == n_out;
            let coin = if tw.zero_coin_output && i == 0 && !last { &0u64 } else { coin };
            let v = if last { value_node(change, a, Some(W::B8)) } else { value_node(*coin, a, None) };
            let mut addr = addr.clone();
            if tw.wrong_output_network && i == 0 {
                addr[0] ^= 1;
            }
            onodes.push(output_node(era, spec.legacy_outputs, &addr, v, None));
        }
        m.push((1, cx::array(onodes)));
        m.push((2, cx::node(Kind::UInt(fee, W::B8))));
        let ttl = match (era, spec.ttl_slack) {
            // the Shelley-MA validator demands a ttl in all three eras
            (EraK::Shelley | EraK::Allegra | EraK::Mary, None) => Some(block_slot(era) + 1000),
            (_, Some(s)) => Some(block_slot(era) + s as u64),
            _ => None,
        };
        if let Some(t) = ttl {
            m.push((3, cx::uint(t)));
        }
        if let (Some(a), false) = (&aux, tw.aux_hash_omitted) {
            let mut h = b256(a);
            if tw.wrong_aux_hash {
                h[0] ^= 1;
            }
            m.push((7, cx::bytes(&h)));
        }
        if let (Some(b), true) = (spec.validity_back, era >= EraK::Allegra) {
            m.push((8, cx::uint(block_slot(era) - b as u64)));
        }
        if !mint.is_empty() {
            let v = value_node(0, &mint, None);
            if let Kind::Array(items, _) = v.k {
                m.push((9, items[1].clone()));
            }
        }
        if let Some(mut h) = script_data_hash {
            if tw.wrong_script_data_hash {
                h[5] ^= 0x10;
            }
            m.push((11, cx::bytes(&h)));
        }
        for (k, v) in &collateral_fields {
            m.push((*k, v.clone()));
        }
        if era.alonzo_plus() && !spec.req_signers.is_empty() {
            m.push((14, cx::array(spec.req_signers.iter().map(|s| cx::bytes(&key(*s).hash)).collect())));
        }
        if era.alonzo_plus() && (spec.body_network_id || tw.wrong_body_network_id) {
            m.push((15, cx::uint(if tw.wrong_body_network_id { 1 - NETWORK_ID as u64 } else { NETWORK_ID as u64 })));
        }
        if !cert_nodes.is_empty() {
            m.push((4, cx::array(cert_nodes.clone())));
        }
        if let (Some(d), EraK::Conway) = (spec.donation, era) {
            if d > 0 {
                m.push((22, cx::uint(d as u64)));
            }
        }
        if !ref_refs.is_empty() {
            let mut r = ref_refs.clone();
            r.sort();
            m.push((18, cx::array(r.iter().map(|(t, i)| input_node(t, *i)).collect())));
        }
        m.sort_by_key(|x| x.0);
        cx::map(m.into_iter().map(|(k, v)| (cx::uint(k), v)).collect())
    };
    let build_wits = |body_bytes: &[u8]| -> Node {
        let id = b256(body_bytes);
        let mut m: Vec<(u64, Node)> = vec![];
        let mut vk = vec![];
        for s in &signers {
            if tw.drop_witness == Some(*s) {
                continue;
            }
            let k = key(*s);
            let sig = k.sk.sign(&id).to_bytes();
            vk.push(cx::array(vec![cx::bytes(&k.pk), cx::bytes(&sig)]));
        }
        if !vk.is_empty() {
            m.push((0, cx::array(vk)));
        }
        for (k, v) in &wit_extra {
            m.push((*k, v.clone()));
        }
        m.sort_by_key(|x| x.0);
        cx::map(m.into_iter().map(|(k, v)| (cx::uint(k), v)).collect())
    };
    // size is independent of fee/change values (fixed widths): build once to measure
    let probe_body = cx::write(&build_body(0, 0));
    let probe_wits = cx::write(&build_wits(&probe_body));
    let carried: Option<&Vec<u8>> = if tw.aux_data_omitted { None } else { aux.as_ref() };
    let aux_len = carried.map(|a| a.len() as u64).unwrap_or(1);
    let ledger_size = 1 + probe_body.len() as u64 + probe_wits.len() as u64 + aux_len;
    let min_fee = MINFEE_A * ledger_size + MINFEE_B;
    let mut fee = match tw.fee_vs_min {
        // the exact boundary family of C36
        Some(d) => (min_fee as i64 + d).max(0) as u64,
        // default: safely above what any of the validators' own size notions demand
        None => MINFEE_A * (ledger_size + 4) + MINFEE_B + spec.extra_fee as u64,
    };
    let need = spent_coin + fee as u128 + deposits;
    let total_coin = total_coin + refunds;
    if total_coin < need + 2_000_000 {
        return Err("inputs do not cover outputs + fee + a change output".into());
    }
    let mut change = (total_coin - need) as u64;
    change = (change as i128 + tw.change_delta as i128 + tw.change_plus_fee as i128 * fee as i128).clamp(0, u64::MAX as i128) as u64;
    if tw.zero_coin_output && n_out > 1 {
        change = change.saturating_add(spec.outputs[0].coin);
    }
    if tw.no_outputs {
        fee = (fee as u128 + change as u128 + spent_coin).min(u64::MAX as u128) as u64;
    }
    if let Some(f) = tw.fee_override {
        fee = f;
    }
    let body = cx::write(&build_body(fee, change));
    let wits = cx::write(&build_wits(&body));
    debug_assert_eq!(body.len(), probe_body.len());
    let mut tx = vec![0x84];
    tx.extend(&body);
    tx.extend(&wits);
    tx.push(0xf5);
    match carried {
        Some(a) => tx.extend(a),
        None => tx.push(0xf6),
    }
    let aux = carried.cloned();
    Ok(Forged { era, tx, body, wits, aux, utxos, fee, ledger_size, signers, total_mem, total_steps, has_plutus, script_by_reference })
}
