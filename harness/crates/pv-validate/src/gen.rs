//! proptest strategies for forge specs.
use crate::forge::*;
use proptest::prelude::*;

pub fn era() -> impl Strategy<Value = EraK> {
    prop::sample::select(EraK::all().to_vec())
}

fn in_s() -> impl Strategy<Value = InS> {
    (0u8..4, 20_000_000u64..9_000_000_000, prop::collection::vec((0u8..3, 0u8..6, 1u64..1_000_000), 0..3), 0u8..6, 0u8..4)
        .prop_map(|(key, coin, assets, txid, idx)| InS { key, coin, assets, txid, idx })
}

fn out_s() -> impl Strategy<Value = OutS> {
    (0u8..6, 2_500_000u64..6_000_000, prop_oneof![Just(0u8), any::<u8>()]).prop_map(|(key, coin, asset_share)| OutS { key, coin, asset_share })
}

pub fn plutus_s() -> impl Strategy<Value = PlutusS> {
    (1u8..=3, 0u8..4, any::<u8>(), 3_000_000u64..50_000_000, 0u64..5_000_000, 0u64..2_000_000_000, 0u8..4, 6_000_000u64..40_000_000, any::<bool>(), any::<bool>(),
        (any::<bool>(), prop::bool::weighted(0.35), prop::bool::weighted(0.3), prop::bool::weighted(0.3)))
        .prop_map(|(version, script_tag, datum, coin, mem, steps, collateral_key, collateral_coin, collateral_return, total_collateral, (redeemer_map, via_reference, empty_sibling_lists, second_collateral))| PlutusS {
            version, script_tag, datum, coin, mem, steps, collateral_key, collateral_coin, collateral_return, total_collateral, redeemer_map, via_reference, empty_sibling_lists, second_collateral,
        })
}

pub fn spec_for(era: EraK) -> impl Strategy<Value = Spec> {
    (
        prop::collection::vec(in_s(), 1..4),
        prop::collection::vec(out_s(), 1..4),
        prop::collection::vec((0u8..3, 0u8..6, prop_oneof![1i64..1_000_000, -1000i64..-1]), 0..3),
        prop::option::weighted(0.3, any::<u8>()),
        prop::option::weighted(0.6, 0u16..5000),
        // the lower bound of the validity interval is inclusive: a start exactly at the block's slot (0 back) is valid
        prop::option::weighted(0.3, prop_oneof![1 => Just(0u16), 4 => 0u16..5000]),
        any::<bool>(),
        prop::collection::vec(0u8..6, 0..2),
        prop::option::weighted(0.4, plutus_s()),
        any::<bool>(),
        (0u32..50_000, prop_oneof![3 => Just(0u8), 4 => 1u8..7], prop_oneof![3 => Just(0u8), 2 => 1u8..3], prop::option::weighted(0.3, prop_oneof![Just(1u32), 1u32..5_000_000])),
    )
        .prop_map(move |(inputs, outputs, mint, metadata, ttl_slack, validity_back, body_network_id, req_signers, plutus, legacy_outputs, (extra_fee, aux_form, ref_inputs, donation))| Spec {
            era, inputs, outputs, mint, metadata, ttl_slack, validity_back, body_network_id, req_signers, plutus, legacy_outputs, extra_fee, certs: vec![],
            aux_form, early_multiasset: false, ref_inputs, donation, pool_updates: vec![],
        })
}

pub fn spec() -> impl Strategy<Value = Spec> {
    era().prop_flat_map(spec_for)
}

/// `spec()` plus, for a third of the Shelley / Allegra recipes, native assets and a mint field (the Shelley-MA
/// validator is shared by the three eras). Only for checks that judge nothing about a rejected base (C33, C34).
pub fn spec_early() -> impl Strategy<Value = Spec> {
    (spec(), prop::bool::weighted(0.35)).prop_map(|(mut s, e)| {
        s.early_multiasset = e && s.era < EraK::Mary;
        // the conservation statement (C34) is about transactions without a donation
        s.donation = None;
        s
    })
}
