//! Library part of the pv-validate group: the transaction forge (`forge`, `byron`), the protocol-parameter sets (`pp`),
//! the validation driver (`run`), the independent transaction view (`view`) and the recipe strategies (`gen`) are
//! shared with other groups (C08's end-to-end sub-checks in pv-prim use them).
pub mod babbage_views;
pub mod byron;
pub mod c33;
pub mod c34;
pub mod c35;
pub mod c36;
pub mod c37;
pub mod c38;
pub mod c39;
pub mod forge;
pub mod gen;
pub mod pp;
pub mod run;
pub mod selftest;
pub mod view;
