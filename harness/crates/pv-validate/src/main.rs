mod byron;
mod c33;
mod c34;
mod c35;
mod c36;
mod c37;
mod c38;
mod c39;
mod forge;
mod gen;
mod pp;
mod run;
mod selftest;
mod view;

use pvkit::session::CheckDef;

fn main() {
    pvkit::main(&[
        CheckDef { id: "SELFTEST", level: "exploration", run: selftest::run },
        CheckDef { id: "C33", level: "exploration", run: c33::run },
        CheckDef { id: "C34", level: "exploration", run: c34::run },
        CheckDef { id: "C35", level: "exploration", run: c35::run },
        CheckDef { id: "C36", level: "exploration", run: c36::run },
        CheckDef { id: "C37", level: "exploration", run: c37::run },
        CheckDef { id: "C38", level: "exploration", run: c38::run },
        CheckDef { id: "C39", level: "exploration", run: c39::run },
    ]);
}
