use pv_validate::{c33, c34, c35, c36, c37, c38, c39, selftest};
use pvkit::session::CheckDef;

fn main() {
    pvkit::main(&[
        CheckDef { id: "SELFTEST", level: "exploration", run: selftest::run },
        CheckDef { id: "C33", level: "exploration", run: c33::run },
        CheckDef { id: "C34", level: "exploration", run: c34::run },
        CheckDef { id: "C35", level: "exploration", run: c35::run },
        CheckDef { id: "C36", level: "exploration", run: c36::run },
        CheckDef { id: "C37", level: "exploration", run: c37::run },
        CheckDef { id: "C38", level: "exploration", run: c38::run },
        CheckDef { id: "C39", level: "exploration", run: c39::run },
    ]);
}
