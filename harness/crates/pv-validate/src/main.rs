use pv_validate::{c33, c34, c35, c36, c37, c38, c39, selftest};
use pvkit::session::CheckDef;

/// Seed corpus of the libFuzzer tier (harness/fuzz-validate): forged transactions of every era, each prefixed by the
/// era byte and the byte that selects what the inputs resolve to.
fn write_corpus(dir: &str) {
    use proptest::strategy::{Strategy, ValueTree};
    use proptest::test_runner::{Config, RngAlgorithm, TestRng, TestRunner};
    std::fs::create_dir_all(dir).expect("corpus dir");
    let mut runner = TestRunner::new_with_rng(Config::default(), TestRng::from_seed(RngAlgorithm::ChaCha, &[7u8; 32]));
    let strat = pv_validate::gen::spec_early();
    let mut n = 0;
    for i in 0..600 {
        let spec = strat.new_tree(&mut runner).expect("spec").current();
        let Ok(f) = pv_validate::forge::forge(&spec) else { continue };
        let era = pv_validate::forge::EraK::all().iter().position(|e| *e == spec.era).unwrap() as u8;
        let mut data = vec![era, (i % 8) as u8];
        data.extend(&f.tx);
        std::fs::write(format!("{dir}/forged-{i:04}"), data).expect("write");
        n += 1;
    }
    eprintln!("{n} corpus files written to {dir}");
}

fn main() {
    if let Ok(dir) = std::env::var("PV_VALIDATE_WRITE_CORPUS") {
        write_corpus(&dir);
        return;
    }
    pvkit::main(&[
        CheckDef { id: "SELFTEST", level: "exploration", run: selftest::run },
        CheckDef { id: "C33", level: "exploration", run: c33::run },
        CheckDef { id: "C34", level: "exploration", run: c34::run },
        CheckDef { id: "C35", level: "exploration", run: c35::run },
        CheckDef { id: "C36", level: "exploration", run: c36::run },
        CheckDef { id: "C37", level: "exploration", run: c37::run },
        CheckDef { id: "C38", level: "exploration", run: c38::run },
        CheckDef { id: "C39", level: "exploration", run: c39::run },
    ]);
}
