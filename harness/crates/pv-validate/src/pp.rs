//! Well-known (mainnet-like) protocol parameters per era, as used by the repository's own tests.
use pallas_primitives::alonzo::{ExUnits, Language as AlonzoLanguage, Nonce, NonceVariant, RationalNumber};
use pallas_primitives::conway::{DRepVotingThresholds, PoolVotingThresholds};
use pallas_validate::utils::{
    AccountState, AlonzoProtParams, BabbageProtParams, ConwayProtParams, Environment, MultiEraProtocolParameters,
    ShelleyProtParams,
};
use pvkit::cborx as cx;
use std::collections::BTreeMap;

use crate::forge::{block_slot, EraK, NETWORK_ID};

fn r(n: u64, d: u64) -> RationalNumber {
    RationalNumber { numerator: n, denominator: d }
}
fn start() -> chrono::DateTime<chrono::FixedOffset> {
    chrono::DateTime::parse_from_rfc3339("2017-09-23T21:44:51Z").unwrap()
}
fn nonce() -> Nonce {
    Nonce { variant: NonceVariant::NeutralNonce, hash: None }
}

pub fn cost_model(version: u8) -> Vec<i64> {
    let n = match version { 1 => 166, 2 => 175, _ => 251 };
    (0..n).map(|i| (i as i64 * 977 + version as i64 * 31) % 100_000 - if i % 17 == 0 { 50_000 } else { 0 }).collect()
}

/// Language view of one language as the ledger serialises it for the script-integrity hash.
pub fn conway_language_view(version: u8) -> Vec<u8> {
    let ints: Vec<cx::Node> = cost_model(version).iter().map(|v| cx::int(*v as i128)).collect();
    match version {
        1 => {
            let inner = cx::write(&cx::array_indef(ints));
            cx::write(&cx::map(vec![(cx::bytes(&[0]), cx::bytes(&inner))]))
        }
        v => cx::write(&cx::map(vec![(cx::uint((v - 1) as u64), cx::array(ints))])),
    }
}

#[derive(Clone, Debug, Default)]
pub struct PpTweak {
    pub max_tx_size: Option<u32>,
    pub max_mem: Option<u64>,
    pub max_steps: Option<u64>,
    pub ada_per_utxo_byte: Option<u64>,
    pub min_utxo_value: Option<u64>,
    pub max_value_size: Option<u32>,
    pub max_collateral_inputs: Option<u32>,
    pub collateral_percentage: Option<u32>,
    pub network_id: Option<u8>,
    pub block_slot: Option<u64>,
    pub drop_cost_model: Option<u8>,
    pub alter_cost_model: Option<u8>,
}

pub fn env(era: EraK, t: &PpTweak) -> Environment {
    let max_tx = t.max_tx_size.unwrap_or(16384);
    let exu = ExUnits { mem: t.max_mem.unwrap_or(14_000_000), steps: t.max_steps.unwrap_or(10_000_000_000) };
    let blk = ExUnits { mem: 62_000_000, steps: 40_000_000_000 };
    let prices = pallas_primitives::ExUnitPrices { mem_price: r(577, 10000), step_price: r(721, 10_000_000) };
    let apub = t.ada_per_utxo_byte.unwrap_or(4310);
    let mvs = t.max_value_size.unwrap_or(5000);
    let mci = t.max_collateral_inputs.unwrap_or(3);
    let cp = t.collateral_percentage.unwrap_or(150);
    let cm = |v: u8| -> Option<Vec<i64>> {
        if t.drop_cost_model == Some(v) {
            None
        } else {
            let mut m = cost_model(v);
            if t.alter_cost_model == Some(v) {
                m[3] += 1;
            }
            Some(m)
        }
    };
    let pp = match era {
        EraK::Shelley | EraK::Allegra | EraK::Mary => MultiEraProtocolParameters::Shelley(ShelleyProtParams {
            system_start: start(),
            epoch_length: 432000,
            slot_length: 1,
            minfee_a: 44,
            minfee_b: 155381,
            max_block_body_size: 65536,
            max_transaction_size: max_tx,
            max_block_header_size: 1100,
            key_deposit: 2_000_000,
            pool_deposit: 500_000_000,
            desired_number_of_stake_pools: 150,
            protocol_version: (0, 2),
            min_utxo_value: t.min_utxo_value.unwrap_or(1_000_000),
            min_pool_cost: 340_000_000,
            expansion_rate: r(3, 1000),
            treasury_growth_rate: r(2, 10),
            maximum_epoch: 18,
            pool_pledge_influence: r(3, 10),
            decentralization_constant: r(1, 1),
            extra_entropy: nonce(),
        }),
        EraK::Alonzo => {
            let mut cms = BTreeMap::new();
            if let Some(m) = cm(1) {
                cms.insert(AlonzoLanguage::PlutusV1, m);
            }
            MultiEraProtocolParameters::Alonzo(AlonzoProtParams {
                system_start: start(),
                epoch_length: 432000,
                slot_length: 1,
                minfee_a: 44,
                minfee_b: 155381,
                max_block_body_size: 65536,
                max_transaction_size: max_tx,
                max_block_header_size: 1100,
                key_deposit: 2_000_000,
                pool_deposit: 500_000_000,
                desired_number_of_stake_pools: 500,
                protocol_version: (5, 0),
                min_pool_cost: 340_000_000,
                ada_per_utxo_byte: t.ada_per_utxo_byte.unwrap_or(34482),
                cost_models_for_script_languages: cms,
                execution_costs: prices,
                max_tx_ex_units: exu,
                max_block_ex_units: blk,
                max_value_size: mvs,
                collateral_percentage: cp,
                max_collateral_inputs: mci,
                expansion_rate: r(3, 1000),
                treasury_growth_rate: r(2, 10),
                maximum_epoch: 18,
                pool_pledge_influence: r(3, 10),
                decentralization_constant: r(0, 1),
                extra_entropy: nonce(),
            })
        }
        EraK::Babbage => MultiEraProtocolParameters::Babbage(BabbageProtParams {
            system_start: start(),
            epoch_length: 432000,
            slot_length: 1,
            minfee_a: 44,
            minfee_b: 155381,
            max_block_body_size: 90112,
            max_transaction_size: max_tx,
            max_block_header_size: 1100,
            key_deposit: 2_000_000,
            pool_deposit: 500_000_000,
            desired_number_of_stake_pools: 500,
            protocol_version: (7, 0),
            min_pool_cost: 340_000_000,
            ada_per_utxo_byte: apub,
            cost_models_for_script_languages: pallas_primitives::babbage::CostModels { plutus_v1: cm(1), plutus_v2: cm(2) },
            execution_costs: prices,
            max_tx_ex_units: exu,
            max_block_ex_units: blk,
            max_value_size: mvs,
            collateral_percentage: cp,
            max_collateral_inputs: mci,
            expansion_rate: r(3, 1000),
            treasury_growth_rate: r(2, 10),
            maximum_epoch: 18,
            pool_pledge_influence: r(3, 10),
            decentralization_constant: r(0, 1),
            extra_entropy: nonce(),
        }),
        EraK::Conway => MultiEraProtocolParameters::Conway(ConwayProtParams {
            system_start: start(),
            epoch_length: 432000,
            slot_length: 1,
            minfee_a: 44,
            minfee_b: 155381,
            max_block_body_size: 90112,
            max_transaction_size: max_tx,
            max_block_header_size: 1100,
            key_deposit: 2_000_000,
            pool_deposit: 500_000_000,
            desired_number_of_stake_pools: 500,
            protocol_version: (9, 0),
            min_pool_cost: 340_000_000,
            ada_per_utxo_byte: apub,
            cost_models_for_script_languages: pallas_primitives::conway::CostModels {
                plutus_v1: cm(1),
                plutus_v2: cm(2),
                plutus_v3: cm(3),
                unknown: BTreeMap::new(),
            },
            execution_costs: prices,
            max_tx_ex_units: exu,
            max_block_ex_units: blk,
            max_value_size: mvs,
            collateral_percentage: cp,
            max_collateral_inputs: mci,
            expansion_rate: r(3, 1000),
            treasury_growth_rate: r(2, 10),
            maximum_epoch: 18,
            pool_pledge_influence: r(3, 10),
            pool_voting_thresholds: PoolVotingThresholds {
                motion_no_confidence: r(51, 100),
                committee_normal: r(51, 100),
                committee_no_confidence: r(51, 100),
                hard_fork_initiation: r(51, 100),
                security_voting_threshold: r(51, 100),
            },
            drep_voting_thresholds: DRepVotingThresholds {
                motion_no_confidence: r(67, 100),
                committee_normal: r(67, 100),
                committee_no_confidence: r(6, 10),
                update_constitution: r(75, 100),
                hard_fork_initiation: r(6, 10),
                pp_network_group: r(67, 100),
                pp_economic_group: r(67, 100),
                pp_technical_group: r(67, 100),
                pp_governance_group: r(75, 100),
                treasury_withdrawal: r(67, 100),
            },
            min_committee_size: 7,
            committee_term_limit: 146,
            governance_action_validity_period: 6,
            governance_action_deposit: 100_000_000_000,
            drep_deposit: 500_000_000,
            drep_inactivity_period: 20,
            minfee_refscript_cost_per_byte: r(15, 1),
        }),
    };
    Environment {
        prot_params: pp,
        prot_magic: 764824073,
        block_slot: t.block_slot.unwrap_or(block_slot(era)),
        network_id: t.network_id.unwrap_or(NETWORK_ID),
        acnt: Some(AccountState { treasury: 261_254_564_000_000, reserves: 0 }),
    }
}
