//! Decode a (forged or mutated) transaction with pallas, build the UTxO view and call phase-1.
use crate::forge::{EraK, Utxo};
use pallas_codec::minicbor;
use pallas_primitives::alonzo::TransactionInput;
use pallas_traverse::{Era, MultiEraInput, MultiEraOutput, MultiEraTx};
use pallas_validate::phase1::{validate_tx, validate_txs};
use pallas_validate::utils::{CertState, Environment, UTxOs};
use std::borrow::Cow;

pub fn era_of(e: EraK) -> Era {
    match e {
        EraK::Shelley => Era::Shelley,
        EraK::Allegra => Era::Allegra,
        EraK::Mary => Era::Mary,
        EraK::Alonzo => Era::Alonzo,
        EraK::Babbage => Era::Babbage,
        EraK::Conway => Era::Conway,
    }
}

#[derive(Debug, Clone, PartialEq)]
pub enum Outcome {
    Accepted,
    Rejected(String),
    /// the transaction or a UTxO entry does not decode: outside the domain of phase-1
    Undecodable(String),
}

pub fn build_utxos<'a>(utxos: &'a [Utxo]) -> Result<UTxOs<'a>, String> {
    let mut m: UTxOs<'a> = UTxOs::new();
    for u in utxos {
        let out = MultiEraOutput::decode(era_of(u.era), &u.output).map_err(|e| format!("utxo output: {e}"))?;
        let input = TransactionInput { transaction_id: u.txid.into(), index: u.idx };
        m.insert(MultiEraInput::AlonzoCompatible(Box::new(Cow::Owned(input))), out);
    }
    Ok(m)
}

/// Run phase-1 on `tx` (4-element encoding) of era `era`.
pub fn validate(era: EraK, tx: &[u8], utxos: &[Utxo], env: &Environment) -> Outcome {
    let um = match build_utxos(utxos) {
        Ok(m) => m,
        Err(e) => return Outcome::Undecodable(e),
    };
    let mut cs = CertState::default();
    macro_rules! go {
        ($metx:expr) => {
            match validate_tx(&$metx, 0, env, &um, &mut cs) {
                Ok(()) => Outcome::Accepted,
                Err(e) => Outcome::Rejected(format!("{e:?}")),
            }
        };
    }
    match era {
        EraK::Shelley | EraK::Allegra | EraK::Mary | EraK::Alonzo => match minicbor::decode::<pallas_primitives::alonzo::Tx>(tx) {
            Ok(t) => go!(MultiEraTx::from_alonzo_compatible(&t, era_of(era))),
            Err(e) => Outcome::Undecodable(e.to_string()),
        },
        EraK::Babbage => match minicbor::decode::<pallas_primitives::babbage::Tx>(tx) {
            Ok(t) => go!(MultiEraTx::from_babbage(&t)),
            Err(e) => Outcome::Undecodable(e.to_string()),
        },
        EraK::Conway => match minicbor::decode::<pallas_primitives::conway::Tx>(tx) {
            Ok(t) => go!(MultiEraTx::from_conway(&t)),
            Err(e) => Outcome::Undecodable(e.to_string()),
        },
    }
}

/// Phase-1 on the same transaction with its witness set held as an in-memory value, i.e. a wrapper without retained
/// bytes, the way a transaction assembled in code reaches the validator. The body and the auxiliary data keep their
/// bytes (the metadata-hash rule hashes the retained bytes), so the id and the signatures are unchanged. None when a part would serialise differently from its wire bytes (then it
/// is not the same transaction) or nothing decodes.
pub fn validate_in_memory(era: EraK, tx: &[u8], utxos: &[Utxo], env: &Environment) -> Option<Outcome> {
    use pallas_codec::utils::KeepRaw;
    let um = build_utxos(utxos).ok()?;
    let mut cs = CertState::default();
    macro_rules! rebuild {
        ($t:ident) => {{
            let w = $t.transaction_witness_set.clone().unwrap();
            if minicbor::to_vec(&w).ok()?.as_slice() != $t.transaction_witness_set.raw_cbor() {
                return None;
            }
            $t.transaction_witness_set = KeepRaw::from(w);
        }};
    }
    macro_rules! go {
        ($metx:expr) => {
            Some(match validate_tx(&$metx, 0, env, &um, &mut cs) {
                Ok(()) => Outcome::Accepted,
                Err(e) => Outcome::Rejected(format!("{e:?}")),
            })
        };
    }
    match era {
        EraK::Shelley | EraK::Allegra | EraK::Mary | EraK::Alonzo => {
            let mut t = minicbor::decode::<pallas_primitives::alonzo::Tx>(tx).ok()?;
            rebuild!(t);
            go!(MultiEraTx::from_alonzo_compatible(&t, era_of(era)))
        }
        EraK::Babbage => {
            let mut t = minicbor::decode::<pallas_primitives::babbage::Tx>(tx).ok()?;
            rebuild!(t);
            go!(MultiEraTx::from_babbage(&t))
        }
        EraK::Conway => {
            let mut t = minicbor::decode::<pallas_primitives::conway::Tx>(tx).ok()?;
            rebuild!(t);
            go!(MultiEraTx::from_conway(&t))
        }
    }
}

/// `MultiEraTx::size()` of the transaction (None if it does not decode).
pub fn traverse_size(era: EraK, tx: &[u8]) -> Option<usize> {
    match era {
        EraK::Shelley | EraK::Allegra | EraK::Mary | EraK::Alonzo => {
            minicbor::decode::<pallas_primitives::alonzo::Tx>(tx).ok().map(|t| MultiEraTx::from_alonzo_compatible(&t, era_of(era)).size())
        }
        EraK::Babbage => minicbor::decode::<pallas_primitives::babbage::Tx>(tx).ok().map(|t| MultiEraTx::from_babbage(&t).size()),
        EraK::Conway => minicbor::decode::<pallas_primitives::conway::Tx>(tx).ok().map(|t| MultiEraTx::from_conway(&t).size()),
    }
}

#[allow(dead_code)]
pub fn validate_seq(era: EraK, txs: &[Vec<u8>], utxos: &[Utxo], env: &Environment, cs: &mut CertState) -> Outcome {
    let um = match build_utxos(utxos) {
        Ok(m) => m,
        Err(e) => return Outcome::Undecodable(e),
    };
    let decoded: Result<Vec<pallas_primitives::alonzo::Tx>, _> = txs.iter().map(|t| minicbor::decode::<pallas_primitives::alonzo::Tx>(t)).collect();
    let Ok(decoded) = decoded else { return Outcome::Undecodable("tx".into()) };
    let metxs: Vec<MultiEraTx> = decoded.iter().map(|t| MultiEraTx::from_alonzo_compatible(t, era_of(era))).collect();
    match validate_txs(&metxs, env, &um, cs) {
        Ok(()) => Outcome::Accepted,
        Err(e) => Outcome::Rejected(format!("{e:?}")),
    }
}
