//! Forge health: generated specs must be accepted by phase-1 (otherwise C34..C38 would be vacuous).
use crate::{forge, gen, pp, run};
use pvkit::{pv_fail, Session};

pub fn run(s: &Session) {
    s.set_rule("forge self-test");
    s.forall("forge-accepted", 20_000, gen::spec, |spec, obs| {
        let f = match forge::forge(spec) {
            Ok(f) => f,
            Err(e) => {
                obs.class(format!("unforgeable:{e}"));
                obs.discard();
                return Ok(());
            }
        };
        let env = pp::env(spec.era, &pp::PpTweak::default());
        let sz = run::traverse_size(spec.era, &f.tx);
        if sz != Some(f.ledger_size as usize) {
            pv_fail!("forge-size-mismatch", "ledger size {} vs traverse size {:?}", f.ledger_size, sz);
        }
        match run::validate(spec.era, &f.tx, &f.utxos, &env) {
            run::Outcome::Accepted => {
                obs.class(format!("accepted:{}:{}", spec.era.name(), if f.has_plutus { "plutus" } else { "plain" }));
                let refs = f.utxos.iter().filter(|u| u.role == "reference").count();
                if refs > 0 {
                    obs.class(format!("accepted:{}:reference-inputs", spec.era.name()));
                }
                if let (Some(p), true) = (&spec.plutus, f.has_plutus) {
                    let v = forge::plutus_version(spec.era, p.version);
                    obs.class(format!("accepted:{}:plutus-v{}:{}", spec.era.name(), v, if p.via_reference && spec.era.babbage_plus() && !(v == 1 && spec.era == forge::EraK::Babbage) { "script-by-reference" } else { "script-in-witness-set" }));
                }
                obs.nontrivial();
                Ok(())
            }
            other => pv_fail!(format!("forge-not-accepted:{}:{:?}", spec.era.name(), other), "{:?} for {}", other, hex::encode(&f.tx)),
        }
    });
}
