//! cborx views of transactions and outputs (independent of the pallas decoders).
use pvkit::cborx::{self as cx, Node};
use std::collections::BTreeMap;

pub type Assets = BTreeMap<(Vec<u8>, Vec<u8>), i128>;

#[derive(Debug, Clone, Default)]
pub struct Val {
    pub coin: i128,
    pub assets: Assets,
}

impl Val {
    pub fn add(&mut self, o: &Val) {
        self.coin += o.coin;
        for (k, q) in &o.assets {
            *self.assets.entry(k.clone()).or_insert(0) += *q;
        }
    }
    pub fn normalised(mut self) -> Val {
        self.assets.retain(|_, q| *q != 0);
        self
    }
}

pub fn multiasset_of(n: &Node) -> Option<Assets> {
    let mut a = Assets::new();
    for (p, inner) in n.as_map()? {
        let pol = p.as_bytes()?;
        for (nm, q) in inner.as_map()? {
            *a.entry((pol.clone(), nm.as_bytes()?)).or_insert(0) += q.as_int()?;
        }
    }
    Some(a)
}

pub fn value_of(n: &Node) -> Option<Val> {
    if let Some(c) = n.as_u64() {
        return Some(Val { coin: c as i128, assets: Assets::new() });
    }
    let arr = n.as_array()?;
    if arr.len() != 2 {
        return None;
    }
    Some(Val { coin: arr[0].as_u64()? as i128, assets: multiasset_of(&arr[1])? })
}

/// (address bytes, value) of a transaction output in either the array or the map form
pub fn output_of(n: &Node) -> Option<(Vec<u8>, Val)> {
    if let Some(arr) = n.as_array() {
        return Some((arr.first()?.as_bytes()?, value_of(arr.get(1)?)?));
    }
    let addr = n.map_get(0)?.as_bytes()?;
    Some((addr, value_of(n.map_get(1)?)?))
}

pub struct TxView {
    pub root: Node,
}

impl TxView {
    pub fn parse(tx: &[u8]) -> Option<TxView> {
        let root = cx::read(tx).ok()?;
        if root.as_array()?.len() != 4 {
            return None;
        }
        Some(TxView { root })
    }
    pub fn body(&self) -> &Node {
        &self.root.as_array().unwrap()[0]
    }
    pub fn wits(&self) -> &Node {
        &self.root.as_array().unwrap()[1]
    }
    pub fn inputs(&self, key: u64) -> Vec<(Vec<u8>, u64)> {
        let mut v = vec![];
        if let Some(n) = self.body().map_get(key) {
            if let Some(arr) = n.untagged().as_array() {
                for i in arr {
                    if let Some(p) = i.as_array() {
                        if let (Some(t), Some(ix)) = (p.first().and_then(|x| x.as_bytes()), p.get(1).and_then(|x| x.as_u64())) {
                            v.push((t, ix));
                        }
                    }
                }
            }
        }
        v
    }
    pub fn outputs(&self) -> Vec<(Vec<u8>, Val)> {
        self.body().map_get(1).and_then(|n| n.as_array()).map(|a| a.iter().filter_map(output_of).collect()).unwrap_or_default()
    }
    pub fn fee(&self) -> Option<u64> {
        self.body().map_get(2)?.as_u64()
    }
    pub fn mint(&self) -> Assets {
        self.body().map_get(9).and_then(multiasset_of).unwrap_or_default()
    }
    /// (vkey, signature) pairs of the witness set
    pub fn vkey_witnesses(&self) -> Vec<(Vec<u8>, Vec<u8>)> {
        let mut v = vec![];
        if let Some(n) = self.wits().map_get(0) {
            if let Some(arr) = n.untagged().as_array() {
                for w in arr {
                    if let Some(p) = w.as_array() {
                        if let (Some(k), Some(s)) = (p.first().and_then(|x| x.as_bytes()), p.get(1).and_then(|x| x.as_bytes())) {
                            v.push((k, s));
                        }
                    }
                }
            }
        }
        v
    }
    pub fn required_signers(&self) -> Vec<Vec<u8>> {
        self.body().map_get(14).and_then(|n| n.untagged().as_array().cloned()).map(|a| a.iter().filter_map(|x| x.as_bytes()).collect()).unwrap_or_default()
    }
    pub fn body_bytes<'a>(&self, tx: &'a [u8]) -> &'a [u8] {
        self.body().span(tx)
    }
}

/// Reassemble a 4-element transaction from (possibly edited) parts.
pub fn assemble(body: &[u8], wits: &[u8], valid: bool, aux: Option<&[u8]>) -> Vec<u8> {
    let mut tx = vec![0x84];
    tx.extend(body);
    tx.extend(wits);
    tx.push(if valid { 0xf5 } else { 0xf4 });
    match aux {
        Some(a) => tx.extend(a),
        None => tx.push(0xf6),
    }
    tx
}
