//! Independent, strict, form-preserving CBOR reader/writer (RFC 8949 well-formedness).
//! Shares no code with minicbor. Every syntactic choice of the encoding is kept in the tree:
//! head widths, definite/indefinite lengths, string chunking, tags, simple values, floats.
use serde::{Deserialize, Serialize};

/// Width of the argument in an item head.
#[derive(Clone, Copy, Debug, PartialEq, Eq, Hash, Serialize, Deserialize, PartialOrd, Ord)]
pub enum W {
    Imm,
    B1,
    B2,
    B4,
    B8,
}

impl W {
    pub fn min_for(v: u64) -> W {
        if v < 24 {
            W::Imm
        } else if v <= 0xff {
            W::B1
        } else if v <= 0xffff {
            W::B2
        } else if v <= 0xffff_ffff {
            W::B4
        } else {
            W::B8
        }
    }
    pub fn all() -> [W; 5] {
        [W::Imm, W::B1, W::B2, W::B4, W::B8]
    }
    pub fn fits(self, v: u64) -> bool {
        self >= W::min_for(v)
    }
    /// Widths that can hold `v`.
    pub fn options(v: u64) -> Vec<W> {
        W::all().into_iter().filter(|w| w.fits(v)).collect()
    }
}

#[derive(Clone, Copy, Debug, PartialEq, Eq, Hash, Serialize, Deserialize)]
pub enum Len {
    Def(W),
    Indef,
}

#[derive(Clone, Debug, PartialEq, Eq, Hash, Serialize, Deserialize)]
pub enum Str {
    Def(W, #[serde(with = "hexser")] Vec<u8>),
    /// chunks, each a definite string with its own head width
    Indef(Vec<(W, Vec<u8>)>),
}

impl Str {
    pub fn data(&self) -> Vec<u8> {
        match self {
            Str::Def(_, d) => d.clone(),
            Str::Indef(c) => c.iter().flat_map(|(_, d)| d.iter().copied()).collect(),
        }
    }
}

pub mod hexser {
    use serde::{Deserialize, Deserializer, Serializer};
    pub fn serialize<S: Serializer>(v: &Vec<u8>, s: S) -> Result<S::Ok, S::Error> {
        s.serialize_str(&hex::encode(v))
    }
    pub fn deserialize<'de, D: Deserializer<'de>>(d: D) -> Result<Vec<u8>, D::Error> {
        let s = String::deserialize(d)?;
        hex::decode(s).map_err(serde::de::Error::custom)
    }
}

#[derive(Clone, Debug, PartialEq, Eq, Hash, Serialize, Deserialize)]
pub enum Kind {
    UInt(u64, W),
    /// value is -1 - n
    NInt(u64, W),
    Bytes(Str),
    Text(Str),
    Array(Vec<Node>, Len),
    Map(Vec<(Node, Node)>, Len),
    Tag(u64, W, Box<Node>),
    /// simple value; bool = true when written in the two-byte form (0xf8 xx)
    Simple(u8, bool),
    F16(u16),
    F32(u32),
    F64(u64),
}

/// A data item with the byte span it occupied in the parsed input (0,0 for built nodes).
#[derive(Clone, Debug, Serialize, Deserialize)]
pub struct Node {
    pub k: Kind,
    #[serde(skip)]
    pub s: usize,
    #[serde(skip)]
    pub e: usize,
}

impl PartialEq for Node {
    fn eq(&self, o: &Node) -> bool {
        self.k == o.k
    }
}
impl Eq for Node {}
impl std::hash::Hash for Node {
    fn hash<H: std::hash::Hasher>(&self, h: &mut H) {
        self.k.hash(h)
    }
}

#[derive(Clone, Debug, PartialEq, Eq)]
pub enum Error {
    Eof(usize),
    Reserved(usize),
    BadChunk(usize),
    UnexpectedBreak(usize),
    BadSimple(usize),
    Trailing(usize),
    TooDeep(usize),
}

fn n(k: Kind) -> Node {
    Node { k, s: 0, e: 0 }
}

// ---- builders (canonical / minimal forms) ----
pub fn uint(v: u64) -> Node {
    n(Kind::UInt(v, W::min_for(v)))
}
pub fn nint(v: u64) -> Node {
    n(Kind::NInt(v, W::min_for(v)))
}
/// any integer in -2^64 ..= 2^64-1
pub fn int(v: i128) -> Node {
    if v >= 0 {
        uint(v as u64)
    } else {
        nint((-1 - v) as u64)
    }
}
pub fn bytes(b: &[u8]) -> Node {
    n(Kind::Bytes(Str::Def(W::min_for(b.len() as u64), b.to_vec())))
}
pub fn text(t: &str) -> Node {
    n(Kind::Text(Str::Def(W::min_for(t.len() as u64), t.as_bytes().to_vec())))
}
pub fn array(items: Vec<Node>) -> Node {
    let w = W::min_for(items.len() as u64);
    n(Kind::Array(items, Len::Def(w)))
}
pub fn array_indef(items: Vec<Node>) -> Node {
    n(Kind::Array(items, Len::Indef))
}
pub fn map(items: Vec<(Node, Node)>) -> Node {
    let w = W::min_for(items.len() as u64);
    n(Kind::Map(items, Len::Def(w)))
}
pub fn map_indef(items: Vec<(Node, Node)>) -> Node {
    n(Kind::Map(items, Len::Indef))
}
pub fn tag(t: u64, inner: Node) -> Node {
    n(Kind::Tag(t, W::min_for(t), Box::new(inner)))
}
pub fn null() -> Node {
    n(Kind::Simple(22, false))
}
pub fn undefined() -> Node {
    n(Kind::Simple(23, false))
}
pub fn boolean(b: bool) -> Node {
    n(Kind::Simple(if b { 21 } else { 20 }, false))
}
pub fn node(k: Kind) -> Node {
    n(k)
}

// ---- writer ----
fn head(out: &mut Vec<u8>, major: u8, v: u64, w: W) {
    let m = major << 5;
    match w {
        W::Imm => {
            debug_assert!(v < 24);
            out.push(m | (v as u8));
        }
        W::B1 => {
            out.push(m | 24);
            out.push(v as u8);
        }
        W::B2 => {
            out.push(m | 25);
            out.extend_from_slice(&(v as u16).to_be_bytes());
        }
        W::B4 => {
            out.push(m | 26);
            out.extend_from_slice(&(v as u32).to_be_bytes());
        }
        W::B8 => {
            out.push(m | 27);
            out.extend_from_slice(&v.to_be_bytes());
        }
    }
}

fn write_str(out: &mut Vec<u8>, major: u8, s: &Str) {
    match s {
        Str::Def(w, d) => {
            head(out, major, d.len() as u64, *w);
            out.extend_from_slice(d);
        }
        Str::Indef(chunks) => {
            out.push((major << 5) | 31);
            for (w, d) in chunks {
                head(out, major, d.len() as u64, *w);
                out.extend_from_slice(d);
            }
            out.push(0xff);
        }
    }
}

pub fn write_into(out: &mut Vec<u8>, node: &Node) {
    match &node.k {
        Kind::UInt(v, w) => head(out, 0, *v, *w),
        Kind::NInt(v, w) => head(out, 1, *v, *w),
        Kind::Bytes(s) => write_str(out, 2, s),
        Kind::Text(s) => write_str(out, 3, s),
        Kind::Array(items, len) => {
            match len {
                Len::Def(w) => head(out, 4, items.len() as u64, *w),
                Len::Indef => out.push(0x9f),
            }
            for i in items {
                write_into(out, i);
            }
            if *len == Len::Indef {
                out.push(0xff);
            }
        }
        Kind::Map(items, len) => {
            match len {
                Len::Def(w) => head(out, 5, items.len() as u64, *w),
                Len::Indef => out.push(0xbf),
            }
            for (k, v) in items {
                write_into(out, k);
                write_into(out, v);
            }
            if *len == Len::Indef {
                out.push(0xff);
            }
        }
        Kind::Tag(t, w, inner) => {
            head(out, 6, *t, *w);
            write_into(out, inner);
        }
        Kind::Simple(v, two) => {
            if *two {
                out.push(0xf8);
                out.push(*v);
            } else {
                out.push(0xe0 | *v);
            }
        }
        Kind::F16(b) => {
            out.push(0xf9);
            out.extend_from_slice(&b.to_be_bytes());
        }
        Kind::F32(b) => {
            out.push(0xfa);
            out.extend_from_slice(&b.to_be_bytes());
        }
        Kind::F64(b) => {
            out.push(0xfb);
            out.extend_from_slice(&b.to_be_bytes());
        }
    }
}

pub fn write(node: &Node) -> Vec<u8> {
    let mut out = Vec::new();
    write_into(&mut out, node);
    out
}

// ---- reader ----
struct Rd<'a> {
    b: &'a [u8],
    p: usize,
}

const MAX_DEPTH: usize = 2000;

impl<'a> Rd<'a> {
    fn byte(&mut self) -> Result<u8, Error> {
        let v = *self.b.get(self.p).ok_or(Error::Eof(self.p))?;
        self.p += 1;
        Ok(v)
    }
    fn take(&mut self, n: u64) -> Result<&'a [u8], Error> {
        let n = usize::try_from(n).map_err(|_| Error::Eof(self.p))?;
        let end = self.p.checked_add(n).ok_or(Error::Eof(self.p))?;
        if end > self.b.len() {
            return Err(Error::Eof(self.b.len()));
        }
        let s = &self.b[self.p..end];
        self.p = end;
        Ok(s)
    }
    fn arg(&mut self, ai: u8) -> Result<(u64, W), Error> {
        Ok(match ai {
            0..=23 => (ai as u64, W::Imm),
            24 => (self.byte()? as u64, W::B1),
            25 => {
                let s = self.take(2)?;
                (u16::from_be_bytes([s[0], s[1]]) as u64, W::B2)
            }
            26 => {
                let s = self.take(4)?;
                (u32::from_be_bytes([s[0], s[1], s[2], s[3]]) as u64, W::B4)
            }
            27 => {
                let s = self.take(8)?;
                (u64::from_be_bytes(s.try_into().unwrap()), W::B8)
            }
            _ => return Err(Error::Reserved(self.p - 1)),
        })
    }
    fn string(&mut self, major: u8, ai: u8) -> Result<Str, Error> {
        if ai == 31 {
            let mut chunks = vec![];
            loop {
                let at = self.p;
                let ib = self.byte()?;
                if ib == 0xff {
                    break;
                }
                if ib >> 5 != major || (ib & 31) == 31 {
                    return Err(Error::BadChunk(at));
                }
                let (len, w) = self.arg(ib & 31)?;
                chunks.push((w, self.take(len)?.to_vec()));
            }
            Ok(Str::Indef(chunks))
        } else {
            let (len, w) = self.arg(ai)?;
            Ok(Str::Def(w, self.take(len)?.to_vec()))
        }
    }
    fn item(&mut self, depth: usize) -> Result<Node, Error> {
        if depth > MAX_DEPTH {
            return Err(Error::TooDeep(self.p));
        }
        let s = self.p;
        let ib = self.byte()?;
        let major = ib >> 5;
        let ai = ib & 31;
        let k = match major {
            0 => {
                let (v, w) = self.arg(ai)?;
                Kind::UInt(v, w)
            }
            1 => {
                let (v, w) = self.arg(ai)?;
                Kind::NInt(v, w)
            }
            2 => Kind::Bytes(self.string(2, ai)?),
            3 => Kind::Text(self.string(3, ai)?),
            4 => {
                if ai == 31 {
                    let mut items = vec![];
                    loop {
                        if self.b.get(self.p) == Some(&0xff) {
                            self.p += 1;
                            break;
                        }
                        items.push(self.item(depth + 1)?);
                    }
                    Kind::Array(items, Len::Indef)
                } else {
                    let (len, w) = self.arg(ai)?;
                    let mut items = vec![];
                    for _ in 0..len {
                        items.push(self.item(depth + 1)?);
                    }
                    Kind::Array(items, Len::Def(w))
                }
            }
            5 => {
                if ai == 31 {
                    let mut items = vec![];
                    loop {
                        if self.b.get(self.p) == Some(&0xff) {
                            self.p += 1;
                            break;
                        }
                        let k = self.item(depth + 1)?;
                        let v = self.item(depth + 1)?;
                        items.push((k, v));
                    }
                    Kind::Map(items, Len::Indef)
                } else {
                    let (len, w) = self.arg(ai)?;
                    let mut items = vec![];
                    for _ in 0..len {
                        let k = self.item(depth + 1)?;
                        let v = self.item(depth + 1)?;
                        items.push((k, v));
                    }
                    Kind::Map(items, Len::Def(w))
                }
            }
            6 => {
                let (t, w) = self.arg(ai)?;
                Kind::Tag(t, w, Box::new(self.item(depth + 1)?))
            }
            _ => match ai {
                0..=23 => Kind::Simple(ai, false),
                24 => {
                    let v = self.byte()?;
                    if v < 32 {
                        return Err(Error::BadSimple(self.p - 1));
                    }
                    Kind::Simple(v, true)
                }
                25 => {
                    let s = self.take(2)?;
                    Kind::F16(u16::from_be_bytes([s[0], s[1]]))
                }
                26 => {
                    let s = self.take(4)?;
                    Kind::F32(u32::from_be_bytes(s.try_into().unwrap()))
                }
                27 => {
                    let s = self.take(8)?;
                    Kind::F64(u64::from_be_bytes(s.try_into().unwrap()))
                }
                31 => return Err(Error::UnexpectedBreak(s)),
                _ => return Err(Error::Reserved(s)),
            },
        };
        Ok(Node { k, s, e: self.p })
    }
}

/// Parse exactly one well-formed item that spans the whole input.
pub fn read(b: &[u8]) -> Result<Node, Error> {
    let mut r = Rd { b, p: 0 };
    let node = r.item(0)?;
    if r.p != b.len() {
        return Err(Error::Trailing(r.p));
    }
    Ok(node)
}

/// Parse one item from the front; returns it and the number of bytes used.
pub fn read_prefix(b: &[u8]) -> Result<(Node, usize), Error> {
    let mut r = Rd { b, p: 0 };
    let node = r.item(0)?;
    Ok((node, r.p))
}

// ---- accessors ----
impl Node {
    pub fn span<'a>(&self, src: &'a [u8]) -> &'a [u8] {
        &src[self.s..self.e]
    }
    pub fn as_array(&self) -> Option<&Vec<Node>> {
        match &self.k {
            Kind::Array(v, _) => Some(v),
            _ => None,
        }
    }
    pub fn as_array_mut(&mut self) -> Option<&mut Vec<Node>> {
        match &mut self.k {
            Kind::Array(v, _) => Some(v),
            _ => None,
        }
    }
    pub fn as_map(&self) -> Option<&Vec<(Node, Node)>> {
        match &self.k {
            Kind::Map(v, _) => Some(v),
            _ => None,
        }
    }
    pub fn as_map_mut(&mut self) -> Option<&mut Vec<(Node, Node)>> {
        match &mut self.k {
            Kind::Map(v, _) => Some(v),
            _ => None,
        }
    }
    pub fn as_u64(&self) -> Option<u64> {
        match &self.k {
            Kind::UInt(v, _) => Some(*v),
            _ => None,
        }
    }
    /// integer value of UInt / NInt
    pub fn as_int(&self) -> Option<i128> {
        match &self.k {
            Kind::UInt(v, _) => Some(*v as i128),
            Kind::NInt(v, _) => Some(-1 - (*v as i128)),
            _ => None,
        }
    }
    pub fn as_bytes(&self) -> Option<Vec<u8>> {
        match &self.k {
            Kind::Bytes(s) => Some(s.data()),
            _ => None,
        }
    }
    pub fn as_text(&self) -> Option<Vec<u8>> {
        match &self.k {
            Kind::Text(s) => Some(s.data()),
            _ => None,
        }
    }
    pub fn is_null(&self) -> bool {
        matches!(self.k, Kind::Simple(22, false))
    }
    /// strip any number of tags
    pub fn untagged(&self) -> &Node {
        match &self.k {
            Kind::Tag(_, _, inner) => inner.untagged(),
            _ => self,
        }
    }
    pub fn tag(&self) -> Option<u64> {
        match &self.k {
            Kind::Tag(t, _, _) => Some(*t),
            _ => None,
        }
    }
    /// lookup in a map with unsigned integer keys
    pub fn map_get(&self, key: u64) -> Option<&Node> {
        self.as_map()?.iter().find(|(k, _)| k.as_u64() == Some(key)).map(|(_, v)| v)
    }
    pub fn map_get_mut(&mut self, key: u64) -> Option<&mut Node> {
        self.as_map_mut()?.iter_mut().find(|(k, _)| k.as_u64() == Some(key)).map(|(_, v)| v)
    }
    pub fn map_set(&mut self, key: u64, val: Node) {
        if let Some(slot) = self.map_get_mut(key) {
            *slot = val;
            return;
        }
        if let Kind::Map(items, len) = &mut self.k {
            items.push((uint(key), val));
            if let Len::Def(w) = len {
                if !w.fits(items.len() as u64) {
                    *w = W::min_for(items.len() as u64);
                }
            }
        }
    }
    pub fn map_remove(&mut self, key: u64) -> Option<Node> {
        if let Kind::Map(items, _) = &mut self.k {
            if let Some(i) = items.iter().position(|(k, _)| k.as_u64() == Some(key)) {
                return Some(items.remove(i).1);
            }
        }
        None
    }
    /// Number of nodes in the tree (pre-order count).
    pub fn count(&self) -> usize {
        1 + match &self.k {
            Kind::Array(v, _) => v.iter().map(|c| c.count()).sum(),
            Kind::Map(v, _) => v.iter().map(|(a, b)| a.count() + b.count()).sum(),
            Kind::Tag(_, _, i) => i.count(),
            _ => 0,
        }
    }
    /// Mutable access to the idx-th node in pre-order.
    pub fn nth_mut(&mut self, idx: usize) -> Option<&mut Node> {
        fn go<'a>(n: &'a mut Node, idx: &mut usize) -> Option<&'a mut Node> {
            if *idx == 0 {
                return Some(n);
            }
            *idx -= 1;
            match &mut n.k {
                Kind::Array(v, _) => {
                    for c in v.iter_mut() {
                        if let Some(r) = go(c, idx) {
                            return Some(r);
                        }
                    }
                    None
                }
                Kind::Map(v, _) => {
                    for (a, b) in v.iter_mut() {
                        if let Some(r) = go(a, idx) {
                            return Some(r);
                        }
                        if let Some(r) = go(b, idx) {
                            return Some(r);
                        }
                    }
                    None
                }
                Kind::Tag(_, _, i) => go(i, idx),
                _ => None,
            }
        }
        let mut i = idx;
        go(self, &mut i)
    }
    /// Maximum nesting depth.
    /// The same item with every head written in its shortest form (integers, lengths, tags), definite lengths instead of
    /// indefinite ones and strings in one chunk; order and content are kept.
    pub fn minimal(&self) -> Node {
        let one = |st: &Str| {
            let d = st.data();
            Str::Def(W::min_for(d.len() as u64), d)
        };
        let k = match &self.k {
            Kind::UInt(v, _) => Kind::UInt(*v, W::min_for(*v)),
            Kind::NInt(v, _) => Kind::NInt(*v, W::min_for(*v)),
            Kind::Bytes(st) => Kind::Bytes(one(st)),
            Kind::Text(st) => Kind::Text(one(st)),
            Kind::Array(v, _) => Kind::Array(v.iter().map(|n| n.minimal()).collect(), Len::Def(W::min_for(v.len() as u64))),
            Kind::Map(v, _) => Kind::Map(v.iter().map(|(a, b)| (a.minimal(), b.minimal())).collect(), Len::Def(W::min_for(v.len() as u64))),
            Kind::Tag(t, _, inner) => Kind::Tag(*t, W::min_for(*t), Box::new(inner.minimal())),
            other => other.clone(),
        };
        Node { k, s: 0, e: 0 }
    }

    pub fn depth(&self) -> usize {
        1 + match &self.k {
            Kind::Array(v, _) => v.iter().map(|c| c.depth()).max().unwrap_or(0),
            Kind::Map(v, _) => v.iter().map(|(a, b)| a.depth().max(b.depth())).max().unwrap_or(0),
            Kind::Tag(_, _, i) => i.depth(),
            _ => 0,
        }
    }
    /// True if every syntactic choice in the tree is the canonical one used by ordinary encoders
    /// (minimal heads, definite lengths, unchunked strings).
    pub fn is_plain(&self) -> bool {
        match &self.k {
            Kind::UInt(v, w) | Kind::NInt(v, w) => *w == W::min_for(*v),
            Kind::Bytes(Str::Def(w, d)) | Kind::Text(Str::Def(w, d)) => *w == W::min_for(d.len() as u64),
            Kind::Bytes(_) | Kind::Text(_) => false,
            Kind::Array(v, Len::Def(w)) => *w == W::min_for(v.len() as u64) && v.iter().all(|c| c.is_plain()),
            Kind::Map(v, Len::Def(w)) => {
                *w == W::min_for(v.len() as u64) && v.iter().all(|(a, b)| a.is_plain() && b.is_plain())
            }
            Kind::Array(_, Len::Indef) | Kind::Map(_, Len::Indef) => false,
            Kind::Tag(t, w, i) => *w == W::min_for(*t) && i.is_plain(),
            Kind::Simple(_, two) => !*two,
            _ => true,
        }
    }
}

#[cfg(test)]
mod tests {
    use super::*;
    #[test]
    fn roundtrip_forms() {
        for h in ["00", "1805", "190005", "1b0000000000000005", "9f0102ff", "5f41004101ff", "bf0102ff",
            "d9010280", "f6", "f7", "f820", "f93c00", "8301820203820405", "a201020304", "7f61616161ff", "980100"] {
            let b = hex::decode(h).unwrap();
            let n = read(&b).unwrap();
            assert_eq!(write(&n), b, "{h}");
        }
        for h in ["1c", "ff", "5f00ff", "8201", "f810", "0001", "5f7f61ffff"] {
            assert!(read(&hex::decode(h).unwrap()).is_err(), "{h}");
        }
    }
}
