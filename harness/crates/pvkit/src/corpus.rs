//! Loader for the artefacts in `<repo>/test_data`.
use crate::cborx;
use crate::session::repo_dir;
use std::path::PathBuf;

#[derive(Clone, Debug)]
pub struct Artefact {
    pub name: String,
    /// "block" | "tx" | "header"
    pub kind: String,
    pub bytes: Vec<u8>,
}

pub fn test_data() -> PathBuf {
    repo_dir().join("test_data")
}

/// Every hex-encoded `*.block`, `*.tx`, `*.header` file, sorted by name.
pub fn artefacts() -> Vec<Artefact> {
    let mut out = vec![];
    let mut names: Vec<PathBuf> = std::fs::read_dir(test_data())
        .expect("test_data")
        .filter_map(|e| e.ok().map(|e| e.path()))
        .collect();
    names.sort();
    for p in names {
        let Some(ext) = p.extension().and_then(|e| e.to_str()) else { continue };
        if !matches!(ext, "block" | "tx" | "header") {
            continue;
        }
        let Ok(txt) = std::fs::read_to_string(&p) else { continue };
        let Ok(bytes) = hex::decode(txt.trim()) else { continue };
        out.push(Artefact {
            name: p.file_name().unwrap().to_string_lossy().to_string(),
            kind: ext.to_string(),
            bytes,
        });
    }
    out
}

pub fn by_kind(kind: &str) -> Vec<Artefact> {
    artefacts().into_iter().filter(|a| a.kind == kind).collect()
}

/// Blocks of one immutable-DB chunk file, split with cborx (independent of the index files).
pub fn chunk_blocks(chunk: &str) -> Vec<Vec<u8>> {
    let data = std::fs::read(test_data().join(format!("{chunk}.chunk"))).expect("chunk file");
    let mut out = vec![];
    let mut p = 0;
    while p < data.len() {
        match cborx::read_prefix(&data[p..]) {
            Ok((_, used)) => {
                out.push(data[p..p + used].to_vec());
                p += used;
            }
            Err(_) => break,
        }
    }
    out
}

pub const CHUNKS: [&str; 3] = ["01285", "01836", "02019"];

pub fn all_chunk_blocks() -> Vec<Artefact> {
    let mut out = vec![];
    for c in CHUNKS {
        for (i, b) in chunk_blocks(c).into_iter().enumerate() {
            out.push(Artefact { name: format!("{c}.chunk#{i}"), kind: "block".into(), bytes: b });
        }
    }
    out
}
