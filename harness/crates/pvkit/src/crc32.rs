//! CRC-32/ISO-HDLC, bit by bit (reflected polynomial 0xEDB88320).
pub fn crc32(data: &[u8]) -> u32 {
    let mut crc: u32 = 0xffff_ffff;
    for b in data {
        crc ^= *b as u32;
        for _ in 0..8 {
            crc = if crc & 1 == 1 { (crc >> 1) ^ 0xEDB8_8320 } else { crc >> 1 };
        }
    }
    !crc
}
#[cfg(test)]
mod tests {
    #[test]
    fn check() {
        assert_eq!(super::crc32(b"123456789"), 0xCBF43926);
    }
}
