//! Shared machinery for the pallas verification harness (see /verif/DESIGN.md §1.2).
pub mod blake2b;
pub mod cborx;
pub mod corpus;
pub mod crc32;
pub mod mutate;
pub mod panics;
pub mod session;

pub use session::{main, Fail, Obs, Session, Tier};

/// Fail the current case with a root-cause signature and a message.
#[macro_export]
macro_rules! pv_fail {
    ($sig:expr, $($arg:tt)*) => {
        return Err($crate::Fail { sig: ($sig).to_string(), msg: format!($($arg)*) })
    };
}

/// Assert inside a case.
#[macro_export]
macro_rules! pv_ensure {
    ($cond:expr, $sig:expr, $($arg:tt)*) => {
        if !($cond) {
            return Err($crate::Fail { sig: ($sig).to_string(), msg: format!($($arg)*) });
        }
    };
}

/// Monotone index mapping (shrinks toward the first element).
pub fn pick_idx(sel: u16, len: usize) -> usize {
    if len == 0 {
        return 0;
    }
    ((sel as usize) * len) >> 16
}

pub fn hexs(b: &[u8]) -> String {
    hex::encode(b)
}

/// 64-bit FNV-1a, used for distinctness keys (stable across runs, unlike `DefaultHasher` seeds).
pub fn fnv64(bytes: &[u8]) -> u64 {
    let mut h: u64 = 0xcbf29ce484222325;
    for b in bytes {
        h ^= *b as u64;
        h = h.wrapping_mul(0x100000001b3);
    }
    h
}

pub fn splitmix(mut x: u64) -> u64 {
    x = x.wrapping_add(0x9E3779B97F4A7C15);
    let mut z = x;
    z = (z ^ (z >> 30)).wrapping_mul(0xBF58476D1CE4E5B9);
    z = (z ^ (z >> 27)).wrapping_mul(0x94D049BB133111EB);
    z ^ (z >> 31)
}
