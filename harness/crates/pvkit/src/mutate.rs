//! Structural CBOR mutator on top of cborx: *form* mutations keep the data model (and so the
//! meaning) of an artefact; *damage* mutations corrupt it.
use crate::cborx::{self, Kind, Len, Node, Str, W};
use crate::pick_idx;
use proptest::prelude::*;
use serde::{Deserialize, Serialize};

#[derive(Clone, Debug, Serialize, Deserialize, PartialEq, Eq, Hash)]
pub struct MutOp {
    /// node selector (monotone over the pre-order node list)
    pub sel: u16,
    pub kind: u8,
    pub arg: u64,
}

pub fn mutop() -> impl Strategy<Value = MutOp> {
    (any::<u16>(), any::<u8>(), any::<u64>()).prop_map(|(sel, kind, arg)| MutOp { sel, kind, arg })
}

pub fn mutops(max: usize) -> impl Strategy<Value = Vec<MutOp>> {
    proptest::collection::vec(mutop(), 1..=max)
}

fn widen(v: u64, w: &mut W, arg: u64) -> bool {
    let opts = W::options(v);
    let cand: Vec<W> = opts.into_iter().filter(|o| o != w).collect();
    if cand.is_empty() {
        return false;
    }
    *w = cand[(arg as usize) % cand.len()];
    true
}

pub const FORM_KINDS: [&str; 6] = ["widen-head", "def-indef", "chunk-string", "reorder-map", "set-tag", "widen-len"];

/// Apply one form mutation of the requested family to the selected node. Returns the family name
/// if something changed.
pub fn apply_form(root: &mut Node, op: &MutOp, allowed: &[&'static str]) -> Option<&'static str> {
    if allowed.is_empty() {
        return None;
    }
    let total = root.count();
    let fam = allowed[(op.kind as usize) % allowed.len()];
    // scan forward from the selected node until one accepts this family
    let start = pick_idx(op.sel, total);
    for off in 0..total {
        let idx = (start + off) % total;
        let node = root.nth_mut(idx).unwrap();
        let ok = match (fam, &mut node.k) {
            ("widen-head", Kind::UInt(v, w)) | ("widen-head", Kind::NInt(v, w)) => widen(*v, w, op.arg),
            ("widen-head", Kind::Tag(t, w, _)) => widen(*t, w, op.arg),
            ("widen-len", Kind::Bytes(Str::Def(w, d))) | ("widen-len", Kind::Text(Str::Def(w, d))) => {
                widen(d.len() as u64, w, op.arg)
            }
            ("widen-len", Kind::Array(v, Len::Def(w))) => widen(v.len() as u64, w, op.arg),
            ("widen-len", Kind::Map(v, Len::Def(w))) => widen(v.len() as u64, w, op.arg),
            ("def-indef", Kind::Array(v, len)) => {
                *len = match len {
                    Len::Def(_) => Len::Indef,
                    Len::Indef => Len::Def(W::min_for(v.len() as u64)),
                };
                true
            }
            ("def-indef", Kind::Map(v, len)) => {
                *len = match len {
                    Len::Def(_) => Len::Indef,
                    Len::Indef => Len::Def(W::min_for(v.len() as u64)),
                };
                true
            }
            ("chunk-string", Kind::Bytes(s)) | ("chunk-string", Kind::Text(s)) => match s {
                Str::Def(_, d) => {
                    let cut = if d.is_empty() { 0 } else { (op.arg as usize) % (d.len() + 1) };
                    let (a, b) = d.split_at(cut);
                    let mut chunks = vec![(W::min_for(a.len() as u64), a.to_vec())];
                    if op.arg & (1 << 40) == 0 || !b.is_empty() {
                        chunks.push((W::min_for(b.len() as u64), b.to_vec()));
                    }
                    *s = Str::Indef(chunks);
                    true
                }
                Str::Indef(_) => {
                    let d = s.data();
                    *s = Str::Def(W::min_for(d.len() as u64), d);
                    true
                }
            },
            ("reorder-map", Kind::Map(v, _)) if v.len() >= 2 => {
                let r = 1 + (op.arg as usize) % (v.len() - 1);
                v.rotate_left(r);
                true
            }
            ("set-tag", Kind::Array(..)) => {
                let inner = std::mem::replace(node, cborx::null());
                *node = cborx::tag(258, inner);
                true
            }
            ("set-tag", Kind::Tag(258, _, inner)) if matches!(inner.k, Kind::Array(..)) => {
                let i = std::mem::replace(inner.as_mut(), cborx::null());
                *node = i;
                true
            }
            _ => false,
        };
        if ok {
            return Some(fam);
        }
    }
    None
}

pub const DAMAGE_KINDS: [&str; 8] =
    ["bitflip", "truncate", "splice", "len-corrupt", "major-change", "insert", "delete", "byte-set"];

/// Byte-level damage guided by the item structure where the input still parses.
pub fn damage(input: &[u8], ops: &[MutOp], donor: &[u8]) -> (Vec<u8>, Vec<&'static str>) {
    let mut b = input.to_vec();
    let mut applied = vec![];
    for op in ops {
        if b.is_empty() {
            break;
        }
        let kind = DAMAGE_KINDS[(op.kind as usize) % DAMAGE_KINDS.len()];
        // structure-aware position: start of a node if parseable, else any byte
        let head_pos = |b: &[u8]| -> usize {
            if let Ok((tree, _)) = cborx::read_prefix(b) {
                let mut starts = vec![];
                collect_starts(&tree, &mut starts);
                if !starts.is_empty() {
                    return starts[pick_idx(op.sel, starts.len())];
                }
            }
            pick_idx(op.sel, b.len())
        };
        match kind {
            "bitflip" => {
                let p = pick_idx(op.sel, b.len());
                b[p] ^= 1 << (op.arg % 8);
            }
            "truncate" => {
                let p = pick_idx(op.sel, b.len());
                b.truncate(p);
            }
            "splice" => {
                if !donor.is_empty() {
                    let p = pick_idx(op.sel, b.len());
                    let dl = 1 + (op.arg as usize >> 16) % donor.len().min(64);
                    let ds = (op.arg as usize & 0xffff) % (donor.len() - dl + 1);
                    let end = (p + dl).min(b.len());
                    b.splice(p..end, donor[ds..ds + dl].iter().copied());
                }
            }
            "len-corrupt" => {
                let p = head_pos(&b);
                let ib = b[p];
                let ai = ib & 31;
                match ai {
                    0..=23 => {
                        let nv = match op.arg % 4 {
                            0 => ai.wrapping_add(1) % 24,
                            1 => ai.wrapping_sub(1) % 24,
                            2 => 23,
                            _ => 31,
                        };
                        b[p] = (ib & 0xe0) | (nv & 31);
                    }
                    24..=27 => {
                        let n = 1usize << (ai - 24);
                        if p + n < b.len() {
                            match op.arg % 4 {
                                0 => b[p + n] = b[p + n].wrapping_add(1),
                                1 => b[p + n] = b[p + n].wrapping_sub(1),
                                2 => {
                                    for x in &mut b[p + 1..=p + n] {
                                        *x = 0xff
                                    }
                                }
                                _ => b[p + 1] ^= 0x80,
                            }
                        }
                    }
                    _ => b[p] = (ib & 0xe0) | ((op.arg % 32) as u8),
                }
            }
            "major-change" => {
                let p = head_pos(&b);
                b[p] = (b[p] & 31) | (((op.arg % 8) as u8) << 5);
            }
            "insert" => {
                let p = pick_idx(op.sel, b.len() + 1);
                let nb = op.arg.to_le_bytes();
                let n = 1 + (op.arg >> 60) as usize % 8;
                b.splice(p..p, nb[..n].iter().copied());
            }
            "delete" => {
                let p = pick_idx(op.sel, b.len());
                let n = (1 + (op.arg % 8) as usize).min(b.len() - p);
                b.drain(p..p + n);
            }
            _ => {
                let p = head_pos(&b);
                b[p] = (op.arg & 0xff) as u8;
            }
        }
        applied.push(kind);
    }
    (b, applied)
}

fn collect_starts(n: &Node, out: &mut Vec<usize>) {
    out.push(n.s);
    match &n.k {
        Kind::Array(v, _) => v.iter().for_each(|c| collect_starts(c, out)),
        Kind::Map(v, _) => v.iter().for_each(|(a, b)| {
            collect_starts(a, out);
            collect_starts(b, out)
        }),
        Kind::Tag(_, _, i) => collect_starts(i, out),
        _ => {}
    }
}
