//! Panic capture: a process-wide hook that records, per thread, the message, the location and the
//! innermost `pallas_*` function on the stack, reduced to a root-cause *signature* that is stable
//! under unrelated edits (no line numbers).
use std::cell::RefCell;
use std::collections::HashMap;
use std::panic::{catch_unwind, AssertUnwindSafe};
use std::sync::{Mutex, Once, OnceLock};

#[derive(Clone, Debug)]
pub struct PanicInfo {
    pub sig: String,
    pub msg: String,
    pub location: String,
}

thread_local! {
    static LAST: RefCell<Option<PanicInfo>> = const { RefCell::new(None) };
}

static INSTALL: Once = Once::new();
static FN_CACHE: OnceLock<Mutex<HashMap<String, String>>> = OnceLock::new();

fn normalise(msg: &str) -> String {
    let mut out = String::new();
    let mut in_digits = false;
    for c in msg.chars() {
        if c.is_ascii_digit() {
            if !in_digits {
                out.push('N');
                in_digits = true;
            }
        } else {
            in_digits = false;
            out.push(if c == '\n' { ' ' } else { c });
        }
        if out.len() >= 140 {
            break;
        }
    }
    out
}

fn rel_file(f: &str) -> String {
    if let Some(i) = f.find("/repo/") {
        return f[i + 6..].to_string();
    }
    if let Some(i) = f.find("/registry/src/") {
        // registry/src/<index>/<crate>/...
        let rest = &f[i + 14..];
        if let Some(j) = rest.find('/') {
            return format!("dep:{}", &rest[j + 1..]);
        }
    }
    if let Some(i) = f.find("/verif/harness/") {
        return format!("harness:{}", &f[i + 15..]);
    }
    f.to_string()
}

/// Function name of the innermost stack frame whose source file lies in the repository under
/// test (resolved through the line tables), without generics or hash suffix.
fn repo_frame() -> String {
    let bt = std::backtrace::Backtrace::force_capture().to_string();
    let repo = crate::session::repo_dir().to_string_lossy().to_string();
    let mut prev_sym: Option<String> = None;
    for line in bt.lines() {
        let l = line.trim_start();
        if let Some(at) = l.strip_prefix("at ") {
            if at.starts_with(&repo) {
                if let Some(sym) = &prev_sym {
                    let mut s = sym.clone();
                    if let Some(i) = s.rfind("::h") {
                        if s.len() - i == 19 {
                            s.truncate(i);
                        }
                    }
                    if let Some(i) = s.find('<') {
                        if i > 0 {
                            s.truncate(i);
                        }
                    }
                    let s = s.replace("::{{closure}}", "").replace("{closure#0}", "");
                    let s = s.trim_end_matches("::").to_string();
                    // keep the last two path segments at most
                    let parts: Vec<&str> = s.split("::").collect();
                    let n = parts.len();
                    return parts[n.saturating_sub(2)..].join("::");
                }
            }
            continue;
        }
        if let Some((idx, sym)) = l.split_once(": ") {
            if idx.chars().all(|c| c.is_ascii_digit()) {
                prev_sym = Some(sym.trim().to_string());
            }
        }
    }
    "?".to_string()
}

pub fn install() {
    INSTALL.call_once(|| {
        std::panic::set_hook(Box::new(|info| {
            let msg = if let Some(s) = info.payload().downcast_ref::<&str>() {
                s.to_string()
            } else if let Some(s) = info.payload().downcast_ref::<String>() {
                s.clone()
            } else {
                "<non-string panic payload>".to_string()
            };
            let (file, line) = info
                .location()
                .map(|l| (l.file().to_string(), l.line()))
                .unwrap_or_default();
            let location = format!("{}:{}", rel_file(&file), line);
            let key = format!("{}|{}", location, normalise(&msg));
            let cache = FN_CACHE.get_or_init(|| Mutex::new(HashMap::new()));
            let cached = cache.lock().unwrap().get(&key).cloned();
            let func = match cached {
                Some(f) => f,
                None => {
                    let f = repo_frame();
                    cache.lock().unwrap().insert(key, f.clone());
                    f
                }
            };
            let sig = format!("panic@{}#{}: {}", rel_file(&file), func, normalise(&msg));
            LAST.with(|l| {
                *l.borrow_mut() = Some(PanicInfo { sig, msg, location });
            });
        }));
    });
}

/// Run `f`, turning a panic into `Err(PanicInfo)`.
pub fn guarded<T>(f: impl FnOnce() -> T) -> Result<T, PanicInfo> {
    install();
    LAST.with(|l| *l.borrow_mut() = None);
    match catch_unwind(AssertUnwindSafe(f)) {
        Ok(v) => Ok(v),
        Err(_) => {
            let info = LAST.with(|l| l.borrow_mut().take()).unwrap_or(PanicInfo {
                sig: "panic@?#?: <no info>".into(),
                msg: "<no info>".into(),
                location: "?".into(),
            });
            Err(info)
        }
    }
}
