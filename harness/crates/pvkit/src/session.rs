//! Check session: CLI, supervisor, sharded deterministic proptest runner, known findings, replay,
//! regression corpus and the evidence writer.
use proptest::strategy::Strategy;
use proptest::test_runner::{
    Config, RngAlgorithm, TestCaseError, TestError, TestRng, TestRunner,
};
use serde::de::DeserializeOwned;
use serde::Serialize;
use serde_json::{json, Value};
use std::collections::{BTreeMap, HashSet};
use std::fmt::Debug;
use std::path::{Path, PathBuf};
use std::sync::atomic::{AtomicBool, Ordering};
use std::sync::Mutex;
use std::time::Instant;

use crate::{fnv64, panics, splitmix};

pub const SHARDS: u64 = 16;

#[derive(Clone, Copy, Debug, PartialEq, Eq)]
pub enum Tier {
    Quick,
    Thorough,
}

#[derive(Clone, Debug)]
pub struct Fail {
    /// Root-cause signature (matched exactly against known_findings.json).
    pub sig: String,
    pub msg: String,
}

/// Per-case observations (classification, non-triviality).
#[derive(Default)]
pub struct Obs {
    classes: Vec<String>,
    nontrivial: Option<Option<u64>>,
    discarded: bool,
}

impl Obs {
    pub fn class(&mut self, c: impl Into<String>) {
        self.classes.push(c.into());
    }
    /// Mark the case non-trivial; distinctness key = hash of the serialised case.
    pub fn nontrivial(&mut self) {
        if self.nontrivial.is_none() {
            self.nontrivial = Some(None);
        }
    }
    /// Mark non-trivial with an explicit distinctness key.
    pub fn nontrivial_key(&mut self, key: u64) {
        self.nontrivial = Some(Some(key));
    }
    pub fn nontrivial_if(&mut self, c: bool) {
        if c {
            self.nontrivial();
        }
    }
    /// The case was outside the property's domain (counted, not judged).
    pub fn discard(&mut self) {
        self.discarded = true;
    }
}

#[derive(Default)]
struct SubStats {
    evaluations: u64,
    nontrivial: u64,
    discarded: u64,
    wall_s: f64,
    exhaustive: Option<bool>,
}

#[derive(Default)]
struct State {
    evaluations: u64,
    discarded: u64,
    nontrivial: HashSet<u64>,
    classes: BTreeMap<String, u64>,
    samples: Vec<Value>,
    subs: BTreeMap<String, SubStats>,
    known_hits: BTreeMap<String, u64>,
    known_printed: HashSet<String>,
    violations: Vec<Value>,
    notes: BTreeMap<String, Value>,
    assumptions: Vec<String>,
    inconclusive: Vec<String>,
    all_exhaustive: bool,
    regress_run: u64,
}

#[derive(Clone, Debug)]
pub struct Known {
    pub signature: String,
    pub what: String,
    pub status: String,
}

pub struct Session {
    pub id: String,
    pub tier: Tier,
    pub seed: u64,
    pub verif: PathBuf,
    pub level: &'static str,
    pub rule: Mutex<String>,
    known: Vec<Known>,
    replay: Option<(String, Value)>,
    state: Mutex<State>,
    start: Instant,
    pub threads: usize,
}

struct Local {
    evaluations: u64,
    discarded: u64,
    nontrivial: Vec<u64>,
    classes: BTreeMap<String, u64>,
    samples: Vec<Value>,
    known_hits: BTreeMap<String, u64>,
}

impl Local {
    fn new() -> Self {
        Local {
            evaluations: 0,
            discarded: 0,
            nontrivial: vec![],
            classes: BTreeMap::new(),
            samples: vec![],
            known_hits: BTreeMap::new(),
        }
    }
}

fn truncate_json(v: &Value) -> Value {
    let s = v.to_string();
    if s.len() <= 900 {
        v.clone()
    } else {
        let mut cut = 900;
        while !s.is_char_boundary(cut) {
            cut -= 1;
        }
        Value::String(format!("{}…(+{} chars)", &s[..cut], s.len() - cut))
    }
}

pub fn verif_dir() -> PathBuf {
    std::env::var("VERIF_DIR").map(PathBuf::from).unwrap_or_else(|_| PathBuf::from("/verif"))
}

/// Where evidence/ and replays/ are written (PV_OUT_DIR overrides; used for scratch runs against
/// mutated copies so that the real evidence files are not clobbered).
pub fn out_dir() -> PathBuf {
    std::env::var("PV_OUT_DIR").map(PathBuf::from).unwrap_or_else(|_| verif_dir())
}

pub fn repo_dir() -> PathBuf {
    std::env::var("PALLAS_REPO").map(PathBuf::from).unwrap_or_else(|_| PathBuf::from("/repo"))
}

impl Session {
    pub fn quick(&self) -> bool {
        self.tier == Tier::Quick
    }
    pub fn pick<T>(&self, quick: T, thorough: T) -> T {
        if self.quick() {
            quick
        } else {
            thorough
        }
    }
    pub fn set_rule(&self, r: &str) {
        *self.rule.lock().unwrap() = r.to_string();
    }
    pub fn note(&self, k: &str, v: Value) {
        self.state.lock().unwrap().notes.insert(k.to_string(), v);
    }
    pub fn assume(&self, a: &str) {
        self.state.lock().unwrap().assumptions.push(a.to_string());
    }
    /// A health assertion about the run itself (generator coverage, budget). Failure makes the
    /// run inconclusive (exit 2), never a violation.
    pub fn health(&self, ok: bool, what: &str) {
        if !ok {
            self.state.lock().unwrap().inconclusive.push(what.to_string());
        }
    }
    pub fn class_count(&self, c: &str) -> u64 {
        *self.state.lock().unwrap().classes.get(c).unwrap_or(&0)
    }
    pub fn is_known(&self, sig: &str) -> Option<&Known> {
        self.known.iter().find(|k| k.status == "known" && k.signature == sig)
    }
    /// Record hits of a known finding that the check handled itself (to keep exploring past it).
    /// Prints the KNOWN-FINDING line once, exactly like the runner does.
    pub fn known_hit(&self, sig: &str, count: u64) {
        let Some(k) = self.is_known(sig) else { return };
        let mut st = self.state.lock().unwrap();
        *st.known_hits.entry(sig.to_string()).or_insert(0) += count;
        if st.known_printed.insert(sig.to_string()) {
            println!("KNOWN-FINDING: property={} {} [{}]", self.id, k.what, sig);
        }
    }
    pub fn replaying(&self) -> bool {
        self.replay.is_some()
    }

    fn eval_case<V, F>(&self, f: &F, v: &V, local: &mut Local, count: bool) -> Result<(), Fail>
    where
        V: Serialize,
        F: Fn(&V, &mut Obs) -> Result<(), Fail>,
    {
        let mut obs = Obs::default();
        let r = match panics::guarded(|| f(v, &mut obs)) {
            Ok(r) => r,
            Err(p) => Err(Fail { sig: p.sig, msg: format!("panic at {}: {}", p.location, p.msg) }),
        };
        let r = match r {
            Err(fail) => {
                if self.is_known(&fail.sig).is_some() {
                    if count {
                        *local.known_hits.entry(fail.sig.clone()).or_insert(0) += 1;
                    }
                    Ok(())
                } else {
                    Err(fail)
                }
            }
            ok => ok,
        };
        if count {
            local.evaluations += 1;
            if obs.discarded {
                local.discarded += 1;
            } else {
                for c in obs.classes {
                    *local.classes.entry(c).or_insert(0) += 1;
                }
                if let Some(k) = obs.nontrivial {
                    let key = match k {
                        Some(k) => k,
                        None => fnv64(serde_json::to_string(v).unwrap_or_default().as_bytes()),
                    };
                    local.nontrivial.push(key);
                    if local.samples.len() < 2 {
                        if let Ok(j) = serde_json::to_value(v) {
                            local.samples.push(truncate_json(&j));
                        }
                    }
                }
            }
        }
        r
    }

    fn merge(&self, sub: &str, locals: Vec<Local>, wall: f64, exhaustive: Option<bool>) {
        let mut st = self.state.lock().unwrap();
        let mut se = 0;
        let mut sn = 0;
        let mut sd = 0;
        for l in locals {
            se += l.evaluations;
            sd += l.discarded;
            st.evaluations += l.evaluations;
            st.discarded += l.discarded;
            for k in l.nontrivial {
                // distinctness is per sub-check: mix the sub name in
                if st.nontrivial.insert(k ^ fnv64(sub.as_bytes())) {
                    sn += 1;
                }
            }
            for (c, n) in l.classes {
                *st.classes.entry(c).or_insert(0) += n;
            }
            for s in l.samples {
                let n_sub = st
                    .samples
                    .iter()
                    .filter(|x| x.get("sub").and_then(|v| v.as_str()) == Some(sub))
                    .count();
                if n_sub < 2 && st.samples.len() < 24 {
                    st.samples.push(json!({"sub": sub, "case": s}));
                }
            }
            for (k, n) in l.known_hits {
                *st.known_hits.entry(k).or_insert(0) += n;
            }
        }
        let e = st.subs.entry(sub.to_string()).or_default();
        e.evaluations += se;
        e.nontrivial += sn;
        e.discarded += sd;
        e.wall_s += wall;
        if exhaustive.is_some() {
            e.exhaustive = exhaustive;
        }
        if exhaustive != Some(true) {
            st.all_exhaustive = false;
        }
        // print KNOWN-FINDING lines once per signature
        let hits: Vec<String> = st.known_hits.keys().cloned().collect();
        for sig in hits {
            if st.known_printed.insert(sig.clone()) {
                let what = self.is_known(&sig).map(|k| k.what.clone()).unwrap_or_default();
                println!("KNOWN-FINDING: property={} {} [{}]", self.id, what, sig);
            }
        }
    }

    fn report_violation<V: Serialize + Debug>(&self, sub: &str, v: &V, fail: &Fail, origin: &str) {
        let case = serde_json::to_value(v).unwrap_or(Value::String(format!("{:?}", v)));
        let h = fnv64(format!("{}|{}|{}", sub, fail.sig, case).as_bytes());
        let dir = out_dir().join("replays");
        let _ = std::fs::create_dir_all(&dir);
        let path = dir.join(format!("{}-{:016x}.json", self.id, h));
        let doc = json!({
            "property": self.id, "sub": sub, "signature": fail.sig, "message": fail.msg,
            "seed": self.seed, "tier": format!("{:?}", self.tier), "origin": origin, "case": case,
        });
        let _ = std::fs::write(&path, serde_json::to_string_pretty(&doc).unwrap());
        println!("VIOLATION property={} replay={}", self.id, path.display());
        eprintln!("[{}:{}] {} — {}", self.id, sub, fail.sig, fail.msg);
        let mut st = self.state.lock().unwrap();
        st.violations.push(json!({"sub": sub, "signature": fail.sig, "message": fail.msg,
            "replay": path.display().to_string(), "case": truncate_json(&case)}));
    }

    /// Replay mode / regression corpus. Returns true if the caller should skip generation.
    fn pre_run<V, F>(&self, sub: &str, f: &F) -> bool
    where
        V: Debug + Serialize + DeserializeOwned,
        F: Fn(&V, &mut Obs) -> Result<(), Fail>,
    {
        if let Some((rsub, case)) = &self.replay {
            if rsub == sub {
                match serde_json::from_value::<V>(case.clone()) {
                    Ok(v) => {
                        let mut local = Local::new();
                        let r = self.eval_case(f, &v, &mut local, true);
                        self.merge(sub, vec![local], 0.0, None);
                        match r {
                            Ok(()) => eprintln!("[{}:{}] replayed case passes", self.id, sub),
                            Err(fail) => self.report_violation(sub, &v, &fail, "replay"),
                        }
                    }
                    Err(e) => {
                        self.health(false, &format!("replay case does not deserialise: {e}"));
                    }
                }
            }
            return true;
        }
        // regression corpus: corpus/regress/<ID>/<anything>.json with matching "sub"
        let dir = self.verif.join("corpus/regress").join(&self.id);
        if let Ok(rd) = std::fs::read_dir(&dir) {
            let mut files: Vec<PathBuf> = rd.filter_map(|e| e.ok().map(|e| e.path())).collect();
            files.sort();
            let mut local = Local::new();
            let mut n = 0;
            for p in files {
                let Ok(txt) = std::fs::read_to_string(&p) else { continue };
                let Ok(doc) = serde_json::from_str::<Value>(&txt) else { continue };
                if doc.get("sub").and_then(|s| s.as_str()) != Some(sub) {
                    continue;
                }
                let Some(case) = doc.get("case") else { continue };
                let Ok(v) = serde_json::from_value::<V>(case.clone()) else { continue };
                n += 1;
                if let Err(fail) = self.eval_case(f, &v, &mut local, true) {
                    self.report_violation(sub, &v, &fail, &format!("regress:{}", p.display()));
                }
            }
            if n > 0 {
                self.state.lock().unwrap().regress_run += n;
                self.merge(sub, vec![local], 0.0, None);
            }
        }
        false
    }

    /// Generated-input search: `cases` cases in total, split over 16 deterministic shards.
    pub fn forall<V, S, G, F>(&self, sub: &str, cases: u64, strat: G, f: F)
    where
        V: Debug + Serialize + DeserializeOwned + Send,
        S: Strategy<Value = V>,
        G: Fn() -> S + Sync,
        F: Fn(&V, &mut Obs) -> Result<(), Fail> + Sync,
    {
        if self.pre_run::<V, F>(sub, &f) {
            return;
        }
        self.progress(sub);
        let t0 = Instant::now();
        let stop = AtomicBool::new(false);
        let per = cases.div_ceil(SHARDS).max(1);
        let results: Mutex<Vec<(u64, Local, Option<(V, Fail)>)>> = Mutex::new(vec![]);
        let next = std::sync::atomic::AtomicU64::new(0);
        std::thread::scope(|sc| {
            for _ in 0..self.threads.min(SHARDS as usize) {
                sc.spawn(|| loop {
                    let shard = next.fetch_add(1, Ordering::SeqCst);
                    if shard >= SHARDS {
                        break;
                    }
                    let local = std::cell::RefCell::new(Local::new());
                    let failed: std::cell::RefCell<Option<Fail>> = std::cell::RefCell::new(None);
                    let s0 = splitmix(self.seed ^ splitmix(fnv64(sub.as_bytes())) ^ splitmix(shard + 1));
                    let mut seed = [0u8; 32];
                    for (i, c) in seed.chunks_mut(8).enumerate() {
                        c.copy_from_slice(&splitmix(s0.wrapping_add(i as u64)).to_le_bytes());
                    }
                    let cfg = Config {
                        cases: per as u32,
                        failure_persistence: None,
                        max_shrink_iters: 4000,
                        max_global_rejects: u32::MAX,
                        ..Config::default()
                    };
                    let mut runner =
                        TestRunner::new_with_rng(cfg, TestRng::from_seed(RngAlgorithm::ChaCha, &seed));
                    let strategy = strat();
                    let res = runner.run(&strategy, |v| {
                        let counting = failed.borrow().is_none();
                        if counting && stop.load(Ordering::Relaxed) {
                            return Ok(());
                        }
                        match self.eval_case(&f, &v, &mut local.borrow_mut(), counting) {
                            Ok(()) => Ok(()),
                            Err(fail) => {
                                if counting {
                                    stop.store(true, Ordering::Relaxed);
                                }
                                *failed.borrow_mut() = Some(fail.clone());
                                Err(TestCaseError::fail(fail.sig))
                            }
                        }
                    });
                    let fail = match res {
                        Ok(()) => None,
                        Err(TestError::Fail(_, v)) => {
                            // re-evaluate the minimal case for its own signature/message
                            let mut scratch = Local::new();
                            let fl = match self.eval_case(&f, &v, &mut scratch, false) {
                                Err(fl) => fl,
                                Ok(()) => failed.borrow().clone().unwrap_or(Fail {
                                    sig: "unstable".into(),
                                    msg: "minimal case passed on re-evaluation".into(),
                                }),
                            };
                            Some((v, fl))
                        }
                        Err(TestError::Abort(r)) => {
                            self.health(false, &format!("{sub}: proptest aborted: {r}"));
                            None
                        }
                    };
                    results.lock().unwrap().push((shard, local.into_inner(), fail));
                });
            }
        });
        let mut results = results.into_inner().unwrap();
        results.sort_by_key(|r| r.0);
        let mut locals = vec![];
        let mut first_fail = None;
        for (_, l, fl) in results {
            locals.push(l);
            if first_fail.is_none() {
                first_fail = fl;
            }
        }
        self.merge(sub, locals, t0.elapsed().as_secs_f64(), Some(false));
        if let Some((v, fail)) = first_fail {
            self.report_violation(sub, &v, &fail, "generated+shrunk");
        }
    }

    /// Enumerated cases (bounded-exhaustive families, corpus artefacts). `exhaustive` states
    /// whether `items` is the complete finite space the sub-check quantifies over.
    pub fn foreach<V, F>(&self, sub: &str, items: Vec<V>, exhaustive: bool, f: F)
    where
        V: Debug + Serialize + DeserializeOwned + Send + Sync,
        F: Fn(&V, &mut Obs) -> Result<(), Fail> + Sync,
    {
        if self.pre_run::<V, F>(sub, &f) {
            return;
        }
        self.progress(sub);
        let t0 = Instant::now();
        let next = std::sync::atomic::AtomicUsize::new(0);
        let out: Mutex<Vec<(Local, Option<(usize, Fail)>)>> = Mutex::new(vec![]);
        let chunk = (items.len() / (self.threads * 8)).max(1);
        std::thread::scope(|sc| {
            for _ in 0..self.threads {
                sc.spawn(|| {
                    let mut local = Local::new();
                    let mut first: Option<(usize, Fail)> = None;
                    loop {
                        let lo = next.fetch_add(chunk, Ordering::SeqCst);
                        if lo >= items.len() {
                            break;
                        }
                        for i in lo..(lo + chunk).min(items.len()) {
                            if let Err(fl) = self.eval_case(&f, &items[i], &mut local, true) {
                                if first.as_ref().map(|x| i < x.0).unwrap_or(true) {
                                    first = Some((i, fl));
                                }
                            }
                        }
                    }
                    out.lock().unwrap().push((local, first));
                });
            }
        });
        let mut locals = vec![];
        let mut fails: Vec<(usize, Fail)> = vec![];
        for (l, fl) in out.into_inner().unwrap() {
            locals.push(l);
            if let Some(x) = fl {
                fails.push(x);
            }
        }
        self.merge(sub, locals, t0.elapsed().as_secs_f64(), Some(exhaustive));
        fails.sort_by_key(|x| x.0);
        // report one violation per distinct signature (root causes, not inputs)
        let mut seen = HashSet::new();
        for (i, fl) in fails {
            if seen.insert(fl.sig.clone()) && seen.len() <= 5 {
                self.report_violation(sub, &items[i], &fl, "enumerated");
            }
        }
    }

    /// Evaluate one hand-built case (used for fixed vectors).
    pub fn one<V, F>(&self, sub: &str, v: V, f: F)
    where
        V: Debug + Serialize + DeserializeOwned + Send + Sync,
        F: Fn(&V, &mut Obs) -> Result<(), Fail> + Sync,
    {
        self.foreach(sub, vec![v], false, f)
    }

    fn progress(&self, sub: &str) {
        let d = out_dir().join("evidence");
        let _ = std::fs::create_dir_all(&d);
        let _ = std::fs::write(d.join(format!(".progress-{}", self.id)), sub);
        if std::env::var("PV_VERBOSE").is_ok() {
            eprintln!("[{}] sub-check {} …", self.id, sub);
        }
    }

    fn finish(&self) -> i32 {
        let st = self.state.lock().unwrap();
        let wall = self.start.elapsed().as_secs_f64();
        let subs: BTreeMap<String, Value> = st
            .subs
            .iter()
            .map(|(k, s)| {
                (
                    k.clone(),
                    json!({"evaluations": s.evaluations, "distinct_nontrivial": s.nontrivial,
                        "discarded": s.discarded, "wall_s": (s.wall_s*1000.0).round()/1000.0,
                        "exhaustive": s.exhaustive.unwrap_or(false)}),
                )
            })
            .collect();
        let mut coverage = json!({
            "evaluations": st.evaluations,
            "distinct_nontrivial": st.nontrivial.len(),
            "rule": *self.rule.lock().unwrap(),
            "samples": st.samples,
            "classes": st.classes,
            "sub_checks": subs,
            "discarded": st.discarded,
            "known_findings_hit": st.known_hits,
            "regression_cases_replayed": st.regress_run,
            "exhaustive": st.all_exhaustive && !st.subs.is_empty(),
            "shards": SHARDS,
            "inconclusive": st.inconclusive,
            "violation_details": st.violations,
        });
        for (k, v) in &st.notes {
            coverage[k] = v.clone();
        }
        let ev = json!({
            "property_id": self.id,
            "tier": if self.quick() { "quick" } else { "thorough" },
            "seed": self.seed,
            "level": self.level,
            "coverage": coverage,
            "assumptions": st.assumptions,
            "wall_s": (wall * 1000.0).round() / 1000.0,
            "violations": st.violations.len(),
        });
        if self.replay.is_none() {
            let dir = out_dir().join("evidence");
            let _ = std::fs::create_dir_all(&dir);
            let path = dir.join(format!("{}.json", self.id));
            let tmp = dir.join(format!(".{}.json.tmp", self.id));
            std::fs::write(&tmp, serde_json::to_string_pretty(&ev).unwrap()).expect("write evidence");
            std::fs::rename(&tmp, &path).expect("rename evidence");
        }
        let _ = std::fs::remove_file(out_dir().join("evidence").join(format!(".progress-{}", self.id)));
        eprintln!(
            "[{}] tier={:?} seed={} evaluations={} distinct_nontrivial={} discarded={} known_hits={} violations={} wall={:.1}s",
            self.id, self.tier, self.seed, st.evaluations, st.nontrivial.len(), st.discarded,
            st.known_hits.values().sum::<u64>(), st.violations.len(), wall
        );
        if !st.violations.is_empty() {
            return 1;
        }
        if !st.inconclusive.is_empty() {
            for i in &st.inconclusive {
                eprintln!("[{}] INCONCLUSIVE: {}", self.id, i);
            }
            return 2;
        }
        if self.replay.is_none() && st.nontrivial.len() < 2 {
            eprintln!("[{}] INCONCLUSIVE: fewer than 2 distinct non-trivial cases", self.id);
            return 2;
        }
        0
    }
}

fn load_known(verif: &Path, id: &str) -> Vec<Known> {
    let mut out = load_known_file(&verif.join("known_findings.json"), id);
    // development aid only: an extra list (never set by the registered commands)
    if let Ok(extra) = std::env::var("PV_KNOWN_EXTRA") {
        out.extend(load_known_file(Path::new(&extra), id));
    }
    out
}

fn load_known_file(p: &Path, id: &str) -> Vec<Known> {
    let Ok(txt) = std::fs::read_to_string(p) else { return vec![] };
    let Ok(v) = serde_json::from_str::<Value>(&txt) else {
        eprintln!("known_findings.json does not parse; ignoring");
        return vec![];
    };
    let mut out = vec![];
    if let Some(arr) = v.as_array() {
        for e in arr {
            if e.get("property").and_then(|x| x.as_str()) != Some(id) {
                continue;
            }
            out.push(Known {
                signature: e.get("signature").and_then(|x| x.as_str()).unwrap_or("").to_string(),
                what: e.get("what").and_then(|x| x.as_str()).unwrap_or("").to_string(),
                status: e.get("status").and_then(|x| x.as_str()).unwrap_or("").to_string(),
            });
        }
    }
    out
}

pub struct CheckDef {
    pub id: &'static str,
    /// evidence level category (MANIFEST level_claimed.category)
    pub level: &'static str,
    pub run: fn(&Session),
}

fn usage(defs: &[CheckDef]) -> ! {
    eprintln!(
        "usage: <bin> <ID> [--tier quick|thorough] [--seed N] [--replay FILE]\n  ids: {}",
        defs.iter().map(|d| d.id).collect::<Vec<_>>().join(" ")
    );
    std::process::exit(64)
}

/// Entry point of every group binary.
pub fn main(defs: &[CheckDef]) {
    let args: Vec<String> = std::env::args().collect();
    if args.len() < 2 {
        usage(defs);
    }
    let id = args[1].clone();
    let Some(def) = defs.iter().find(|d| d.id == id) else { usage(defs) };
    let mut tier = match std::env::var("VERIF_TIER").as_deref() {
        Ok("thorough") => Tier::Thorough,
        _ => Tier::Quick,
    };
    let mut tier_explicit = false;
    let mut seed: u64 = std::env::var("VERIF_SEED").ok().and_then(|s| s.trim().parse::<i128>().ok()).map(|v| v as u64).unwrap_or(1);
    let mut replay: Option<PathBuf> = None;
    let mut child = false;
    let mut i = 2;
    while i < args.len() {
        match args[i].as_str() {
            "--tier" => {
                i += 1;
                tier = match args.get(i).map(|s| s.as_str()) {
                    Some("quick") => Tier::Quick,
                    Some("thorough") => Tier::Thorough,
                    _ => usage(defs),
                };
                tier_explicit = true;
            }
            "--seed" => {
                i += 1;
                seed = args.get(i).and_then(|s| s.parse::<i128>().ok()).map(|v| v as u64).unwrap_or_else(|| usage(defs));
            }
            "--replay" => {
                i += 1;
                replay = Some(PathBuf::from(args.get(i).cloned().unwrap_or_else(|| usage(defs))));
            }
            "--child" => child = true,
            _ => usage(defs),
        }
        i += 1;
    }
    let _ = tier_explicit;
    let verif = verif_dir();
    if !child {
        std::process::exit(supervise(&args, &id, tier, seed, &verif));
    }
    panics::install();
    let mut seed = seed;
    let mut tier = tier;
    let mut replay = replay;
    if let Some(p) = &replay {
        let txt = std::fs::read_to_string(p).expect("read replay file");
        let doc: Value = serde_json::from_str(&txt).expect("parse replay file");
        if doc.get("signature").and_then(|s| s.as_str()).map(|s| s.starts_with("process-death")).unwrap_or(false) {
            seed = doc.get("seed").and_then(|s| s.as_u64()).unwrap_or(seed);
            tier = if doc.get("tier").and_then(|s| s.as_str()) == Some("Thorough") { Tier::Thorough } else { Tier::Quick };
            replay = None;
        }
    }
    let replay = replay.map(|p| {
        let txt = std::fs::read_to_string(&p).expect("read replay file");
        let doc: Value = serde_json::from_str(&txt).expect("parse replay file");
        (
            doc.get("sub").and_then(|s| s.as_str()).unwrap_or("").to_string(),
            doc.get("case").cloned().unwrap_or(Value::Null),
        )
    });
    let threads = std::env::var("PV_THREADS")
        .ok()
        .and_then(|s| s.parse().ok())
        .unwrap_or_else(|| std::thread::available_parallelism().map(|n| n.get()).unwrap_or(4))
        .clamp(1, 16);
    let sess = Session {
        id: id.clone(),
        tier,
        seed,
        verif: verif.clone(),
        level: def.level,
        rule: Mutex::new(String::new()),
        known: load_known(&verif, &id),
        replay,
        state: Mutex::new(State { all_exhaustive: true, ..State::default() }),
        start: Instant::now(),
        threads,
    };
    (def.run)(&sess);
    std::process::exit(sess.finish());
}

/// Parent process: runs the check in a child so that an abort / stack overflow / watchdog expiry
/// is reported instead of taking the check down.
fn supervise(args: &[String], id: &str, tier: Tier, seed: u64, verif: &Path) -> i32 {
    use std::os::unix::process::ExitStatusExt;
    let exe = std::env::current_exe().expect("current_exe");
    let mut cmd = std::process::Command::new(exe);
    cmd.args(&args[1..]).arg("--child");
    let mut childp = cmd.spawn().expect("spawn child");
    let budget_s: u64 = std::env::var("PV_WATCHDOG_S").ok().and_then(|s| s.parse().ok()).unwrap_or(match tier {
        Tier::Quick => 1500,
        Tier::Thorough => 6 * 3600,
    });
    let t0 = Instant::now();
    loop {
        match childp.try_wait() {
            Ok(Some(st)) => {
                if let Some(code) = st.code() {
                    return code;
                }
                let sig = st.signal().unwrap_or(0);
                let sub = std::fs::read_to_string(out_dir().join("evidence").join(format!(".progress-{id}"))).unwrap_or_default();
                if sig == libc::SIGKILL {
                    eprintln!("[{id}] INCONCLUSIVE: child killed (SIGKILL, probably out of memory) in sub-check {sub}");
                    return 2;
                }
                let dir = out_dir().join("replays");
                let _ = std::fs::create_dir_all(&dir);
                let path = dir.join(format!("{id}-death-{seed}.json"));
                let doc = json!({"property": id, "sub": sub, "signature": format!("process-death:signal {sig}"),
                    "message": "the check process died (abort / stack overflow / segfault) while running this sub-check; re-run the check with the same seed and tier to reproduce",
                    "seed": seed, "tier": format!("{:?}", tier), "case": Value::Null});
                let _ = std::fs::write(&path, serde_json::to_string_pretty(&doc).unwrap());
                println!("VIOLATION property={} replay={}", id, path.display());
                return 1;
            }
            Ok(None) => {
                if t0.elapsed().as_secs() > budget_s {
                    let _ = childp.kill();
                    let _ = childp.wait();
                    eprintln!("[{id}] INCONCLUSIVE: watchdog ({budget_s}s) expired");
                    return 2;
                }
                std::thread::sleep(std::time::Duration::from_millis(50));
            }
            Err(e) => {
                eprintln!("[{id}] supervisor wait error: {e}");
                return 2;
            }
        }
    }
}
