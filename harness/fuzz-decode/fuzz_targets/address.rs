//! C09: every address parser returns a value or an error on any bytes / text.
#![no_main]
use std::str::FromStr;

use libfuzzer_sys::fuzz_target;
use pallas_addresses::{Address, ByronAddress};

fuzz_target!(|data: &[u8]| {
    if pvfuzz::too_deep(data) {
        return;
    }
    pvfuzz::guarded(|| {
        let _ = Address::from_bytes(data);
        let _ = ByronAddress::from_bytes(data);
        let _ = Address::from_hex(&hex(data));
        if let Ok(s) = std::str::from_utf8(data) {
            let _ = Address::from_hex(s);
            let _ = Address::from_bech32(s);
            let _ = Address::from_str(s);
            let _ = ByronAddress::from_base58(s);
        }
    });
});

fn hex(b: &[u8]) -> String {
    let mut s = String::with_capacity(b.len() * 2);
    for x in b {
        s.push_str(&format!("{x:02x}"));
    }
    s
}
