//! C09: `MultiEraBlock::decode` returns a value or an error on any bytes.
#![no_main]
use libfuzzer_sys::fuzz_target;
use pallas_traverse::{MultiEraBlock, MultiEraHeader};

fuzz_target!(|data: &[u8]| {
    if pvfuzz::too_deep(data) {
        return;
    }
    pvfuzz::guarded(|| {
        let _ = MultiEraBlock::decode(data);
        // header entry point: first byte = tag, second = subtag selector
        if data.len() >= 2 {
            let sub = match data[1] % 3 {
                0 => None,
                1 => Some(0),
                _ => Some(1),
            };
            let _ = MultiEraHeader::decode(data[0] % 8, sub, &data[2..]);
        }
    });
});
