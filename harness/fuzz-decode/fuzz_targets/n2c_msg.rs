//! C09: node-to-client message decoders (byte 0 selects the type, the rest is the payload),
//! including the typed local-state query / result codecs and the local-tx rejection tree.
#![no_main]
use std::collections::BTreeMap;

use libfuzzer_sys::fuzz_target;
use pallas_codec::minicbor::Decoder;
use pallas_codec::utils::Bytes;
use pallas_network::miniprotocols as n1;
use pallas_network::miniprotocols::localstate::queries_v16 as q;
use pallas_network::miniprotocols::localtxsubmission as ltx;

/// keep in sync with `fuzz_corpus` in crates/pv-decode/src/main.rs
fn decode(sel: u8, b: &[u8]) {
    let mut d = Decoder::new(b);
    match sel % 40 {
        0 => drop(d.decode::<n1::handshake::Message<n1::handshake::n2c::VersionData>>()),
        1 => drop(d.decode::<n1::localstate::Message>()),
        2 => drop(d.decode::<ltx::Message<ltx::EraTx, ltx::TxValidationError>>()),
        3 => drop(d.decode::<n1::txmonitor::Message>()),
        4 => drop(d.decode::<ltx::Message<n1::localmsgsubmission::DmqMsg, n1::localmsgsubmission::DmqMsgValidationError>>()),
        5 => drop(d.decode::<n1::localmsgnotification::Message>()),
        6 => drop(d.decode::<pallas_network2::protocol::handshake::Message<pallas_network2::protocol::handshake::n2c::VersionData>>()),
        7 => drop(d.decode::<q::Request>()),
        8 => drop(d.decode::<q::BlockQuery>()),
        9 => drop(d.decode::<q::SystemStart>()),
        10 => drop(d.decode::<q::ChainBlockNumber>()),
        11 => drop(d.decode::<n1::Point>()),
        12 => drop(d.decode::<q::GenesisConfig>()),
        13 => drop(d.decode::<q::StakeDistribution>()),
        14 => drop(d.decode::<q::FilteredDelegsRewards>()),
        15 => drop(d.decode::<q::StakeSnapshots>()),
        16 => drop(d.decode::<q::UTxOByAddress>()),
        17 => drop(d.decode::<q::AccountState>()),
        18 => drop(d.decode::<q::Constitution>()),
        19 => drop(d.decode::<q::DRepState>()),
        20 => drop(d.decode::<q::ProtocolParam>()),
        21 => drop(d.decode::<BTreeMap<Bytes, q::PoolParams>>()),
        22 => drop(d.decode::<q::PState>()),
        23 => drop(d.decode::<q::PoolDistr>()),
        24 => drop(d.decode::<q::NonMyopicMemberRewards>()),
        25 => drop(d.decode::<q::GovState>()),
        26 => drop(d.decode::<q::RatifyState>()),
        27 => drop(d.decode::<q::ProposedPPUpdates>()),
        28 => drop(d.decode::<Vec<q::GovActionState>>()),
        29 => drop(d.decode::<q::CommitteeMembersState>()),
        30 => drop(d.decode::<BTreeMap<q::StakeAddr, q::DRepState>>()),
        31 => drop(d.decode::<BTreeMap<q::DRep, q::Coin>>()),
        32 => drop(d.decode::<BTreeMap<q::StakeAddr, q::DRep>>()),
        33 => drop(d.decode::<q::TransactionOutput>()),
        34 => drop(d.decode::<ltx::TxValidationError>()),
        35 => drop(d.decode::<ltx::ConwayLedgerFailure>()),
        36 => drop(d.decode::<ltx::ConwayUtxoWPredFailure>()),
        37 => drop(d.decode::<ltx::UtxoFailure>()),
        38 => drop(d.decode::<ltx::ConwayCertsPredFailure>()),
        _ => drop(d.decode::<ltx::ConwayGovPredFailure>()),
    }
}

fuzz_target!(|data: &[u8]| {
    if data.is_empty() || pvfuzz::too_deep(&data[1..]) {
        return;
    }
    pvfuzz::guarded(|| decode(data[0], &data[1..]));
});
