//! C09: node-to-node message decoders of both stacks (byte 0 selects the message type, the rest is
//! the payload) and `AnyMessage::from_payload`.
#![no_main]
use libfuzzer_sys::fuzz_target;
use pallas_codec::minicbor::Decoder;
use pallas_network::miniprotocols as n1;
use pallas_network2::behavior::AnyMessage;
use pallas_network2::protocol as n2;
use pallas_network2::Message as _;

/// keep in sync with `fuzz_corpus` in crates/pv-decode/src/main.rs
fn decode(sel: u8, b: &[u8]) {
    let mut d = Decoder::new(b);
    match sel % 16 {
        0 => drop(d.decode::<n1::handshake::Message<n1::handshake::n2n::VersionData>>()),
        1 => drop(d.decode::<n1::chainsync::Message<n1::chainsync::HeaderContent>>()),
        2 => drop(d.decode::<n1::chainsync::Message<n1::chainsync::BlockContent>>()),
        3 => drop(d.decode::<n1::blockfetch::Message>()),
        4 => drop(d.decode::<n1::txsubmission::Message<n1::txsubmission::EraTxId, n1::txsubmission::EraTxBody>>()),
        5 => drop(d.decode::<n1::keepalive::Message>()),
        6 => drop(d.decode::<n1::peersharing::Message>()),
        7 => drop(d.decode::<n2::handshake::Message<n2::handshake::n2n::VersionData>>()),
        8 => drop(d.decode::<n2::chainsync::Message<n2::chainsync::HeaderContent>>()),
        9 => drop(d.decode::<n2::chainsync::Message<n2::chainsync::BlockContent>>()),
        10 => drop(d.decode::<n2::blockfetch::Message>()),
        11 => drop(d.decode::<n2::txsubmission::Message>()),
        12 => drop(d.decode::<n2::keepalive::Message>()),
        13 => drop(d.decode::<n2::peersharing::Message>()),
        14 => drop(d.decode::<n2::leiosnotify::Message>()),
        _ => drop(d.decode::<n2::leiosfetch::Message>()),
    }
}

const CHANNELS: [u16; 14] = [0, 2, 3, 4, 8, 10, 18, 19, 1, 5, 7, 9, 0x8002, 0xffff];

fuzz_target!(|data: &[u8]| {
    if data.is_empty() || pvfuzz::too_deep(&data[1..]) {
        return;
    }
    pvfuzz::guarded(|| {
        decode(data[0], &data[1..]);
        let ch = CHANNELS[(data[0] >> 4) as usize % CHANNELS.len()];
        let mut payload = data[1..].to_vec();
        for _ in 0..64 {
            if AnyMessage::from_payload(ch, &mut payload).is_none() {
                break;
            }
        }
    });
});
