//! C09: `MultiEraTx::decode`, `decode_for_era` (every era) and `MultiEraOutput::decode` return a
//! value or an error on any bytes.
#![no_main]
use libfuzzer_sys::fuzz_target;
use pallas_traverse::{Era, MultiEraOutput, MultiEraTx};

const ERAS: [Era; 7] = [Era::Byron, Era::Shelley, Era::Allegra, Era::Mary, Era::Alonzo, Era::Babbage, Era::Conway];

fuzz_target!(|data: &[u8]| {
    if pvfuzz::too_deep(data) {
        return;
    }
    pvfuzz::guarded(|| {
        let _ = MultiEraTx::decode(data);
        for era in ERAS {
            let _ = MultiEraTx::decode_for_era(era, data);
            let _ = MultiEraOutput::decode(era, data);
        }
    });
});
