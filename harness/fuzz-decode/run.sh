#!/usr/bin/env bash
# C09 thorough tier, coverage-guided part: build the five libFuzzer targets (offline), write the
# seed corpora from the harness' seed pool and run each target for RUNS executions.
#   ./run.sh [RUNS=1000000] [SEED=1]
# Exit 0 = no crash; 1 = a target crashed (artifact under target/artifacts/); 2 = could not build.
set -u
HERE="$(cd "$(dirname "$0")" && pwd)"
HARNESS="$(dirname "$HERE")"
RUNS="${1:-1000000}"
SEED="${2:-${VERIF_SEED:-1}}"
BIN="$HARNESS/target/release/pv-decode"
export CARGO_NET_OFFLINE=true
( cd "$HARNESS" && cargo build --release --offline -p pv-decode >/dev/null 2>&1 ) || { echo "pv-decode does not build" >&2; exit 2; }
cargo +nightly fuzz build --fuzz-dir "$HERE" >"$HERE/target-build.log" 2>&1 || { echo "fuzz targets do not build (see $HERE/target-build.log)" >&2; exit 2; }
CORPUS="$HERE/target/corpus"; ART="$HERE/target/artifacts"
rm -rf "$CORPUS"; mkdir -p "$ART"
PV_DECODE_WRITE_CORPUS="$CORPUS" "$BIN" || exit 2
rc=0
for T in block tx address n2n_msg n2c_msg; do
  (
  MAXLEN=4096; [ "$T" = block ] && MAXLEN=200000; [ "$T" = tx ] && MAXLEN=20000
  LOG="$HERE/target/$T.log"
  "$HERE/target/x86_64-unknown-linux-gnu/release/$T" "$CORPUS/$T" -runs="$RUNS" -seed="$SEED" -max_len="$MAXLEN" \
      -len_control=0 -rss_limit_mb=4096 -timeout=20 -artifact_prefix="$ART/C09-$T-" -print_final_stats=1 >"$LOG" 2>&1
  echo $? >"$HERE/target/$T.rc"
  ) &
done
wait
for T in block tx address n2n_msg n2c_msg; do
  LOG="$HERE/target/$T.log"; r=$(cat "$HERE/target/$T.rc" 2>/dev/null || echo 99)
  echo "$T: exit $r, $(grep -E 'stat::number_of_executed_units' "$LOG" | tr -d '\n') $(grep -E '^#[0-9]+.*DONE' "$LOG" | tail -1 | cut -c1-80)"
  if [ "$r" -ne 0 ]; then
    grep -E 'NEW panic|ERROR|SUMMARY|deadly' "$LOG" | head -5
    # a libFuzzer timeout / out-of-memory report is a budget matter (inconclusive), not a panic
    if grep -qE 'ERROR: libFuzzer: (timeout|out-of-memory)' "$LOG"; then [ $rc -eq 0 ] && rc=2; else rc=1; fi
  fi
done
exit $rc
