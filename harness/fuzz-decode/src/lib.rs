//! Shared part of the C09 libFuzzer targets: panic capture with an allow-list of already-known
//! root causes (so a campaign does not rediscover one crash forever) and a nesting-depth filter
//! (deeply nested input is the known stack-overflow finding; it is probed by the harness itself).
use std::cell::RefCell;
use std::panic::{catch_unwind, AssertUnwindSafe};
use std::sync::Once;

thread_local! {
    static LAST: RefCell<Option<(String, String)>> = const { RefCell::new(None) };
}
static HOOK: Once = Once::new();

/// (substring of the panic location, substring of the message) of known findings; matched
/// against `file:line` and the message. Keep in sync with crates/pv-decode/known_local.json.
pub const KNOWN: &[(&str, &str)] = &[
    // both former entries (queries_v16 unreachable!(), base58 0.2 subtract overflow) were repaired in /repo
];

/// Run `f`; a panic that is not on the allow-list aborts the process (= libFuzzer crash).
pub fn guarded(f: impl FnOnce()) {
    // libfuzzer-sys installs an aborting hook during initialisation; replace it (once, from inside
    // the first test-one-input call, i.e. after that initialisation) by a recording one
    HOOK.call_once(|| {
        std::panic::set_hook(Box::new(|info| {
            let msg = if let Some(s) = info.payload().downcast_ref::<&str>() {
                s.to_string()
            } else if let Some(s) = info.payload().downcast_ref::<String>() {
                s.clone()
            } else {
                "<non-string panic payload>".to_string()
            };
            let loc = info.location().map(|l| format!("{}:{}", l.file(), l.line())).unwrap_or_default();
            LAST.with(|l| *l.borrow_mut() = Some((loc, msg)));
        }));
    });
    if catch_unwind(AssertUnwindSafe(f)).is_err() {
        let (loc, msg) = LAST.with(|l| l.borrow_mut().take()).unwrap_or_default();
        // PVFUZZ_NO_ALLOW=1 disables the allow-list (used to confirm that a known input still crashes)
        if std::env::var_os("PVFUZZ_NO_ALLOW").is_none() && KNOWN.iter().any(|(l, m)| loc.contains(l) && msg.contains(m)) {
            return;
        }
        eprintln!("C09 libFuzzer: NEW panic at {loc}: {msg}");
        std::process::abort();
    }
}

/// Upper bound of the CBOR nesting depth of `b`, computed by a flat scan of item heads (no
/// recursion). Malformed input ends the scan.
pub fn nesting_depth(b: &[u8]) -> usize {
    // stack of remaining item counts (None = indefinite)
    let mut stack: Vec<Option<u64>> = vec![];
    let mut max = 0usize;
    let mut p = 0usize;
    while p < b.len() {
        let ib = b[p];
        let major = ib >> 5;
        let ai = ib & 31;
        p += 1;
        let arg: Option<u64> = match ai {
            0..=23 => Some(ai as u64),
            24 => b.get(p).map(|x| *x as u64),
            25 => b.get(p..p + 2).map(|s| u16::from_be_bytes([s[0], s[1]]) as u64),
            26 => b.get(p..p + 4).map(|s| u32::from_be_bytes([s[0], s[1], s[2], s[3]]) as u64),
            27 => b.get(p..p + 8).map(|s| u64::from_be_bytes(s.try_into().unwrap())),
            31 => None,
            _ => return max,
        };
        p += match ai {
            24 => 1,
            25 => 2,
            26 => 4,
            27 => 8,
            _ => 0,
        };
        if ai != 31 && arg.is_none() {
            return max;
        }
        let mut completed = true;
        match major {
            0 | 1 => {}
            2 | 3 => match arg {
                Some(n) => p = p.saturating_add(n as usize),
                None => {
                    stack.push(None);
                    completed = false;
                }
            },
            4 | 5 => {
                let n = arg.map(|n| if major == 5 { n.saturating_mul(2) } else { n });
                if n != Some(0) {
                    stack.push(n);
                    completed = false;
                }
            }
            6 => {
                stack.push(Some(1));
                completed = false;
            }
            _ => {
                if ib == 0xff {
                    // break: closes the innermost indefinite container
                    match stack.pop() {
                        Some(None) => {}
                        _ => return max,
                    }
                }
            }
        }
        max = max.max(stack.len());
        if completed {
            // one item finished: account for it in the enclosing containers
            while let Some(top) = stack.last_mut() {
                match top {
                    Some(n) => {
                        *n -= 1;
                        if *n == 0 {
                            stack.pop();
                        } else {
                            break;
                        }
                    }
                    None => break,
                }
            }
        }
        if stack.len() > 4096 {
            return stack.len();
        }
    }
    max
}

/// Inputs nested deeper than this are skipped (known stack-overflow finding of C09).
pub const MAX_FUZZ_DEPTH: usize = 64;

pub fn too_deep(b: &[u8]) -> bool {
    nesting_depth(b) > MAX_FUZZ_DEPTH
}
