//! C33: `validate_tx` returns (Ok or a validation error) for any decodable transaction of any post-Byron era over a
//! UTxO set that resolves its inputs.
//!
//! Input layout: byte 0 = era (mod 6), byte 1 = what the inputs resolve to, rest = the transaction
//! (`[body, witness set, validity flag, auxiliary data]`). The UTxO set is derived from the transaction itself: every
//! spent, collateral and reference input found in the body (read with the harness' own CBOR reader) resolves to an
//! output whose kind byte 1 selects, so the validators get past "input not in the UTxO" and into their arithmetic.
#![no_main]
use libfuzzer_sys::fuzz_target;
use pv_validate::forge::{key_addr, script_addr, EraK, Utxo};
use pv_validate::{pp, run};
use pvkit::cborx as cx;
use std::cell::RefCell;
use std::panic::{catch_unwind, AssertUnwindSafe};
use std::sync::Once;

thread_local! {
    static LAST: RefCell<Option<(String, String)>> = const { RefCell::new(None) };
}
static HOOK: Once = Once::new();

fn output_for(kind: u8, n: usize, era: EraK) -> Vec<u8> {
    let assets = |q: u64| cx::map(vec![(cx::bytes(&[7u8; 28]), cx::map(vec![(cx::bytes(b"t"), cx::uint(q))]))]);
    let legacy = |addr: Vec<u8>, v: cx::Node| cx::array(vec![cx::bytes(&addr), v]);
    let node = match kind % 8 {
        0 => legacy(key_addr(n as u8 % 4), cx::uint(10_000_000 + n as u64)),
        1 => legacy(key_addr(n as u8 % 4), cx::array(vec![cx::uint(5_000_000), assets(1_000)])),
        2 => legacy(key_addr(0), cx::array(vec![cx::uint(u64::MAX), assets(u64::MAX)])),
        3 => legacy(script_addr(&[9u8; 28]), cx::uint(3_000_000)),
        4 => legacy(hex_byron(), cx::uint(4_000_000)),
        5 => legacy(key_addr(1), cx::uint(0)),
        6 if era >= EraK::Babbage => cx::map(vec![
            (cx::uint(0), cx::bytes(&key_addr(2))),
            (cx::uint(1), cx::uint(3_000_000)),
            (cx::uint(2), cx::array(vec![cx::uint(1), cx::tag(24, cx::bytes(&[0x01]))])),
            (cx::uint(3), cx::tag(24, cx::bytes(&cx::write(&cx::array(vec![cx::uint(2), cx::bytes(&[0x46, 1, 0, 0, 0x22, 0x20, 1])]))))),
        ]),
        _ => cx::array(vec![cx::bytes(&key_addr(3)), cx::uint(2_000_000), cx::bytes(&[5u8; 32])]),
    };
    cx::write(&node)
}

fn hex_byron() -> Vec<u8> {
    // a mainnet Byron address (as in the repository's fixtures)
    vec![
        0x82, 0xd8, 0x18, 0x58, 0x21, 0x83, 0x58, 0x1c, 0x05, 0x77, 0xc7, 0xac, 0xa3, 0xf0, 0x09, 0xa4, 0x99, 0x2c, 0x72, 0x48, 0xaa, 0x6e, 0xef, 0x81, 0x8c, 0x2d,
        0x1b, 0x73, 0xd5, 0x55, 0xe0, 0xac, 0xf5, 0x75, 0x27, 0xfc, 0xa0, 0x00, 0x1a, 0x28, 0x39, 0xcf, 0x67,
    ]
}

fuzz_target!(|data: &[u8]| {
    if data.len() < 4 {
        return;
    }
    let era = EraK::all()[data[0] as usize % 6];
    let kind = data[1];
    let tx = &data[2..];
    // inputs of the transaction, by the independent reader (nothing to do if it is not a transaction-shaped item)
    let Ok(root) = cx::read(tx) else { return };
    if root.depth() > 64 {
        return; // deep nesting is C09's known stack-overflow finding
    }
    let Some(body) = root.as_array().and_then(|a| a.first()) else { return };
    let mut utxos: Vec<Utxo> = vec![];
    for (field, role) in [(0u64, "input"), (13, "collateral"), (18, "reference")] {
        let Some(list) = body.map_get(field).map(|n| n.untagged()).and_then(|n| n.as_array()) else { continue };
        for (n, i) in list.iter().enumerate().take(16) {
            let Some(p) = i.as_array() else { continue };
            let (Some(t), Some(ix)) = (p.first().and_then(|x| x.as_bytes()), p.get(1).and_then(|x| x.as_u64())) else { continue };
            let Ok(txid) = <[u8; 32]>::try_from(t.as_slice()) else { continue };
            if utxos.iter().any(|u| u.txid == txid && u.idx == ix) {
                continue;
            }
            let k = if role == "collateral" { kind >> 3 } else { kind.wrapping_add(n as u8 * (kind >> 6)) };
            utxos.push(Utxo { txid, idx: ix, era, output: output_for(k, n, era), key_locked_by: None, role });
        }
    }
    let env = pp::env(era, &pp::PpTweak::default());
    HOOK.call_once(|| {
        std::panic::set_hook(Box::new(|info| {
            let msg = if let Some(s) = info.payload().downcast_ref::<&str>() {
                s.to_string()
            } else if let Some(s) = info.payload().downcast_ref::<String>() {
                s.clone()
            } else {
                "<non-string panic payload>".to_string()
            };
            let loc = info.location().map(|l| format!("{}:{}", l.file(), l.line())).unwrap_or_default();
            LAST.with(|l| *l.borrow_mut() = Some((loc, msg)));
        }));
    });
    if catch_unwind(AssertUnwindSafe(|| {
        let _ = run::validate(era, tx, &utxos, &env);
    }))
    .is_err()
    {
        let (loc, msg) = LAST.with(|l| l.borrow_mut().take()).unwrap_or_default();
        eprintln!("C33 libFuzzer: NEW panic at {loc}: {msg}");
        std::process::abort();
    }
});
