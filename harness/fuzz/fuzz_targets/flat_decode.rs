//! C02 coverage-guided tier: byte 0.. = program (one decoder call per nibble), rest = buffer.
//! Oracle inside the target: every call returns (a panic / out-of-bounds read is a libFuzzer crash)
//! and the cursor stays inside the buffer.
#![no_main]
use libfuzzer_sys::fuzz_target;
use pallas_codec::flat::de::Decoder;

fuzz_target!(|data: &[u8]| {
    if data.len() < 2 {
        return;
    }
    let nprog = 1 + (data[0] as usize % 8);
    if data.len() < 1 + nprog {
        return;
    }
    let prog = &data[1..1 + nprog];
    let buf = &data[1 + nprog..];
    let buf = &buf[..buf.len().min(64)];
    let mut d = Decoder::new(buf);
    for p in prog {
        for call in [p & 0x0f, p >> 4] {
            let _ = match call {
                0 => d.bool().map(|_| ()),
                1 => d.u8().map(|_| ()),
                2 => d.bits8(1 + (p % 8) as usize).map(|_| ()),
                3 => d.word().map(|_| ()),
                4 => d.integer().map(|_| ()),
                5 => d.char().map(|_| ()),
                6 => d.string().map(|_| ()),
                7 => d.bytes().map(|_| ()),
                8 => d.utf8().map(|_| ()),
                9 => d.filler(),
                10 => d.decode_list_with(|d| d.u8()).map(|_| ()),
                11 => d.decode_list_with(|d| d.bool()).map(|_| ()),
                12 => pallas_codec::flat::decode::<usize>(buf).map(|_| ()),
                13 => pallas_codec::flat::decode::<isize>(buf).map(|_| ()),
                14 => pallas_codec::flat::decode::<String>(buf).map(|_| ()),
                _ => pallas_codec::flat::decode::<Vec<u8>>(buf).map(|_| ()),
            };
            assert!(d.pos <= buf.len() && (0..8).contains(&d.used_bits), "cursor left the buffer");
        }
    }
});
