#!/usr/bin/env bash
# Builds every harness group offline from files on disk.
set -eu
cd "$(dirname "$(readlink -f "$0")")/harness"
export CARGO_NET_OFFLINE=true
cargo build --release --offline --workspace 2>&1 | tail -3
