#!/usr/bin/env bash
# Builds every harness group offline from files on disk.
set -eu
cd "$(dirname "$(readlink -f "$0")")/harness"
export CARGO_NET_OFFLINE=true
cargo build --release --offline --workspace 2>&1 | tail -3
# second profile (no debug assertions, wrapping arithmetic) for the pure-computation groups, see DESIGN 1.1
cargo build --profile release-wrap --offline -p pv-crypto -p pv-math -p pv-codec -p pv-addr 2>&1 | tail -1
# unoptimised worker for C43's long-empty-runs family
cargo build --profile opt0 --offline -p pv-hardano 2>&1 | tail -1
