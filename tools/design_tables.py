#!/usr/bin/env python3
"""Regenerates the generated tables inside DESIGN.md §3 (between the html-comment markers)."""
import json, subprocess, os, re
s = open('/verif/DESIGN.md').read()
def put(tag, text):
    global s
    a, b = f'<!-- {tag}-begin -->', f'<!-- {tag}-end -->'
    i, j = s.index(a) + len(a), s.index(b)
    s = s[:i] + '\n' + text.strip() + '\n' + s[j:]
put('seeded-table', subprocess.check_output(['python3', '/verif/tools/seeded_table.py'], text=True))
rows = ['| Property | Mutant | Quick check | Signature(s) |', '|---|---|---|---|']
f = '/verif/seeded/_self/results.json'
if os.path.exists(f):
    for r in json.load(open(f)):
        sig = ', '.join(r.get('signatures') or [])[:120]
        rows.append(f"| {r['property']} | {r['mutant']} | {r['result']} | `{sig}` |")
put('self-mutants', '\n'.join(rows))
rows = ['| Property | Disposition | Signature (prefix) | What failed |', '|---|---|---|---|']
kf = json.load(open('/verif/known_findings.json'))
for k in sorted(kf, key=lambda k: k['property']):
    disp = 'known' if k['status'] == 'known' else f"fixed {k.get('commit','')}"
    what = re.sub(r'^fixed: property=C\d+ ', '', k['what']).replace('|', '/')
    rows.append(f"| {k['property']} | {disp} | `{k['signature'][:90]}` | {what[:300]} |")
put('findings-table', '\n'.join(rows))
open('/verif/DESIGN.md', 'w').write(s)
