#!/usr/bin/env python3
"""Regenerates MANIFEST.json and groups.json from the table below (run from /verif)."""
import json, os, sys

# id -> (group, category, technique, level text, level note)
CHECKS = {
 "C01": ("pv-codec", "exploration", "proptest generated sequences + bounded-exhaustive offset family; round-trip oracle",
   "Generated-input search: mixed sequences of flat primitives (values biased to 7-bit group and 255-byte block edges) are written by one Encoder and read back by mirrored Decoder calls; oracle = equality of every value and full consumption (pos==len, used_bits==0). The (item kind x start bit offset) matrix is measured and every cell must be hit. Exploration is the right level: the input space is unbounded, the oracle is an exact inverse.",
   "Trusts the harness' own size model only for classifying offsets (not for the verdict)."),
 "C02": ("pv-codec", "exploration", "proptest generated (buffer, decoder-call program) + exhaustive 0xff-run/truncation families; no-panic and cursor-in-bounds oracle",
   "Every public decoder entry point is driven over buffers <= 64 bytes: exhaustively for all continuation-run lengths x entry points x leading bit counts and for all truncations of boundary encodings, and by generated programs of 1..16 calls over random / structured buffers. Oracle: each call returns Ok or Err (panics are caught and reported with a root-cause signature) and the cursor stays inside the buffer.",
   "Built with debug-assertions and overflow-checks on (the semantics the project's own test profile uses), so arithmetic overflow is a panic. bits8(0) is outside the domain."),
 "C03": ("pv-codec", "exploration", "proptest: in-memory value recipes + cborx grammar of accepted encodings; round-trip / byte-identity oracle via an independent CBOR writer",
   "Three generated families: (a) values of every helper type built from plain recipes must satisfy decode(to_vec(v)) == v, consume everything and encode to one well-formed item (checked by the independent cborx reader); (b) encodings drawn from a grammar of what each wrapper accepts (non-minimal heads, indefinite strings and containers, tags, simple values, floats, depth <= 3) must re-encode byte-identically for the form-keeping wrappers and value-stably for the rest; (c) KeepRaw mutated through deref_mut must re-encode from its content. Accept rates of the grammars are measured and asserted.",
   "Form preservation of KeyValuePairs / NonEmptyKeyValuePairs / MaybeIndefArray is asserted only when the container's own length head is minimal (they document keeping definite-vs-indefinite only). Inputs rejected by a decoder are counted as discards."),
 "C04": ("pv-codec", "exploration", "bounded-exhaustive boundary family + proptest; cborx-built Conway values/bodies; zero=>Err, admissible=>Ok(value) oracle",
   "Every (site x sign x boundary magnitude x admissible head width x sibling slot) combination is enumerated, plus random magnitudes: the integer is decoded as PositiveCoin / NonZeroInt directly and at the asset-quantity, mint, collateral-return and donation positions of Conway values and transaction bodies written by the independent cborx writer. Oracle in both directions: zero must be rejected, admissible non-zero must be accepted with exactly the encoded number, and no Ok result may hold 0.",
   "Synthetic bodies contain only the mandatory fields plus the probed one; out-of-range magnitudes only need to not produce a zero."),
 "C24": ("pv-net2", "exploration", "exhaustive (state class x message) table + all specification-following sequences <= 8 + random walks, against hand-transcribed specification tables",
   "For each of the eight P2P-stack protocol machines the complete (state class x message variant) table is enumerated with two payload variations each, then every message sequence of length <= 6 (quick) / 8 (thorough) that follows specification edges from the initial state with the full table re-checked at every visited state, then random walks to length 40. Oracle: State::apply is Ok exactly on specification edges and returns exactly the state the specification prescribes including the carried data (states are compared with ==, using harness-chosen content types that implement PartialEq). Known deviations are stepped over by substituting the specification's state, so the search continues behind them.",
   "Trusts the specification tables in harness/crates/pv-net2/src/spec.rs (transcribed from the Ouroboros network specification; Leios from the module documentation)."),
 "C27": ("pv-net2", "exploration", "stateful model-based exploration: fingerprint-de-duplicated BFS over op sequences + random long sequences; set-invariant and banned-history oracle",
   "The harness plays the network interface of InitiatorBehavior (events are applied only when a real connection could deliver them). All op sequences up to depth 6/8 (3 peers, limits 2/1/1, error threshold 0) and 8/10 (2 peers, limits 3/2/1) are explored breadth-first with de-duplication on an abstract fingerprint (peer states, sets, interface model), plus random sequences of length 200 over 20 and 6 peers. After every op: the four peer sets pairwise disjoint, within the configured limits, and no Connect command for a peer that was banned before that op (by violation, error threshold or explicit command).",
   "HashMap iteration order inside the behaviour is not controlled (invariants must hold for every order; state counts vary slightly between runs). A Connect emitted in the same step in which the peer becomes banned is not judged."),
 "C28": ("pv-net2", "exploration", "schedule exploration with a harness-owned interface: BFS over delayed Sent/Recv deliveries + random schedules, specification-conformant simulated responder, per-connection wire-state oracle",
   "The harness owns the logical schedule: emitted Sends go on a per-peer wire in emission order and are judged at emission time against the per-(peer, protocol) specification state; Sent confirmations are delivered FIFO at arbitrary later steps; a simulated responder answers with any reply the specification allows, only where it holds agency and after the initiator's message was confirmed. Exhaustive de-duplicated BFS of all schedules up to depth 6/8 after the handshake prefix (1 peer, versions 13 and 15/Leios) and random schedules up to 300 steps over 3 peers. Signatures distinguish emissions made while an earlier message is unconfirmed (the recorded root cause) from emissions made on confirmed state (would be a new defect).",
   "The real TCP interface's futures are not exercised; wire order is assumed equal to emission order. Behaviour-internal queues are mirrored by counters in the fingerprint."),
 "C29": ("pv-net2", "exploration", "proptest sequences of arbitrary interface events and commands; no-panic oracle with root-cause panic signatures",
   "Sequences of up to 300 arbitrary interface events over 4 known peers and one unknown peer (duplicate Connected, Sent of never-emitted messages, Recv of any message of any protocol in any state, Error, Disconnected, Idle) interleaved with every external command are fed to InitiatorBehavior (default and tight promotion limits) and ResponderBehavior; afterwards a housekeeping pass and a full drain must still work. Any panic is caught and reported with a signature naming file, function and message.",
   "Default configurations only (plus one tight promotion configuration); message payloads come from a recipe pool, not arbitrary bytes."),
 "C10": ("pv-crypto", "exploration", "proptest against an independent RFC 7693 Blake2b; exhaustive over tag bytes; published nonce vectors",
   "Incremental, one-shot, tagged and CBOR hashing at 160/224/256 bits are compared with the harness' own Blake2b over ~1.3 M generated inputs per quick run (random splits incl. empty chunks and 128-byte block edges, all 256 tag bytes exhaustively, recursive CBOR values); Hash<20/28/32> hex, CBOR and JSON round-trips and the rejection of wrong-length, odd-length and non-hex inputs on 500 k cases; epoch and rolling nonces against the Praos compositions on 500 k random inputs and 4 published mainnet values.",
   "Sampled inputs (exhaustive only over the tag byte); the Blake2b reference and nonce compositions are the harness' own, anchored by the RFC vector, python hashlib and mainnet nonces."),
 "C11": ("pv-crypto", "exploration", "differential proptest against ed25519-dalek (incl. hazmat expanded keys); all 32 clamping-bit combinations",
   "For 40 k random standard and extended keys per quick run public keys and signatures are byte-identical to an independent RFC 8032 implementation, every signature verifies, and for 13 tamperings per key (single-bit flips of message, key, R, S, and S+L) pallas' verdict equals the reference's. Extended-key acceptance is checked for all 32 combinations of the five structural bits over 60 k random keys and must be Ok exactly for the required pattern.",
   "Random keys/messages; adversarial encodings (small-order points, non-canonical y) are not reached by single-bit tampering."),
 "C12": ("pv-crypto", "exploration", "model-based proptest over complete key evolutions of all 14 KES types; own Merkle seed-tree reference",
   "For all 14 sum/compact KES types random seeds are evolved through every period; the period counter, the unchanged public key (equal to an independently recomputed Merkle root), verification at the own period, rejection at every other in-range period and for another message, signature byte round-trips and the refusal of exactly the last update are checked - at every period for depth <= 4, at landmark + random periods for depth 5..7 in quick and every period in thorough.",
   "Seeds and messages are sampled; periods are exhaustive for depth <= 4 (all depths in thorough)."),
 "C13": ("pv-crypto", "exploration", "model-based scan of the key buffer along complete evolution histories against a reference seed tree",
   "For ~19 k random seeds per quick run and every depth 1..7 of both constructions the complete evolution history is executed; after keygen, after every update and after the refused last update every 32-byte window of the key buffer (all byte offsets) is compared with the seeds and expanded Ed25519 secrets of all reference-tree nodes covering a past period; signing must not modify the buffer and the caller's seed must be zeroised. The reference tree is tied to the implementation by public-key equality and by finding the current leaf secret at offset 0.",
   "Observes as_bytes() only - stack temporaries and compiler-elided zeroisation are out of reach; seeds sampled, histories complete."),
 "C14": ("pv-crypto", "exploration", "bounded-exhaustive enumeration (all length-1 pairs, all length-2 difference pairs / all 2^32 pairs in thorough) + proptest for longer strings",
   "memeq/memcmp must equal slice equality / lexicographic order for all 2^16 length-1 pairs, all 511^2 length-2 difference pairs (every accumulator x difference state of the branchless step; all 2^32 pairs in thorough) and 6 M random pairs of length 3..64 with a uniformly placed deciding byte and equal/random/opposing tails, both argument orders.",
   "Exhaustive for lengths 1-2, sampled beyond; the statement's 'proved for all 8-bit differences' clause is discharged by enumeration, not proof; timing behaviour is not examined."),
 "C15": ("pv-math", "exploration", "differential proptest against a num-bigint port of the Cardano non-integral reference + a 400-bit truth oracle with analytic tolerances",
   "On ~61 k generated and enumerated arguments per quick run (1.5 M thorough) - exp over +-[1e-30,1e6], ln over (1e-30,1e6] including the reference's own e^k +- ulps, pow over positive/negative bases and +- exponents, and the leader-check range (1-f)^sigma - exp, ln and pow must return exactly the digits of an independent num-bigint port of the reference algorithm (through == and through the printed string) and lie within an analytic error bound of a 400-bit true value.",
   "Sampled; the port was written from the algorithm description because the golden vectors are absent in this sandbox, so a shared misreading would only be caught by the truth-within-tolerance oracle."),
 "C16": ("pv-math", "exploration", "proptest with a reference port of taylorExpCmp and a 400-bit e^x as ground truth",
   "For 150 k cases per quick run with x >= 0, a bound exceeding e^x by construction, compare values from 1e-30 relative distance and exact +-ulp neighbours of e^x up to 2x, and max_n in 1..1000, exp_cmp must return the same estimate, iteration count and approximation as the port of the reference, including along the leader-check flow at the threshold +- ulps; against the true e^x no LT may be wrong and no GT may be wrong by more than the recorded last-ulp window.",
   "A GT that is wrong by < 1 ulp (1e-34) exists for x in [1.4e-12, 8.4e-12]; it is inherent in the reference algorithm that pallas must reproduce (known finding); larger errors carry a different signature."),
 "C17": ("pv-math", "exploration", "proptest against exact integer arithmetic in num-bigint; own printer/parser",
   "For ~410 k cases per quick run over random 0-72-digit values, integers, half-way points and their ulp neighbours, both signs: + - x / at precision 34 in all four operator forms equal the exact sum/difference, floored product and truncated quotient; floor/ceil/trunc/round are the prescribed integers; comparisons agree with the integers; the printed form reads back to the stored value with exactly `precision` fractional digits, at precisions {0,1,3,10,34,50}.",
   "Operators at precisions other than 34 and Abs are not covered; comparisons only between equal precisions."),
 "C18": ("pv-addr", "exploration", "by-construction proptest + (type x network) grid; independent CIP-19 byte model, varint and bech32 encoders",
   "Addresses of all ten Shelley/stake types on all sixteen network ids are built from generated hashes and pointers and compared with wire bytes produced by an independent CIP-19 model: header byte, payload, hex and bech32 text, HRP, and the parsed-back value through from_bytes, try_from, from_hex, from_bech32 and from_str. The (type x id) grid is covered cell by cell with boundary payloads; 1.5 M random addresses and as many varuint values around every 7-bit boundary are added.",
   "Reference encoders self-tested against CIP-19 / BIP-173 vectors at start-up."),
 "C19": ("pv-addr", "exploration", "proptest + bounded-exhaustive single-bit fault injection per generated address; independent CRC-32, CBOR reader and base58 encoder",
   "Byron addresses of every type and attribute set are built through AddressPayload::new / from_decoded, checked against an independent CBOR model and CRC-32 and parsed back through all seven entry points (bytes, base58, hex, FromStr). For ~5 k addresses per quick run and three published mainnet vectors every single-bit flip is applied: flips in payload or checksum bytes must be rejected by every entry point, any other result must still carry a matching checksum; forged frames with wrong checksums, damaged payloads and over-wide checksum integers are added.",
   "Sampled over address contents; exhaustive over single-bit flips of each sampled address. Addresses longer than 132 bytes do not survive base58 (dependency limit, known finding)."),
 "C21": ("pv-msg", "exploration", "proptest over message sequences x segmentations (all single cuts for short streams, all 1-byte segments, random cut sets) on in-memory bearers of both stacks",
   "Sequences of 1..12 messages of every core protocol are concatenated and cut at every single position (streams <= 64 bytes and all ordered pairs of variants), into 1-byte segments, at random cut sets and at forced 65535-byte chunks. net1: two Plexers over UnixStream::pair, raw enqueue_chunk per segment, recv_full_msg per message plus a sentinel; net2: write_segment / read_full_msgs with a persistent partial-chunk map and AnyMessage::from_payload fed incrementally. Oracle: same messages, same order, no error, no left-over bytes.",
   "Timeouts make a run inconclusive, never a violation. Messages that do not round-trip in isolation are excluded (they belong to C22)."),
 "C22": ("pv-msg", "exploration", "proptest generators for 144 message variants of both stacks; strict independent CBOR reader + decode/re-encode equality",
   "Every variant of every message type in both stacks (handshake n2n/n2c, chainsync, blockfetch, txsubmission, keepalive, peersharing, localstate queries/results, localtxsubmission with the Conway rejection tree, DMQ, txmonitor, Leios notify/fetch) is generated with representable field combinations; the encoding must be exactly one well-formed CBOR item for the independent cborx reader (declared lengths match contents), decode with every byte consumed to an equal message and re-encode identically.",
   "Only 12 of the local-state result types are generated; the large governance-state results are not."),
 "C40": ("pv-txb", "exploration", "stateful proptest: staging-op sequences against an independent model; built bytes read back with cborx + Blake2b + minicbor",
   "Random sequences of up to 28 staging operations (inputs with duplicates and removals, outputs with assets/datums/script references, cancelling mints, spend/mint redeemers, witness scripts and datums, auxiliary data, bounds, network id, signers) are applied to StagingTransaction and to an independent model; after build_conway_raw the bytes are read back with an independent CBOR reader and compared field by field, the id is recomputed with an independent Blake2b-256 over the body span, redeemer indices are recomputed over the sorted de-duplicated input set and the sorted minted policies, and the bytes must decode as conway::Tx. Panics are violations.",
   "Redeemers without ex-units (todo!()), certificate/withdrawal fields, script_data_hash and integer overflow while staging are outside what is checked."),
 "C41": ("pv-txb", "exploration", "stateful proptest against a map model; ed25519-dalek as signature oracle",
   "On transactions built from random staging sequences, random sequences of up to 12 sign / add_signature / remove_signature over four keys are executed; after every step the body span and id must be unchanged, the signature map must hold exactly the keys the operations leave, and the witness set read with an independent CBOR reader must contain exactly one witness per map key, each verified with ed25519-dalek against the id.",
   "Pool of four keys, Conway-built transactions only."),
 "C05": ("pv-ledger", "exploration", "corpus + structural CBOR mutator (meaning-preserving re-encodings); independent span extraction with cborx and Blake2b reference",
   "Every block/tx/header of the corpus (quick: test_data; thorough: + 1777 chunk blocks) and form mutations of them at 1-6 random nodes (def<->indef containers, non-minimal heads, chunked strings, set tags, reordered map entries, also inside tag-24 embedded CBOR) are decoded; a mutated artefact is kept only if pallas still decodes it (accept rate per family reported). cborx locates the exact byte span of each header, transaction body, datum and script in the (mutated) bytes; the expected id is the harness' Blake2b of that span with the era rule and must equal MultiEraBlock/Header/Tx::hash and OriginalHash on datums and scripts.",
   "Block layout knowledge is transcribed from the CDDL in src/layout.rs."),
 "C06": ("pv-prim", "exploration", "corpus isomorphism over all 1873 artefacts + choice-sequence generated values of 62 era type families; round-trip and field-placement oracles via cborx",
   "(a) every artefact (96 test_data files + 1777 chunk blocks, both tiers) must re-encode byte-identically through the era codecs, every KeepRaw part reached must survive decode(to_vec(inner)), headers taken out of blocks must be isomorphic on their own; differences are located with a cborx tree diff and keyed by root cause. (b) values of 62 era type families are built from seed-free choice sequences (only representable values) and must satisfy decode(to_vec(v)) == v with full consumption; a field-placement oracle compares fee, ttl, hashes and counts against an independent cborx reading of the same bytes.",
   "conway8.block needs the `relaxed` feature and is counted as skipped. Blocks whose transaction sequences are indefinite-length arrays are a known finding (repair changes public field types and the serde form)."),
 "C07": ("pv-prim", "exploration", "proptest: structural round-trip incl. def/indef flags, chunking oracle through cborx, order laws on derived triples",
   "Generated PlutusData to depth 4 (all constructor-tag ranges, integers over the whole CBOR range, big integers with and without leading zeros, byte strings around the 64-byte chunk boundary, definite and indefinite containers): decode(to_vec(v)) must be structurally identical including def/indef flags; the encoding's byte strings must be chunked exactly as the Haskell implementation does (checked with cborx) and any cborx-produced chunking must decode to the concatenation; reflexivity, antisymmetry, transitivity, == <=> Equal, partial_cmp == Some(cmp) on triples derived by small edits so comparisons descend; flipping def/indef flags must not change equality or order.",
   "No particular ranking between kinds is asserted (the statement only requires a total order)."),
 "C08": ("pv-prim", "exploration", "proptest: cborx-built witness sets x every subset of language views; independent encoder of the language views + Blake2b reference; five real transactions",
   "Witness-set bytes are written by cborx (redeemers as list or map or absent; datums absent / definite / indefinite / with or without tag 258, each datum arbitrary non-canonical PlutusData bytes) and decoded as conway::WitnessSet; language views over every subset of {V1,V2,V3} with random-length cost vectors incl. negative and extreme coefficients. Expected hash = harness Blake2b-256 of redeemer bytes (or a0) || datum bytes as they appeared || own canonical encoding of the language views; build_for must be None iff there are neither redeemers nor datums. The five real transactions of the repo's vectors are included with the hash read from body key 11.",
   "Redeemers are generated in the library's canonical form (the statement only promises 'as they appeared' for datums)."),
 "C20": ("pv-net", "exploration", "randomised schedules of concurrent sender/receiver tasks over two connected Plexers (in-memory Unix socket pair); stamped-payload delivery oracle",
   "About 1000 schedules per quick run of 2-6 agents (both roles, both directions, up to 6 protocol ids) on two connected Plexers over UnixStream::pair under a multi-threaded tokio runtime; generated chunk scripts (sizes 0..65535 with edges emphasised) and generated yield counts. Every receiver must get exactly the chunks its opposite-role peer on the same protocol enqueued, byte-identical and in order, nothing else; a lost chunk is detected by a later-enqueued sentinel rather than a timeout.",
   "The tokio scheduler is not owned by the harness: interleavings are sampled, not enumerated. A stalled schedule is inconclusive (exit 2), never a violation."),
 "C23": ("pv-net", "exploration", "exhaustive (agent, state, action) triples + random walks against hand-transcribed specification tables, agents driven over connected multiplexers",
   "21 client/server agents of the original stack are driven over a Plexer pair with a raw channel on the other side that injects any encoded message and reads what the agent sends. For every reachable (state, message, role) triple: send_message is Ok exactly for messages the specification lets this role send, recv_message is Ok(m) exactly for messages the peer may send and otherwise Err with state() unchanged, and after each high-level method state() is the specification's next state. 2396 exhaustive triples plus 60 k random walks per quick run.",
   "Trusts src/spec.rs (transcribed from the Ouroboros network specification). Payload constraints (cookie echo, non-empty blocking replies) and simultaneous-open handshake are not judged; tx-monitor busy states are merged at the low-level receive as pallas has one Busy state."),
 "C25": ("pv-net", "exploration", "proptest over pairs of version tables for both stacks' responders; harness-side CBOR codec for Propose/replies",
   "Random pairs of version tables (0..16 versions from a 20-number alphabet, overlapping / disjoint / nested, magics from a 3-value alphabet) are negotiated by net1 handshake::Server (N2N and N2C data; the Propose is encoded and the reply parsed by the harness with cborx) and by net2 ResponderBehavior driven by events. Oracle: an Accept names a version in both tables with no higher common version and agreeing magic; disjoint key sets yield Refuse(VersionMismatch(responder's versions)).",
   "Nothing is asserted about refusals when a common version exists (the statement constrains accepts only)."),
 "C26": ("pv-net", "exploration", "stateful proptest against an independent list model (op sequences <= 200 over a 6-point alphabet)",
   "Sequences of roll_forward / roll_back / pop_with_depth over a small point alphabet (forcing duplicates and misses) are applied to RollbackBuffer and to a Vec model; after every op the full content, size, latest, oldest and every position are compared; roll-back to an unknown point must empty the buffer and report out-of-scope; with duplicate points any occurrence is accepted and the model continues from the buffer's content.",
   "Sampled sequences."),
 "C30": ("pv-ledger", "exploration", "corpus + cborx-assembled synthetic blocks (random invalid lists, sparse aux maps); independent layout oracle",
   "For every corpus block and for synthetic blocks assembled by cborx from real parts of one era (0..8 transactions, random invalid-transaction lists incl. duplicates, sparse auxiliary-data maps in random key order): era() must be the wrapper's tag, tx_count the number of bodies, and the i-th traversed transaction must have the hash of body i, the raw witness set i, the aux entry keyed i (or none) and is_valid() == (i not in the invalid list); Byron payload entries in order.",
   "No test_data block contains an invalid transaction; that half is covered by the synthetic blocks."),
 "C31": ("pv-ledger", "exploration", "corpus transactions under both validity flags + generated variants; cborx view of the body as oracle",
   "Every corpus transaction under both values of the validity flag (flipped by cborx) plus variants with duplicated inputs and added/removed collateral return: valid => consumes() = inputs without repeats and produces() = outputs at 0..n-1; invalid => consumes() = collateral and produces() = [(n, collateral_return)] or empty; produces_at(i) agrees with produces() for i in 0..n+2; inputs_sorted_set() strictly increasing in (tx id, index) and set-equal to the inputs.",
   "Order of consumes()/produces() is not asserted."),
 "C32": ("pv-ledger", "exploration", "dense enumeration around era and epoch boundaries + 8 M random slots for the four well-known networks",
   "For mainnet, testnet, preview and preprod: slots 0..5000, every era boundary +-2000, the first 200 epoch boundaries of each era +-2 and millions of random slots in [0, 2^40): slot-in-epoch must be below the era's epoch size in slots, relative->absolute must give the slot back, the epoch number must match the independent formula, and slot_to_wallclock must advance by exactly the era's slot length per slot including across the hard fork.",
   "Two known findings are pinned by the repo's own tests and therefore recorded, not repaired: Byron-era slot-in-epoch (remainder taken in seconds) and the testnet Byron/Shelley clock offset."),
 "C44": ("pv-ledger", "exploration", "corpus through both schema mappers + generated datums; independent cborx/Blake2b reading and exact integer comparison in num-bigint",
   "Every corpus block/tx is mapped by v1alpha::Mapper and v1beta::Mapper (no-op ledger context): hash = Blake2b of the body span; inputs, output address bytes/coin/assets, fee, validity and datum hashes must equal the values read through cborx; generated datums (integers over the whole CBOR range, bignums) alone and attached to outputs under both validity flags: every Plutus integer's mathematical value must equal the source's and CBOR integers must be Int exactly when they fit i64.",
   "Inputs compared as sets; a small value arriving as a tag-2/3 bignum may stay big-integer bytes (value compared)."),
}

NOT_YET = {}

def main():
    props = [json.loads(l) for l in open('properties.jsonl')]
    checks = []
    for p in props:
        i = p['id']
        if i not in CHECKS:
            continue
        g, cat, tech, text, note = CHECKS[i]
        checks.append({
            "property_id": i,
            "quick_cmd": f"./check {i} quick",
            "thorough_cmd": f"./check {i} thorough",
            "evidence_file": f"/verif/evidence/{i}.json",
            "replay_cmd_template": f"./check {i} --replay {{path}}",
            "engine": g,
            "level_claimed": {"category": cat, "text": text, "design_ref": f"DESIGN.md §2 {i}"},
            "level_note": note,
            "technique": tech,
        })
    na = [{"property_id": p['id'], "reason": NOT_YET.get(p['id'], "check not built yet in this round; design in DESIGN.md §2")}
          for p in props if p['id'] not in CHECKS]
    groups = sorted({v[0] for v in CHECKS.values()})
    manifest = {
        "version": 1,
        "setup_cmd": "./setup.sh",
        "hooks": {
            "guard": "pallas_verif",
            "enable": "no source hooks are used: every observation point is public API; the harness builds /repo's crates as path dependencies (release, debug-assertions and overflow-checks on)",
            "baseline_off_cmd": "cd /repo && cargo test --workspace --no-fail-fast --offline",
            "source_commits": [],
            "add_only": True,
        },
        "engines": [{"name": g, "path": f"harness/crates/{g}",
                     "serves_properties": sorted(k for k, v in CHECKS.items() if v[0] == g),
                     "kind_free_text": "Rust binary: proptest strategies run through a sharded deterministic TestRunner (pvkit), explicit oracles, shrinking, replay files"}
                    for g in groups],
        "checks": checks,
        "not_applicable": na,
        "notes": "All checks: ./check <ID> quick|thorough [--replay FILE]; VERIF_SEED selects the PRNG stream. Exit 2 = inconclusive (build failure, watchdog, generator health), never a violation. Known findings: /verif/known_findings.json.",
    }
    json.dump(manifest, open('MANIFEST.json', 'w'), indent=1)
    json.dump({k: v[0] for k, v in CHECKS.items()}, open('groups.json', 'w'), indent=1, sort_keys=True)
    try:
        import jsonschema
        jsonschema.validate(manifest, json.load(open('/root/.vp/MANIFEST.schema.json')))
        print("MANIFEST.json valid;", len(checks), "checks,", len(na), "not_applicable")
    except ImportError:
        print("jsonschema not importable; skipped validation")

if __name__ == '__main__':
    main()
