#!/usr/bin/env python3
"""Regenerates MANIFEST.json and groups.json from the table below (run from /verif)."""
import json, os, sys

# id -> (group, category, technique, level text, level note)
CHECKS = {
 "C01": ("pv-codec", "exploration", "proptest generated sequences + bounded-exhaustive offset family; round-trip oracle",
   "Generated-input search: mixed sequences of flat primitives (values biased to 7-bit group and 255-byte block edges) are written by one Encoder and read back by mirrored Decoder calls; oracle = equality of every value and full consumption (pos==len, used_bits==0). The (item kind x start bit offset) matrix is measured and every cell must be hit. Exploration is the right level: the input space is unbounded, the oracle is an exact inverse.",
   "Trusts the harness' own size model only for classifying offsets (not for the verdict)."),
 "C02": ("pv-codec", "exploration", "proptest generated (buffer, decoder-call program) + exhaustive 0xff-run/truncation families; no-panic and cursor-in-bounds oracle",
   "Every public decoder entry point is driven over buffers <= 64 bytes: exhaustively for all continuation-run lengths x entry points x leading bit counts and for all truncations of boundary encodings, and by generated programs of 1..16 calls over random / structured buffers. Oracle: each call returns Ok or Err (panics are caught and reported with a root-cause signature) and the cursor stays inside the buffer.",
   "Built with debug-assertions and overflow-checks on (the semantics the project's own test profile uses), so arithmetic overflow is a panic. bits8(0) is outside the domain."),
 "C03": ("pv-codec", "exploration", "proptest: in-memory value recipes + cborx grammar of accepted encodings; round-trip / byte-identity oracle via an independent CBOR writer",
   "Three generated families: (a) values of every helper type built from plain recipes must satisfy decode(to_vec(v)) == v, consume everything and encode to one well-formed item (checked by the independent cborx reader); (b) encodings drawn from a grammar of what each wrapper accepts (non-minimal heads, indefinite strings and containers, tags, simple values, floats, depth <= 3) must re-encode byte-identically for the form-keeping wrappers and value-stably for the rest; (c) KeepRaw mutated through deref_mut must re-encode from its content. Accept rates of the grammars are measured and asserted.",
   "Form preservation of KeyValuePairs / NonEmptyKeyValuePairs / MaybeIndefArray is asserted only when the container's own length head is minimal (they document keeping definite-vs-indefinite only). Inputs rejected by a decoder are counted as discards."),
 "C04": ("pv-codec", "exploration", "bounded-exhaustive boundary family + proptest; cborx-built Conway values/bodies; zero=>Err, admissible=>Ok(value) oracle",
   "Every (site x sign x boundary magnitude x admissible head width x sibling slot) combination is enumerated, plus random magnitudes: the integer is decoded as PositiveCoin / NonZeroInt directly and at the asset-quantity, mint, collateral-return and donation positions of Conway values and transaction bodies written by the independent cborx writer. Oracle in both directions: zero must be rejected, admissible non-zero must be accepted with exactly the encoded number, and no Ok result may hold 0.",
   "Synthetic bodies contain only the mandatory fields plus the probed one; out-of-range magnitudes only need to not produce a zero."),
 "C24": ("pv-net2", "exploration", "exhaustive (state class x message) table + all specification-following sequences <= 8 + random walks, against hand-transcribed specification tables",
   "For each of the eight P2P-stack protocol machines the complete (state class x message variant) table is enumerated with two payload variations each, then every message sequence of length <= 6 (quick) / 8 (thorough) that follows specification edges from the initial state with the full table re-checked at every visited state, then random walks to length 40. Oracle: State::apply is Ok exactly on specification edges and returns exactly the state the specification prescribes including the carried data (states are compared with ==, using harness-chosen content types that implement PartialEq). Known deviations are stepped over by substituting the specification's state, so the search continues behind them.",
   "Trusts the specification tables in harness/crates/pv-net2/src/spec.rs (transcribed from the Ouroboros network specification; Leios from the module documentation)."),
 "C27": ("pv-net2", "exploration", "stateful model-based exploration: fingerprint-de-duplicated BFS over op sequences + random long sequences; set-invariant and banned-history oracle",
   "The harness plays the network interface of InitiatorBehavior (events are applied only when a real connection could deliver them). All op sequences up to depth 6/8 (3 peers, limits 2/1/1, error threshold 0) and 8/10 (2 peers, limits 3/2/1) are explored breadth-first with de-duplication on an abstract fingerprint (peer states, sets, interface model), plus random sequences of length 200 over 20 and 6 peers. After every op: the four peer sets pairwise disjoint, within the configured limits, and no Connect command for a peer that was banned before that op (by violation, error threshold or explicit command).",
   "HashMap iteration order inside the behaviour is not controlled (invariants must hold for every order; state counts vary slightly between runs). A Connect emitted in the same step in which the peer becomes banned is not judged."),
 "C28": ("pv-net2", "exploration", "schedule exploration with a harness-owned interface: BFS over delayed Sent/Recv deliveries + random schedules, specification-conformant simulated responder, per-connection wire-state oracle",
   "The harness owns the logical schedule: emitted Sends go on a per-peer wire in emission order and are judged at emission time against the per-(peer, protocol) specification state; Sent confirmations are delivered FIFO at arbitrary later steps; a simulated responder answers with any reply the specification allows, only where it holds agency and after the initiator's message was confirmed. Exhaustive de-duplicated BFS of all schedules up to depth 6/8 after the handshake prefix (1 peer, versions 13 and 15/Leios) and random schedules up to 300 steps over 3 peers. Signatures distinguish emissions made while an earlier message is unconfirmed (the recorded root cause) from emissions made on confirmed state (would be a new defect).",
   "The real TCP interface's futures are not exercised; wire order is assumed equal to emission order. Behaviour-internal queues are mirrored by counters in the fingerprint."),
 "C29": ("pv-net2", "exploration", "proptest sequences of arbitrary interface events and commands; no-panic oracle with root-cause panic signatures",
   "Sequences of up to 300 arbitrary interface events over 4 known peers and one unknown peer (duplicate Connected, Sent of never-emitted messages, Recv of any message of any protocol in any state, Error, Disconnected, Idle) interleaved with every external command are fed to InitiatorBehavior (default and tight promotion limits) and ResponderBehavior; afterwards a housekeeping pass and a full drain must still work. Any panic is caught and reported with a signature naming file, function and message.",
   "Default configurations only (plus one tight promotion configuration); message payloads come from a recipe pool, not arbitrary bytes."),
}

NOT_YET = {}

def main():
    props = [json.loads(l) for l in open('properties.jsonl')]
    checks = []
    for p in props:
        i = p['id']
        if i not in CHECKS:
            continue
        g, cat, tech, text, note = CHECKS[i]
        checks.append({
            "property_id": i,
            "quick_cmd": f"./check {i} quick",
            "thorough_cmd": f"./check {i} thorough",
            "evidence_file": f"/verif/evidence/{i}.json",
            "replay_cmd_template": f"./check {i} --replay {{path}}",
            "engine": g,
            "level_claimed": {"category": cat, "text": text, "design_ref": f"DESIGN.md §2 {i}"},
            "level_note": note,
            "technique": tech,
        })
    na = [{"property_id": p['id'], "reason": NOT_YET.get(p['id'], "check not built yet in this round; design in DESIGN.md §2")}
          for p in props if p['id'] not in CHECKS]
    groups = sorted({v[0] for v in CHECKS.values()})
    manifest = {
        "version": 1,
        "setup_cmd": "./setup.sh",
        "hooks": {
            "guard": "pallas_verif",
            "enable": "no source hooks are used: every observation point is public API; the harness builds /repo's crates as path dependencies (release, debug-assertions and overflow-checks on)",
            "baseline_off_cmd": "cd /repo && cargo test --workspace --no-fail-fast --offline",
            "source_commits": [],
            "add_only": True,
        },
        "engines": [{"name": g, "path": f"harness/crates/{g}",
                     "serves_properties": sorted(k for k, v in CHECKS.items() if v[0] == g),
                     "kind_free_text": "Rust binary: proptest strategies run through a sharded deterministic TestRunner (pvkit), explicit oracles, shrinking, replay files"}
                    for g in groups],
        "checks": checks,
        "not_applicable": na,
        "notes": "All checks: ./check <ID> quick|thorough [--replay FILE]; VERIF_SEED selects the PRNG stream. Exit 2 = inconclusive (build failure, watchdog, generator health), never a violation. Known findings: /verif/known_findings.json.",
    }
    json.dump(manifest, open('MANIFEST.json', 'w'), indent=1)
    json.dump({k: v[0] for k, v in CHECKS.items()}, open('groups.json', 'w'), indent=1, sort_keys=True)
    try:
        import jsonschema
        jsonschema.validate(manifest, json.load(open('/root/.vp/MANIFEST.schema.json')))
        print("MANIFEST.json valid;", len(checks), "checks,", len(na), "not_applicable")
    except ImportError:
        print("jsonschema not importable; skipped validation")

if __name__ == '__main__':
    main()
