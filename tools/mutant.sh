#!/usr/bin/env bash
# tools/mutant.sh <wt-name> <group> <ID> <pallas-crate> [tier]  -- expects the mutation already applied in /tmp/<wt-name>
# Builds the group against the scratch worktree (cargo paths override) and runs the check there.
set -u
WT=/tmp/$1; G=$2; ID=$3; CRATE=$4; TIER=${5:-quick}
cd /verif/harness
CFG="paths=[\"$WT/$CRATE\"]"
CARGO_NET_OFFLINE=true CARGO_TARGET_DIR=$WT/th cargo build --release --offline -p $G --config "$CFG" 2>&1 | grep -E "^error" -A8 | head -30
PALLAS_REPO=$WT PV_OUT_DIR=$WT/out $WT/th/release/$G $ID --tier $TIER 2>&1 | tail -4
echo "exit=$?"
