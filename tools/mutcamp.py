#!/usr/bin/env python3
"""tools/mutcamp.py <worktree> <ID> [<ID> ...] [--n 12] [--seed 1]

Mutation campaign (sensitivity measurement, never touches /repo): for each property, small syntactic
mutants are generated inside the functions the property's anchors name (`anchors.mechanism[].where`),
applied one at a time in the scratch worktree, the property's harness group is built against the worktree
(cargo `paths` override) and the quick check is run. A mutant the check misses is then run against the
touched crate's own tests: only mutants that *compile, pass the existing tests and are missed* need triage
(equivalent mutant / outside the property / generator gap).

Results: /verif/seeded/_mutcamp/<ID>.json (one record per mutant).  The worktree must be a git worktree of /repo.
"""
import json, os, re, subprocess, sys, random, time, glob, hashlib

def sh(cmd, cwd=None, env=None, timeout=3600):
    e = dict(os.environ); e.update(env or {}); e['CARGO_NET_OFFLINE'] = 'true'
    # own process group, so that a timeout also ends the test binaries cargo started (a hung one would keep its TCP port)
    p = subprocess.Popen(cmd, shell=True, cwd=cwd, env=e, stdout=subprocess.PIPE, stderr=subprocess.STDOUT, text=True, start_new_session=True)
    try:
        out, _ = p.communicate(timeout=timeout)
        return p.returncode, out
    except subprocess.TimeoutExpired:
        try:
            os.killpg(p.pid, 9)
        except ProcessLookupError:
            pass
        p.wait()
        return 124, 'timeout'

REL = [(' <= ', ' < '), (' < ', ' <= '), (' >= ', ' > '), (' > ', ' >= '), (' == ', ' != '), (' != ', ' == ')]
ARI = [(' + 1', ''), (' - 1', ''), (' + ', ' - '), (' - ', ' + '), (' * ', ' + '), (' / ', ' * '), (' % ', ' / '),
       (' << ', ' >> '), (' >> ', ' << '), (' & ', ' | '), (' | ', ' & ')]
BOOL = [(' && ', ' || '), (' || ', ' && '), ('true', 'false'), ('false', 'true')]
CALLS = [('.min(', '.max('), ('.max(', '.min('), ('saturating_sub', 'wrapping_sub'), ('checked_add', 'checked_sub'),
         ('push_back', 'push_front'), ('pop_front', 'pop_back'), ('.first()', '.last()'), ('.last()', '.first()'),
         ('.is_some()', '.is_none()'), ('.is_none()', '.is_some()'), ('.is_empty()', '.len() == 1'), ('.iter()', '.iter().skip(1)'),
         ('.rev()', ''), ('..=', '..'), ('as u64', 'as u32 as u64'), ('Ordering::Less', 'Ordering::Greater'),
         ('Some(', 'None.or(Some('), ('.any(', '.all('), ('.all(', '.any(')]

def fn_spans(src):
    """(name, start_line, end_line) of every fn with a body, by brace matching (good enough for rustfmt-ed code)."""
    out = []
    lines = src.split('\n')
    i = 0
    while i < len(lines):
        m = re.match(r'\s*(?:pub(?:\([^)]*\))?\s+)?(?:const\s+)?(?:async\s+)?(?:unsafe\s+)?fn\s+([A-Za-z0-9_]+)', lines[i])
        if m:
            depth = 0; started = False; j = i
            while j < len(lines):
                code = re.sub(r'//.*', '', lines[j])
                code = re.sub(r'"(?:\\.|[^"\\])*"', '""', code)
                code = re.sub(r"'(?:\\.|[^'\\])'", "' '", code)
                for ch in code:
                    if ch == '{': depth += 1; started = True
                    elif ch == '}': depth -= 1
                if started and depth <= 0: break
                if not started and code.rstrip().endswith(';'): break
                j += 1
            if started:
                out.append((m.group(1), i, j))
            i += 1   # nested fns are found too
        else:
            i += 1
    return out

def test_mod_start(lines):
    for k, l in enumerate(lines):
        if re.match(r'\s*#\[cfg\(test\)\]', l):
            return k
    return len(lines)

def candidates(path, src, names):
    lines = src.split('\n')
    tstart = test_mod_start(lines)
    cands = []
    for name, a, b in fn_spans(src):
        if a >= tstart: continue
        if names and name not in names: continue
        for ln in range(a + 1, b):
            l = lines[ln]
            st = l.strip()
            if not st or st.startswith('//') or st.startswith('#[') or 'trace!' in st or 'debug!' in st or 'warn!' in st or 'info!' in st or 'error!' in st or 'assert' in st:
                continue
            code = l.split('//')[0]
            for fam, table in (('rel', REL), ('ari', ARI), ('bool', BOOL), ('call', CALLS)):
                for old, new in table:
                    for m in re.finditer(re.escape(old), code):
                        if fam in ('rel',) and ('<' in old or '>' in old) and re.search(r'(::|impl|fn |where |->|=>)\s*$', code[:m.start()]):
                            continue
                        if old in ('true', 'false') and re.search(r'[A-Za-z0-9_]$', code[:m.start()] + ' ') is None:
                            pass
                        if old in ('true', 'false') and (re.search(r'[A-Za-z0-9_]$', code[:m.start()]) or re.search(r'^[A-Za-z0-9_]', code[m.end():])):
                            continue
                        cands.append((path, name, ln, m.start(), old, new, fam))
            # integer literal +1
            for m in re.finditer(r'(?<![A-Za-z0-9_.])(\d+)(?![A-Za-z0-9_.x])', code):
                v = int(m.group(1))
                if v > 100000: continue
                cands.append((path, name, ln, m.start(), m.group(1), str(v + 1), 'lit'))
            # statement deletion: a complete single-line statement that is not a binding / return / control flow
            if st.endswith(';') and not re.match(r'(let |return|break|continue|use |const |static |type |\}|\)|\])', st) and st.count('(') == st.count(')') and not st.startswith('.'):
                prev = lines[ln - 1].strip() if ln > 0 else ''
                if prev.endswith((';', '{', '}')) or prev == '':
                    cands.append((path, name, ln, 0, l, '', 'del'))
    return cands

def main():
    args = sys.argv[1:]
    wt = args[0]
    n = 12; seed = 1
    ids = []
    k = 1
    while k < len(args):
        if args[k] == '--n': n = int(args[k + 1]); k += 2
        elif args[k] == '--seed': seed = int(args[k + 1]); k += 2
        else: ids.append(args[k]); k += 1
    props = {json.loads(l)['id']: json.loads(l) for l in open('/verif/properties.jsonl')}
    groups = json.load(open('/verif/groups.json'))
    os.makedirs('/verif/seeded/_mutcamp', exist_ok=True)
    head = subprocess.check_output(['git', '-C', '/repo', 'rev-parse', 'HEAD'], text=True).strip()
    for cid in ids:
        pr = props[cid]; group = groups[cid]
        sh(f'git checkout -q -- . ; git checkout -q --detach {head}', cwd=wt)
        files = []
        for f in pr['anchors']['files']:
            p = f'{wt}/{f}'
            if os.path.isdir(p):
                files += [x for x in glob.glob(p + '/**/*.rs', recursive=True)]
            elif os.path.isfile(p) and p.endswith('.rs'):
                files.append(p)
        names = set()
        for mch in pr['anchors'].get('mechanism', []):
            for tok in re.findall(r'[A-Za-z_][A-Za-z0-9_]*', mch.get('where', '')):
                if tok[0].islower() or '_' in tok:
                    names.add(tok)
        cands = []
        for p in files:
            if '/tests/' in p or p.endswith('tests.rs'): continue
            src = open(p).read()
            cands += candidates(p, src, names)
        scoped = True
        if len(cands) < n * 2:   # names did not match functions: fall back to every function of the anchored files
            scoped = False
            cands = []
            for p in files:
                if '/tests/' in p or p.endswith('tests.rs'): continue
                cands += candidates(p, open(p).read(), None)
        rng = random.Random(int(hashlib.sha256(f'{cid}:{seed}'.encode()).hexdigest()[:8], 16))
        rng.shuffle(cands)
        # spread over functions and families
        picked = []; seen = {}
        for c in cands:
            key = (c[0], c[1], c[6])
            if seen.get(key, 0) >= 2: continue
            seen[key] = seen.get(key, 0) + 1
            picked.append(c)
            if len(picked) >= n * 3: break
        results = []
        outf = f'/verif/seeded/_mutcamp/{cid}.json'
        done = 0
        print(f'[{cid}] {len(cands)} candidate sites ({"named functions" if scoped else "all functions of anchored files"}), trying up to {n}', flush=True)
        for (path, fn, ln, col, old, new, fam) in picked:
            if done >= n: break
            sh('git checkout -q -- .', cwd=wt)
            lines = open(path).read().split('\n')
            orig = lines[ln]
            if fam == 'del':
                lines[ln] = ''
            else:
                code = lines[ln]
                lines[ln] = code[:col] + new + code[col + len(old):]
            open(path, 'w').write('\n'.join(lines))
            rel = os.path.relpath(path, wt)
            crate = rel.split('/')[0]
            rec = {'property': cid, 'file': rel, 'fn': fn, 'line': ln + 1, 'family': fam, 'before': orig.strip()[:160], 'after': lines[ln].strip()[:160]}
            cfg = f'paths=["{wt}/{crate}"]'
            rc, out = sh(f"cargo build --release --offline -p {group} --config '{cfg}' 2>&1 | tail -5", cwd='/verif/harness', env={'CARGO_TARGET_DIR': f'{wt}/th'}, timeout=1800)
            if 'Finished' not in out:
                rec['result'] = 'does-not-compile'
                results.append(rec); continue
            t0 = time.time()
            rc, out = sh(f'{wt}/th/release/{group} {cid} --tier quick', env={'PALLAS_REPO': wt, 'PV_OUT_DIR': f'{wt}/out', 'VERIF_DIR': '/verif', 'VERIF_SEED': '1'}, timeout=1500)
            rec['check_exit'] = rc; rec['wall_s'] = round(time.time() - t0, 1)
            rec['signatures'] = sorted(set(re.findall(r'^\[' + cid + r':[^\]]+\] (.+?) — ', out, re.M)))[:4]
            if rc == 1:
                rec['result'] = 'detected'
            elif rc == 0:
                feat = ' --features kes' if crate == 'pallas-crypto' else ''
                trc, tout = sh(f'cargo test -p {crate}{feat} --offline 2>&1 | tail -30', cwd=wt, env={'CARGO_TARGET_DIR': f'{wt}/target'}, timeout=2400)
                failed = bool(re.search(r'test result: FAILED|error(\[E\d+\])?: |panicked', tout))
                rec['existing_tests'] = 'fail' if failed else 'pass'
                rec['result'] = 'missed-but-killed-by-existing-tests' if failed else 'MISSED'
            else:
                rec['result'] = f'inconclusive-exit-{rc}'; rec['tail'] = out[-300:]
            done += 1
            results.append(rec)
            print(f"  {rec['result']:40s} {rel}:{ln+1} {fn} [{fam}] {rec['before'][:60]!r} -> {rec['after'][:60]!r}", flush=True)
            json.dump(results, open(outf, 'w'), indent=1)
        sh('git checkout -q -- .', cwd=wt)
        json.dump(results, open(outf, 'w'), indent=1)

if __name__ == '__main__':
    main()
