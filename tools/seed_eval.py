#!/usr/bin/env python3
"""tools/seed_eval.py <worktree> <ID> [--tier quick|thorough] [--no-demo] [--suffix b] [--at <repo rev>]

Evaluates one seeded defect produced by an independent sub-agent in <worktree>/_seed/<ID>/:
  1. applies patch.diff to a clean worktree, runs the unedited tests of every touched crate,
  2. runs the demonstration with and without the change (run.sh; exit code decides),
  3. builds the property's harness group against the worktree (cargo `paths` override) and runs the check,
  4. stores everything under /verif/seeded/<ID>/ (patch.diff, demo, notes, meta.json) and reverts the worktree.
Never touches /repo."""
import json, os, re, shutil, subprocess, sys, time

def sh(cmd, cwd=None, env=None, timeout=3600):
    e = dict(os.environ); e.update(env or {}); e['CARGO_NET_OFFLINE'] = 'true'
    # own process group, so that a timeout also ends the test binaries cargo started
    p = subprocess.Popen(cmd, shell=True, cwd=cwd, env=e, stdout=subprocess.PIPE, stderr=subprocess.STDOUT, text=True, start_new_session=True)
    try:
        out, _ = p.communicate(timeout=timeout)
        return p.returncode, out
    except subprocess.TimeoutExpired:
        try:
            os.killpg(p.pid, 9)
        except ProcessLookupError:
            pass
        p.wait()
        return 124, 'timeout'

def main():
    wt, cid = sys.argv[1], sys.argv[2]
    tier = 'quick'
    if '--tier' in sys.argv: tier = sys.argv[sys.argv.index('--tier') + 1]
    do_demo = '--no-demo' not in sys.argv
    suffix = sys.argv[sys.argv.index('--suffix') + 1] if '--suffix' in sys.argv else ''   # second-round seeds: /verif/seeded/<ID><suffix>/
    sd = f'{wt}/_seed/{cid}'
    patch = f'{sd}/patch.diff'
    assert os.path.exists(patch), patch
    groups = json.load(open('/verif/groups.json'))
    group = groups[cid]
    files = re.findall(r'^\+\+\+ b/(\S+)', open(patch).read(), re.M)
    crates = sorted({f.split('/')[0] for f in files if f.startswith('pallas')})
    meta = {'property': cid, 'files_changed': files, 'crates': crates, 'evaluated_at': time.strftime('%Y-%m-%dT%H:%M:%SZ', time.gmtime())}
    sh('git checkout -- . ', cwd=wt)
    # evaluate against the current /repo HEAD (later fix commits included)
    head = subprocess.check_output(['git', '-C', '/repo', 'rev-parse', 'HEAD'], text=True).strip()
    if '--at' in sys.argv:   # evaluate against an earlier /repo commit (a later fix: commit made the seeded change harmless)
        head = subprocess.check_output(['git', '-C', '/repo', 'rev-parse', sys.argv[sys.argv.index('--at') + 1]], text=True).strip()
        meta['evaluated_at_earlier_commit'] = True
    sh(f'git checkout -q --detach {head}', cwd=wt)
    meta['repo_head'] = head[:10]
    rc, out = sh(f'git apply --check {patch} && git apply {patch}', cwd=wt)
    meta['patch_applies'] = rc == 0
    if rc != 0:
        print('PATCH DOES NOT APPLY', out); meta['error'] = out[-2000:]
    else:
        # 1. unedited crate tests with the change
        tests = {}
        for c in crates:
            feat = ' --features kes' if c == 'pallas-crypto' else ''
            rc, out = sh(f'cargo test -p {c}{feat} --offline 2>&1 | tail -40', cwd=wt, env={'CARGO_TARGET_DIR': f'{wt}/target'})
            failed = re.findall(r'test result: FAILED|error(\[E\d+\])?: ', out)
            oks = len(re.findall(r'test result: ok', out))
            tests[c] = {'passes': not failed and oks > 0, 'ok_suites': oks}
            if failed: tests[c]['tail'] = out[-1500:]
        meta['existing_tests_with_change'] = tests
        # 2. demonstration with the change
        if do_demo and os.path.exists(f'{sd}/run.sh'):
            rc_with, out_with = sh(f'bash {sd}/run.sh', cwd=wt, env={'CARGO_TARGET_DIR': f'{wt}/target'}, timeout=2400)
            meta['demo_with_change'] = {'exit': rc_with, 'tail': out_with[-800:]}
        # 3. our check against the mutated tree (a demonstration script may have reverted or re-applied things: start again
        #    from a clean tree with exactly the patch)
        sh(f'git checkout -- . && git apply {patch}', cwd=wt)
        cfg = 'paths=[' + ','.join(f'"{wt}/{c}"' for c in crates) + ']'
        rc, out = sh(f"cargo build --release --offline -p {group} --config '{cfg}' 2>&1 | tail -20", cwd='/verif/harness', env={'CARGO_TARGET_DIR': f'{wt}/th'})
        if 'error' in out and 'Finished' not in out:
            meta['check'] = {'built': False, 'tail': out[-1500:]}
        else:
            shutil.rmtree(f'{wt}/out', ignore_errors=True)
            t0 = time.time()
            xenv = {'PALLAS_REPO': wt, 'PV_OUT_DIR': f'{wt}/out', 'VERIF_DIR': '/verif', 'VERIF_SEED': '1'}
            if cid == 'C43':   # ./check builds a second, unoptimised worker for C43
                sh(f"cargo build --profile opt0 --offline -p {group} --config '{cfg}' 2>&1 | tail -5", cwd='/verif/harness', env={'CARGO_TARGET_DIR': f'{wt}/th'})
                xenv['PV_C43_OPT0_WORKER'] = f'{wt}/th/opt0/{group}'
            rc, out = sh(f'{wt}/th/release/{group} {cid} --tier {tier}', env=xenv, timeout=7200)
            sigs = re.findall(r'^\[' + cid + r':([^\]]+)\] (.+?) — ', out, re.M)
            meta['check'] = {'built': True, 'tier': tier, 'exit': rc, 'detected': rc == 1, 'wall_s': round(time.time() - t0, 1),
                             'violations': [{'sub': s, 'signature': g} for s, g in sigs][:8], 'summary': out.strip().splitlines()[-1][:300] if out.strip() else ''}
            # ./check runs the pure-computation groups in the plain profile as well (no debug assertions, wrapping arithmetic)
            if rc == 0 and group in ('pv-crypto', 'pv-math', 'pv-codec', 'pv-addr'):
                rcb, outb = sh(f"cargo build --profile release-wrap --offline -p {group} --config '{cfg}' 2>&1 | tail -20", cwd='/verif/harness', env={'CARGO_TARGET_DIR': f'{wt}/th'})
                if 'Finished' in outb:
                    rc2, out2 = sh(f'{wt}/th/release-wrap/{group} {cid} --tier {tier}', env={'PALLAS_REPO': wt, 'PV_OUT_DIR': f'{wt}/out', 'VERIF_DIR': '/verif', 'VERIF_SEED': '1'}, timeout=7200)
                    sigs2 = re.findall(r'^\[' + cid + r':([^\]]+)\] (.+?) — ', out2, re.M)
                    meta['check'].update({'exit_plain_profile': rc2, 'detected': rc2 == 1, 'profile': 'detected only in the profile without debug assertions' if rc2 == 1 else 'both profiles',
                                          'violations': [{'sub': s, 'signature': g} for s, g in sigs2][:8], 'summary': out2.strip().splitlines()[-1][:300] if out2.strip() else ''})
                    if rc2 == 1: meta['check']['exit'] = 1
    # revert, then demo without the change
    sh('git checkout -- .', cwd=wt)
    if meta.get('patch_applies') and do_demo and os.path.exists(f'{sd}/run.sh'):
        rc_wo, out_wo = sh(f'bash {sd}/run.sh', cwd=wt, env={'CARGO_TARGET_DIR': f'{wt}/target'}, timeout=2400)
        meta['demo_without_change'] = {'exit': rc_wo, 'tail': out_wo[-800:]}
        sh('git checkout -- . && git clean -fdq -e _seed -e _taken -e target -e th -e out', cwd=wt)
    dst = f'/verif/seeded/{cid}{suffix}'
    os.makedirs(dst, exist_ok=True)
    for f in os.listdir(sd):
        if os.path.isfile(f'{sd}/{f}') and os.path.getsize(f'{sd}/{f}') < 400_000:
            shutil.copy(f'{sd}/{f}', f'{dst}/{f}')
    old = {}
    if os.path.exists(f'{dst}/meta.json'):
        old = json.load(open(f'{dst}/meta.json'))
    old.update(meta)
    json.dump(old, open(f'{dst}/meta.json', 'w'), indent=1)
    print(json.dumps({k: meta.get(k) for k in ['property', 'crates', 'patch_applies', 'existing_tests_with_change', 'check']}, indent=1)[:1800])
    subprocess.run(['python3', '/verif/tools/seed_needs.py'])
    print('demo with change exit:', meta.get('demo_with_change', {}).get('exit'), '| without:', meta.get('demo_without_change', {}).get('exit'))

if __name__ == '__main__':
    main()
