#!/usr/bin/env python3
"""Fills meta.json fields 'needs' (from the seeding agent's notes.md section "What it needs ... to manifest")
and 'ran' (what was run to confirm the change) for every /verif/seeded/<id>/. Idempotent."""
import json, glob, os, re, sys

def needs_of(notes):
    m = re.search(r'^#+[^\n]*needs[^\n]*\n(.*?)(?=^#+ |\Z)', notes, re.S | re.M | re.I)
    if not m:
        m = re.search(r'^#+[^\n]*(?:manifest|trigger)[^\n]*\n(.*?)(?=^#+ |\Z)', notes, re.S | re.M | re.I)
    if not m:
        return ''
    t = re.sub(r'```.*?```', ' ', m.group(1), flags=re.S)
    t = re.sub(r'\s+', ' ', t).strip()
    return t[:700]

def main():
    for d in sorted(glob.glob('/verif/seeded/*/')):
        mf = d + 'meta.json'
        if not os.path.exists(mf):
            continue
        m = json.load(open(mf))
        n = d + 'notes.md'
        if os.path.exists(n):
            nd = needs_of(open(n, errors='replace').read())
            if nd:
                m['needs'] = nd
        crates = ' '.join(m.get('crates', []))
        m['ran'] = [
            f"git apply patch.diff in a scratch worktree of /repo at {m.get('repo_head','?')}",
            f"cargo test -p <crate> --offline for: {crates} (unedited tests; must pass)",
            "bash run.sh (the demonstration) with the change and again after reverting it",
            f"cargo build --release -p <group> --config 'paths=[<worktree crates>]' in /verif/harness, then <group> {m['property']} --tier {m.get('check',{}).get('tier','quick')} with PALLAS_REPO=<worktree>",
        ]
        json.dump(m, open(mf, 'w'), indent=1)

if __name__ == '__main__':
    main()
