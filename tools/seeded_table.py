#!/usr/bin/env python3
"""Prints the markdown table of seeded defects (from seeded/*/meta.json) for DESIGN.md §3."""
import json, glob, os
rows = []
for f in sorted(glob.glob('/verif/seeded/*/meta.json')):
    m = json.load(open(f))
    cid = os.path.basename(os.path.dirname(f))
    if cid.startswith('_'): continue
    tests_ok = all(v.get('passes') for v in m.get('existing_tests_with_change', {}).values()) if m.get('existing_tests_with_change') else None
    dw = m.get('demo_with_change', {}).get('exit'); dwo = m.get('demo_without_change', {}).get('exit')
    c = m.get('check', {})
    sigs = ', '.join(sorted({v['signature'] for v in c.get('violations', [])}))[:110]
    det = 'yes' if c.get('detected') else ('NO' if c.get('built') else 'build failed')
    rows.append(f"| {cid} | {', '.join(m.get('files_changed', []))[:70]} | {m.get('needs', m.get('summary', '')).replace('|','/')[:220]} | {'pass' if tests_ok else 'FAIL' if tests_ok is False else '?'} | {dw}/{dwo} | {det} ({c.get('tier','')}, {c.get('wall_s','')} s) | `{sigs}` |")
print('| Property | Files changed | What it needs to manifest | crate tests with change | demo exit with/without | caught by `./check` | signature(s) |')
print('|---|---|---|---|---|---|---|')
print('\n'.join(rows))
