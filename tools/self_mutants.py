#!/usr/bin/env python3
"""Hand-written mutants (text replacements) of /repo applied in the scratch worktree /tmp/wt-self; each property check of the
group is built against it and must exit 1. Results: /verif/seeded/_self/results.json (never touches /repo)."""
import subprocess,re,os,json,sys
WT='/tmp/wt-self'
def sh(c,cwd=None,env=None):
    e=dict(os.environ); e.update(env or {}); e['CARGO_NET_OFFLINE']='true'
    p=subprocess.run(c,shell=True,cwd=cwd,env=e,capture_output=True,text=True); return p.returncode,p.stdout+p.stderr
M=[
 ('C39','pv-validate','pallas-validate','pallas-validate/src/phase1/mod.rs',
  'validate_tx(metx, txix.try_into().unwrap(), env, utxos, &mut delta_state)?;','validate_tx(metx, txix.try_into().unwrap(), env, utxos, cert_state)?;','validate directly on the caller state'),
 ('C39','pv-validate','pallas-validate','pallas-validate/src/phase1/mod.rs',
  '    *cert_state = delta_state;\n    Ok(())','    Ok(())','never commit the delta state'),
 ('C28','pv-net2','pallas-network2','pallas-network2/src/behavior/initiator/keepalive.rs',
  'if matches!(peer.keepalive, crate::protocol::keepalive::State::Client(_)) {','if !matches!(peer.keepalive, crate::protocol::keepalive::State::Done) {','keepalive sent in any non-Done state'),
 ('C28','pv-net2','pallas-network2','pallas-network2/src/behavior/initiator/chainsync.rs',
  '        if !state.chainsync.is_idle() {\n            tracing::trace!("chainsync is not idle, skipping request next");\n            return;\n        }\n','','request_next although chainsync is not idle'),
 ('C27','pv-net2','pallas-network2','pallas-network2/src/behavior/initiator/promotion.rs',
  'if self.required_warm_peers() > 0 && self.cold_peers.contains(pid) {','if self.cold_peers.contains(pid) {','promote to warm beyond the limit'),
 ('C27','pv-net2','pallas-network2','pallas-network2/src/behavior/initiator/promotion.rs',
  '        self.cold_peers.remove(pid);\n        self.banned_peers.insert(pid.clone());','        self.banned_peers.insert(pid.clone());','ban keeps the peer in the cold set'),
 ('C27','pv-net2','pallas-network2','pallas-network2/src/behavior/initiator/promotion.rs',
  '        self.hot_peers.remove(pid);\n        self.warm_peers.remove(pid);\n        self.cold_peers.insert(pid.clone());','        self.hot_peers.remove(pid);\n        self.cold_peers.insert(pid.clone());','demote leaves the peer in the warm set'),
 ('C34','pv-validate','pallas-validate','pallas-validate/src/utils.rs',
  '(Value::Coin(f), Value::Coin(s)) => f == s,','(Value::Coin(f), Value::Coin(s)) => f != s,','ada-only values compared with != (shelley-ma..babbage)'),
 ('C35','pv-validate','pallas-validate','pallas-validate/src/utils.rs',
  'vk_wit.signature.len() != Signature::SIZE {\n        return false;','vk_wit.signature.len() != Signature::SIZE {\n        return true;','verify_signature: wrong-length key or signature counts as valid'),
 ('C04','pv-codec','pallas-codec','pallas-codec/src/utils.rs',
  'impl TryFrom<u64> for PositiveCoin {\n    type Error = u64;\n\n    fn try_from(value: u64) -> Result<Self, Self::Error> {\n        if value == 0 {','impl TryFrom<u64> for PositiveCoin {\n    type Error = u64;\n\n    fn try_from(value: u64) -> Result<Self, Self::Error> {\n        if value == 1 {','PositiveCoin::try_from refuses 1 instead of 0'),
 ('C29','pv-net2','pallas-network2','pallas-network2/src/behavior/initiator/discovery.rs',
  'let amount = self.config.high_water_mark as usize - self.discovered.len();','let amount = 64usize - self.discovered.len();','peer request amount can underflow'),
 ('C24','pv-net2','pallas-network2','pallas-network2/src/protocol/chainsync.rs',
  'Message::AwaitReply => Ok(State::MustReply),\n                _ => Err(Error::InvalidInbound),\n            },\n            State::MustReply','Message::AwaitReply => Ok(State::MustReply),\n                Message::IntersectNotFound(tip) => Ok(Data::NoIntersection(tip.clone()).into()),\n                _ => Err(Error::InvalidInbound),\n            },\n            State::MustReply','chainsync accepts IntersectNotFound in CanAwait'),
 ('C37','pv-validate','pallas-validate','pallas-validate/src/phase1/babbage.rs',
  'if mem > prot_pps.max_tx_ex_units.mem || steps > prot_pps.max_tx_ex_units.steps {','if mem > prot_pps.max_tx_ex_units.mem && steps > prot_pps.max_tx_ex_units.steps {','babbage budget: both components must exceed'),
 ('C38','pv-validate','pallas-validate','pallas-validate/src/phase1/alonzo.rs',
  '    check_output_val_size(tx_body, prot_pps)?;\n','','alonzo: output value size rule dropped'),
 ('C38','pv-validate','pallas-validate','pallas-validate/src/phase1/conway.rs',
  'if !available_langs.contains(tx_lang) && !allowed_langs.contains(tx_lang) {','if false {','conway: language availability never enforced'),
 ('C35','pv-validate','pallas-validate','pallas-validate/src/phase1/babbage.rs',
  'check_required_signers(&tx_body.required_signers, vkey_wits, tx_hash)?;','','babbage: required signers unchecked'),
 ('C34','pv-validate','pallas-validate','pallas-validate/src/phase1/shelley_ma.rs',
  'res = add_values(&res, &Value::Coin(tx_body.fee), &neg_val_err)?;','','shelley-ma: fee left out of the produced side'),
 ('C36','pv-validate','pallas-validate','pallas-validate/src/phase1/conway.rs',
  'if tx_body.fee < (prot_pps.minfee_b + prot_pps.minfee_a * size) as u64 {','if tx_body.fee + 1 < (prot_pps.minfee_b + prot_pps.minfee_a * size) as u64 {','conway: min fee off by one lovelace'),
 ('C33','pv-validate','pallas-validate','pallas-validate/src/phase1/alonzo.rs',
  'if *n as u128 * 100 < fee_percentage {','if *n * 100 < fee_percentage as u64 {','alonzo: collateral product back in u64'),
]
res=[]
only=sys.argv[1:] 
for cid,grp,crate,f,old,new,desc in M:
    if only and cid not in only: continue
    sh('git checkout -- .',cwd=WT)
    head=subprocess.check_output(['git','-C','/repo','rev-parse','HEAD'],text=True).strip()
    sh(f'git checkout -q --detach {head}',cwd=WT)
    p=f'{WT}/{f}'; s=open(p).read()
    if old not in s:
        res.append((cid,desc,'PATTERN NOT FOUND')); print(res[-1]); continue
    open(p,'w').write(s.replace(old,new,1))
    rc,out=sh(f"cargo build --release --offline -p {grp} --config 'paths=[\"{WT}/{crate}\"]' 2>&1 | tail -5",cwd='/verif/harness',env={'CARGO_TARGET_DIR':f'{WT}/th'})
    if 'Finished' not in out:
        res.append((cid,desc,'BUILD FAILED '+out[-300:])); print(res[-1]); continue
    rc,out=sh(f'{WT}/th/release/{grp} {cid} --tier quick',env={'PALLAS_REPO':WT,'PV_OUT_DIR':f'{WT}/out','VERIF_DIR':'/verif'})
    sigs=sorted(set(re.findall(r'^\['+cid+r':[^\]]+\] (.+?) — ',out,re.M)))
    res.append((cid,desc,'exit=%d'%rc,sigs[:4])); print(res[-1],flush=True)
sh('git checkout -- .',cwd=WT)
prev=[]
if only and os.path.exists('/verif/seeded/_self/results.json'):
    prev=[x for x in json.load(open('/verif/seeded/_self/results.json')) if x['property'] not in only]
json.dump(prev+[{'property':r[0],'mutant':r[1],'result':r[2],'signatures':(r[3] if len(r)>3 else [])} for r in res],open('/verif/seeded/_self/results.json','w'),indent=1)
