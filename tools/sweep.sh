#!/bin/bash
# tools/sweep.sh <quick|thorough> [parallelism] : run every registered check once, print one line per check
cd "$(dirname "$0")/.."
tier=${1:-quick}; par=${2:-1}
ids=$(python3 -c "import json;print(' '.join(c['property_id'] for c in json.load(open('MANIFEST.json'))['checks']))")
run_one() {
  id=$1; tier=$2; t0=$(date +%s)
  out=$(./check $id $tier 2>&1); rc=$?
  echo "$id $tier exit=$rc t=$(( $(date +%s) - t0 ))s $(echo "$out" | grep -E "^\[$id\] tier=" | sed -E 's/.*(evaluations=[0-9]+).*(violations=[0-9]+).*/\1 \2/') $(echo "$out" | grep -E "^VIOLATION|INCONCLUSIVE" | head -2 | tr '\n' ' ')"
}
export -f run_one
echo $ids | tr ' ' '\n' | xargs -P $par -I{} bash -c "run_one {} $tier"
